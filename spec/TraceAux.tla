---- MODULE TraceAux ----
(* X02: histories recorded from real applications with auxiliary services, judged by the clauses of SpyneAux *)
EXTENDS SpyneAux, Json, IOUtils
TraceLog == ndJsonDeserialize(IOEnv.TRACE_FILE)
VARIABLE tid
R(t) == TraceLog[t]
H(t) == R(t).h
S(t) == R(t).s
Fails(t) == (IF AuxAfterResponse(H(t)) THEN {} ELSE {"AuxAfterResponse"}) \cup (IF AuxInOrder(H(t)) THEN {} ELSE {"AuxInOrder"})
            \cup (IF AuxRunsIffDue(S(t), H(t)) THEN {} ELSE {"AuxRunsIffDue"}) \cup (IF AuxAtMostOnce(H(t)) THEN {} ELSE {"AuxAtMostOnce"})
            \cup (IF PrimaryUnaffected(S(t), H(t)) /\ R(t).same_response THEN {} ELSE {"PrimaryUnaffected"})
            \cup (IF AuxClosedOnce(H(t)) THEN {} ELSE {"AuxClosedOnce"}) \cup (IF AuxClosedIfRan(S(t), H(t)) THEN {} ELSE {"AuxClosedIfRan"})
Init1 == tid \in 1..Len(TraceLog) /\ sc = [po |-> "ok", aux |-> <<>>] /\ pc = "done" /\ k = 1 /\ ev = <<>>
Next1 == UNCHANGED <<tid, sc, pc, k, ev>>
Report == PrintT(<<"V", tid, Fails(tid)>>)
====
