------------------------------ MODULE SpyneXmlDoc ------------------------------
(* The published document/literal mapping of XmlDocument / SOAP 1.1 / SOAP 1.2 as a
   token-level encoder (C01, C16, C06).

   A document is a sequence of tokens
       <<"S", ns, name>>  start tag          <<"AS", <<<<name, text>>, ...>>>>  the attributes of the start tag (compared as a set)
       <<"X", ns, name>>  xsi:type marker    <<"NIL">>            xsi:nil="true"
       <<"T", text>>      character data     <<"E">>              end tag
   Namespace prefixes, attribute order and the XML declaration are outside the alphabet.

   Types (records, as exported to / read from JSON):
       [k |-> "prim", p]                                  leaf; its text is governed by SpyneLexical (C08)
       [k |-> "obj", name, ns, fields, hasbase, base]     fields: <<[n, t, min, max]>>; ancestors' fields first
       [k |-> "arr", of]                                  wrapped array: container + items named after the item type
       [k |-> "attr", of]                                 XML attribute of the enclosing element
       [k |-> "any"]                                      AnyXml: the value <<"xml", name>> is a tree carried as it is (TreeToks)
   Values: <<"nil">> | <<"leaf", text>> | <<"obj", cls, <<v1, ...>>>> (one per flat field; cls = runtime class name)
           | <<"seq", <<items>>>> (array, or a repeated member)

   Rules (the cases of the encoder):
     * a member whose value is nil is OMITTED when min = 0, written with xsi:nil when min > 0
     * a repeated member (max > 1) is written as one element per item; nil / empty = nothing
     * a wrapped array is a container element named after the member; its items are named
       after the item type and live in the item type's namespace (the target namespace for
       leaves)
     * a complex value writes the fields of its declared class, ancestors first, each in the
       namespace of the class that declares it; attributes go on the start tag
     * polymorphic protocols write the runtime class' fields and an xsi:type marker when the
       runtime class differs from the declared one
     * request:  <tns:method> arguments </tns:method>
       response: <tns:methodResponse> <tns:methodResult> ... (methodResult0, 1, .. for several
       return values) ; bare styles write the single value under the message name itself       *)
EXTENDS Naturals, Sequences, TLC

Nil == <<"nil">>
S(ns, n) == <<"S", ns, n>>
E == <<"E">>

\* a member published under another name (sub_name) travels under that name, wherever in the class tree it was declared
PubN(f) == IF "sub" \in DOMAIN f THEN f.sub ELSE f.n
RECURSIVE FlatFields(_)
FlatFields(t) == (IF t.hasbase THEN FlatFields(t.base) ELSE <<>>) \o t.fields
\* the class that declares flat field number k decides its namespace
RECURSIVE OwnerNs(_, _)
OwnerNs(t, k) == IF t.hasbase /\ k <= Len(FlatFields(t.base)) THEN OwnerNs(t.base, k) ELSE t.ns

ItemNs(t, tns)   == IF t.of.k = "obj" THEN t.of.ns ELSE IF t.itemns = "" THEN tns ELSE t.itemns     \* leaf types with a namespace of their own (Uuid)
\* the item name is the item type's type name (given with the type: `item`)
ItemName(t) == t.item

\* the trees AnyXml members carry (SpyneSignatures.T10): a type marker inside a tree denotes the namespace its prefix is bound to
XsdNs == "http://www.w3.org/2001/XMLSchema"
TreeToks(n) ==
  CASE n = "plain"     -> << S("", "note"), <<"T", "hi">>, E >>
    [] n = "typed_int" -> << S("urn:bag", "v"), <<"X", XsdNs, "int">>, <<"T", "5">>, E >>
    [] n = "typed_xsd" -> << S("urn:bag", "v"), <<"X", XsdNs, "decimal">>, <<"T", "5">>, E >>
    [] n = "typed_bag" -> << S("urn:bag", "props"), S("urn:bag", "v"), <<"X", XsdNs, "string">>, <<"T", "a">>, E,
                             S("urn:bag", "v"), <<"X", XsdNs, "int">>, <<"T", "5">>, E, E >>
RECURSIVE EncElem(_, _, _, _, _, _), EncFields(_, _, _, _, _, _), EncItems(_, _, _, _, _, _, _), Attrs(_, _, _)
\* attributes of a complex value: the attr-kind fields with a value, in field order
Attrs(fl, vals, k) ==
  IF k > Len(fl) THEN <<>>
  ELSE (IF fl[k].t.k = "attr" /\ vals[k] # Nil THEN << <<fl[k].n, vals[k][2]>> >> ELSE <<>>) \o Attrs(fl, vals, k + 1)
\* all attributes of a start tag form ONE token whose payload is compared as a set (XML does not order attributes)
AttrTok(fl, vals) == IF Attrs(fl, vals, 1) = <<>> THEN <<>> ELSE << <<"AS", Attrs(fl, vals, 1)>> >>
EncItems(t, items, ns, name, tns, poly, k) ==
  IF k > Len(items) THEN <<>>
  ELSE EncElem(t, items[k], ns, name, tns, poly) \o EncItems(t, items, ns, name, tns, poly, k + 1)
\* the fields of complex type t (flat list fl), values vals
EncFields(t, fl, vals, tns, poly, k) ==
  IF k > Len(fl) THEN <<>>
  ELSE LET f == fl[k]  x == vals[k]  ns == OwnerNs(t, k)
           here == IF f.t.k = "attr" THEN <<>>
                   ELSE IF f.max > 1 THEN (IF x = Nil THEN <<>> ELSE EncItems(f.t, x[2], ns, PubN(f), tns, poly, 1))
                   ELSE IF x # Nil \/ f.min > 0 THEN EncElem(f.t, x, ns, PubN(f), tns, poly)
                   ELSE <<>>
       IN here \o EncFields(t, fl, vals, tns, poly, k + 1)
\* the public type name of a class (`name` identifies the class in the model; two classes may share a type name across namespaces)
TN(t) == IF "tname" \in DOMAIN t THEN t.tname ELSE t.name
\* runtime class of an object value: the declared type or one of its registered subclasses
RECURSIVE Find(_, _)
Find(subs, cls) == IF subs = <<>> THEN [k |-> "none"] ELSE IF Head(subs).name = cls THEN Head(subs) ELSE Find(Tail(subs), cls)
Runtime(t, v) == IF v[2] = t.name \/ ~("subs" \in DOMAIN t) THEN t
                 ELSE LET r == Find(t.subs, v[2]) IN IF r.k = "none" THEN t ELSE r
EncElem(t, v, ns, name, tns, poly) ==
  IF v = Nil THEN << S(ns, name), <<"NIL">>, E >>
  ELSE IF t.k = "prim" THEN << S(ns, name) >> \o (IF v[2] = "" THEN <<>> ELSE << <<"T", v[2]>> >>) \o << E >>
  ELSE IF t.k = "any" THEN << S(ns, name) >> \o TreeToks(v[2]) \o << E >>
  ELSE IF t.k = "obj" THEN
       LET rt == IF poly THEN Runtime(t, v) ELSE t
           fl == FlatFields(rt)
           \* without polymorphism exactly the declared class' fields are written
           vals == [k \in 1..Len(fl) |-> v[3][k]]
       IN << S(ns, name) >> \o (IF poly /\ rt.name # t.name THEN << <<"X", rt.ns, TN(rt)>> >> ELSE <<>>)
          \o AttrTok(fl, vals) \o EncFields(rt, fl, vals, tns, poly, 1) \o << E >>
  ELSE \* wrapped array
       << S(ns, name) >> \o EncItems(t.of, v[2], ItemNs(t, tns), ItemName(t), tns, poly, 1) \o << E >>

\* ---- messages.  c: [tns, method, style, args: <<[n, t, min, max]>>, vals, reqvals, rets: <<t>>, rvals, poly]
\* (reqvals = vals with the leaves spelled the way the request spells them)
ArgT(c)  == [k |-> "obj", name |-> c.method, ns |-> c.tns, hasbase |-> FALSE, fields |-> c.args]
Request(c) ==
  IF c.style = "bare"          \* the single argument IS the message
    THEN EncElem(c.args[1].t, c.reqvals[1], c.tns, c.method, c.tns, c.poly)
    ELSE << S(c.tns, c.method) >> \o EncFields(ArgT(c), c.args, c.reqvals, c.tns, c.poly, 1) \o << E >>
ResultName(c, i) == IF Len(c.rets) = 1 THEN c.method \o "Result" ELSE c.method \o "Result" \o ToString(i - 1)
RetFields(c) == [i \in 1..Len(c.rets) |-> [n |-> ResultName(c, i), t |-> c.rets[i], min |-> c.rmin[i], max |-> c.rmax[i]]]
RetT(c) == [k |-> "obj", name |-> c.method \o "Response", ns |-> c.tns, hasbase |-> FALSE, fields |-> RetFields(c)]
Response(c) ==
  IF c.style \in {"bare", "out_bare"}
    THEN EncElem(c.rets[1], c.rvals[1], c.tns, c.method \o "Response", c.tns, c.poly)
    ELSE << S(c.tns, c.method \o "Response") >> \o EncFields(RetT(c), RetFields(c), c.rvals, c.tns, c.poly, 1) \o << E >>

\* ---- SOAP: Envelope [Header] Body around the message.  Declared headers are written in
\* declaration order, each as an element named after its class in the class' namespace; a
\* header without a value is skipped; no header with a value => no Header element
\* (a response whose header LIST is set writes a header without a value as an explicit nil element -
\* that is what the serializer does with a None in ctx.out_header; a request simply leaves it out)
RECURSIVE HdrToks(_, _, _, _, _, _)
HdrToks(hts, hvals, tns, poly, explicitnil, k) ==
  IF k > Len(hts) THEN <<>>
  ELSE (IF hvals[k] = Nil /\ ~explicitnil THEN <<>> ELSE EncElem(hts[k], hvals[k], hts[k].ns, TN(hts[k]), tns, poly))
       \o HdrToks(hts, hvals, tns, poly, explicitnil, k + 1)
Soap(env, hdr, body) == << S(env, "Envelope") >> \o (IF hdr = <<>> THEN <<>> ELSE << S(env, "Header") >> \o hdr \o << E >>)
                        \o << S(env, "Body") >> \o body \o << E, E >>
Env(fam) == IF fam = "soap11" THEN "http://schemas.xmlsoap.org/soap/envelope/" ELSE "http://www.w3.org/2003/05/soap-envelope"
Wrap(fam, hdr, body) == IF fam = "xml" THEN body ELSE Soap(Env(fam), hdr, body)
ReqHdr(c)  == HdrToks(c.inh, c.inhvals, c.tns, c.poly, FALSE, 1)
RespHdr(c) == HdrToks(c.outh, c.outhvals, c.tns, c.poly, TRUE, 1)

\* ---- the equality the properties state: what XML cannot distinguish is identified
RECURSIVE Norm(_, _)
NormSeq(t, s) == [k \in 1..Len(s) |-> Norm(t, s[k])]
MinLen(a, b) == IF a < b THEN a ELSE b
Norm(t, v) ==
  IF v = Nil THEN Nil
  ELSE IF t.k = "prim" THEN (IF v[2] = "" /\ t.p \in {"ByteArray"} THEN Nil ELSE v)
  ELSE IF t.k \in {"attr", "any", "enum"} \/ v[1] = "leaf" THEN v          \* (a leaf where a structure is declared: an error marker of the driver)
  ELSE IF t.k = "arr" THEN <<"seq", NormSeq(t.of, v[2])>>
  ELSE LET rt == Runtime(t, v)                          \* the value's own class when it is a registered subclass
           fl == FlatFields(rt)
           n  == MinLen(Len(fl), Len(v[3])) IN
       <<"obj", v[2], [k \in 1..n |->
            IF fl[k].max > 1 THEN (IF v[3][k] = Nil \/ v[3][k] = <<"seq", <<>>>> THEN Nil
                                   ELSE IF v[3][k][1] # "seq" THEN v[3][k]      \* (an error marker of the driver)
                                   ELSE <<"seq", NormSeq(fl[k].t, v[3][k][2])>>)
            ELSE Norm(fl[k].t, v[3][k])]>>
\* what is left of a value when only its DECLARED class is transmitted (polymorphism disabled)
RECURSIVE Proj(_, _)
Proj(t, v) ==
  IF v = Nil THEN Nil
  ELSE IF v[1] = "seq" THEN <<"seq", [k \in 1..Len(v[2]) |-> Proj(IF t.k = "arr" THEN t.of ELSE t, v[2][k])]>>
  ELSE IF t.k = "obj" /\ v[1] = "obj" THEN LET fl == FlatFields(t) IN <<"obj", t.name, [k \in 1..Len(fl) |-> Proj(fl[k].t, v[3][k])]>>
  ELSE v
\* arguments as delivered: one per declared argument
NormArgs(c, vs) == [k \in 1..Len(c.args) |->
      IF c.args[k].max > 1 THEN (IF vs[k] = Nil \/ vs[k] = <<"seq", <<>>>> THEN Nil
                                 ELSE IF vs[k][1] # "seq" THEN vs[k]
                                 ELSE <<"seq", NormSeq(c.args[k].t, vs[k][2])>>)
      ELSE Norm(c.args[k].t, vs[k])]

\* token equality: attribute tokens are equal when they carry the same SET of (name, text) pairs
TokEq(x, y) == IF x[1] = "AS" /\ y[1] = "AS" THEN {x[2][i] : i \in 1..Len(x[2])} = {y[2][i] : i \in 1..Len(y[2])} /\ Len(x[2]) = Len(y[2])
               ELSE x = y
SameDoc(a, b) == Len(a) = Len(b) /\ \A k \in 1..Len(a) : TokEq(a[k], b[k])
LCP(a, b) == LET n == IF Len(a) < Len(b) THEN Len(a) ELSE Len(b)
                 bad == {k \in 1..n : ~TokEq(a[k], b[k])}
             IN IF bad = {} THEN n ELSE (CHOOSE k \in bad : \A j \in bad : k <= j) - 1
=============================================================================
