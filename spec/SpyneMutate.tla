------------------------------ MODULE SpyneMutate ------------------------------
(* C04: user code only ever receives values of the declared types.

   One fixed application (the "zoo"; harness/zoo.py builds it from this table):
     tns:     Shape{s1: Integer} <- Circle{r: Integer}, Square{w: Integer}     (registered subclasses)
              Person{name: Unicode, age: Integer, born: Date}                   (unrelated)
              Color = enum(red, green)
     urn:app: Circle{x: Unicode}                                                (unrelated, same NAME as tns:Circle)
     f(shape: Shape, n: Integer, s: Unicode, d: Date, col: Color, xs: Array(Integer), ps: Array(Person), p: Person,
       fl: Double, b: Boolean, cs: Array(Circle), ss: Array(Shape), aa: Array(Array(Unicode)), de: Decimal,
       u: Uuid, ba: ByteArray, tg: Tagged{tag: XML attribute Unicode, v: Integer}) -> Integer
     g(c: {urn:app}Circle) -> Integer
   A valid request for f is mutated at ONE position by one type-directed operator; the
   server is the same for all mutants of a run (so consecutive requests can interfere).
   Each pass over the mutants starts with a VALID request of g whose argument carries the identity
   marker xsi:type = its own class {urn:app}Circle, spelled with the very prefix literal ("p") the
   retag mutants use - so a later  xsi:type="p:Circle"  with p bound to tns means another class.
   Whatever arrives, the outcome must be one of
       Called:   f ran once and every delivered value conforms to its declared type
       Refused:  f did not run and the answer is a Client-side fault
   (Conforms / Outcome below are evaluated by TLC on what the driver observed).          *)
EXTENDS Naturals, Sequences, FiniteSets, TLC

Tns == "tns"
App == "urn:app"
Prim(p) == [k |-> "prim", p |-> p]
Cls(ns, name) == [k |-> "obj", ns |-> ns, name |-> name]
ArrOf(t) == [k |-> "arr", of |-> t]
AttrOf(t) == [k |-> "attr", of |-> t]       \* an XML attribute member (an ordinary member in dict documents and flat keys)
Enum == [k |-> "enum", name |-> "Color"]
\* flat fields (ancestors first) of every class of the interface
FieldsOf(ns, name) ==
  CASE ns = Tns /\ name = "Shape"  -> << <<"s1", Prim("Integer")>> >>
    [] ns = Tns /\ name = "Circle" -> << <<"s1", Prim("Integer")>>, <<"r", Prim("Integer")>> >>
    [] ns = Tns /\ name = "Square" -> << <<"s1", Prim("Integer")>>, <<"w", Prim("Integer")>> >>
    [] ns = Tns /\ name = "Person" -> << <<"name", Prim("Unicode")>>, <<"age", Prim("Integer")>>, <<"born", Prim("Date")>> >>
    [] ns = App /\ name = "Circle" -> << <<"x", Prim("Unicode")>> >>
    [] ns = Tns /\ name = "Tagged" -> << <<"tag", AttrOf(Prim("Unicode"))>>, <<"v", Prim("Integer")>> >>
    [] ns = Tns /\ name = "Session" -> << <<"token", Prim("Unicode")>>, <<"n", Prim("Integer")>>, <<"d", Prim("Date")>> >>
    [] OTHER -> <<>>
Classes == {<<Tns, "Shape">>, <<Tns, "Circle">>, <<Tns, "Square">>, <<Tns, "Person">>, <<App, "Circle">>, <<Tns, "Session">>, <<Tns, "Tagged">>}
\* a class and its registered descendants
Family(ns, name) == IF ns = Tns /\ name = "Shape" THEN {<<Tns, "Shape">>, <<Tns, "Circle">>, <<Tns, "Square">>} ELSE {<<ns, name>>}
Args == << <<"shape", Cls(Tns, "Shape")>>, <<"n", Prim("Integer")>>, <<"s", Prim("Unicode")>>, <<"d", Prim("Date")>>, <<"col", Enum>>,
           <<"xs", ArrOf(Prim("Integer"))>>, <<"ps", ArrOf(Cls(Tns, "Person"))>>, <<"p", Cls(Tns, "Person")>>,
           <<"fl", Prim("Double")>>, <<"b", Prim("Boolean")>>,
           <<"cs", ArrOf(Cls(Tns, "Circle"))>>, <<"ss", ArrOf(Cls(Tns, "Shape"))>>,
           <<"aa", ArrOf(ArrOf(Prim("Unicode")))>>, <<"de", Prim("Decimal")>>,
           <<"u", Prim("Uuid")>>, <<"ba", Prim("ByteArray")>>, <<"tg", Cls(Tns, "Tagged")>> >>
\* the SOAP request header of the service (delivered to user code as ctx.in_header)
Header == Cls(Tns, "Session")

\* ---- positions of the valid request (paths: names and 0-based indexes as strings) and their declared types
Positions == { [path |-> <<"shape">>, t |-> Cls(Tns, "Shape")], [path |-> <<"shape", "s1">>, t |-> Prim("Integer")],
               [path |-> <<"n">>, t |-> Prim("Integer")], [path |-> <<"s">>, t |-> Prim("Unicode")], [path |-> <<"d">>, t |-> Prim("Date")],
               [path |-> <<"col">>, t |-> Enum], [path |-> <<"xs">>, t |-> ArrOf(Prim("Integer"))], [path |-> <<"xs", "0">>, t |-> Prim("Integer")],
               [path |-> <<"ps">>, t |-> ArrOf(Cls(Tns, "Person"))], [path |-> <<"ps", "0">>, t |-> Cls(Tns, "Person")],
               [path |-> <<"ps", "0", "age">>, t |-> Prim("Integer")], [path |-> <<"p">>, t |-> Cls(Tns, "Person")],
               [path |-> <<"p", "name">>, t |-> Prim("Unicode")], [path |-> <<"p", "age">>, t |-> Prim("Integer")], [path |-> <<"p", "born">>, t |-> Prim("Date")],
               [path |-> <<"fl">>, t |-> Prim("Double")], [path |-> <<"b">>, t |-> Prim("Boolean")],
               \* an array of a DERIVED class next to an array of its base: the array of the base is not a substitute for it
               [path |-> <<"cs">>, t |-> ArrOf(Cls(Tns, "Circle"))], [path |-> <<"cs", "0">>, t |-> Cls(Tns, "Circle")],
               [path |-> <<"ss">>, t |-> ArrOf(Cls(Tns, "Shape"))],
               \* an array directly inside an array: the declared types hold at every depth
               [path |-> <<"aa">>, t |-> ArrOf(ArrOf(Prim("Unicode")))], [path |-> <<"aa", "0">>, t |-> ArrOf(Prim("Unicode"))],
               [path |-> <<"aa", "0", "0">>, t |-> Prim("Unicode")],
               \* a decimal travels as text in the dict documents: a NUMBER (or a boolean) of the document is not a decimal
               [path |-> <<"de">>, t |-> Prim("Decimal")],
               \* a uuid is a restriction of string in the schema - a string is not a uuid; binary data is text (base64) or bin, no other kind
               [path |-> <<"u">>, t |-> Prim("Uuid")], [path |-> <<"ba">>, t |-> Prim("ByteArray")],
               [path |-> <<"tg">>, t |-> Cls(Tns, "Tagged")], [path |-> <<"tg", "tag">>, t |-> AttrOf(Prim("Unicode"))] }
\* positions inside the SOAP header (XML family, SOAP protocols only)
HeaderPositions == { [path |-> <<"@hdr">>, t |-> Header], [path |-> <<"@hdr", "token">>, t |-> Prim("Unicode")],
                     [path |-> <<"@hdr", "n">>, t |-> Prim("Integer")], [path |-> <<"@hdr", "d">>, t |-> Prim("Date")] }
IsLeaf(t) == t.k \in {"prim", "enum"}

\* ---- operators
Xs == "http://www.w3.org/2001/XMLSchema"
\* xsi:type targets: every class of the interface, XSD builtins, a name nobody declared
\* (the array wrapper types are classes of the interface too)
RetagTargets == Classes \cup {<<Xs, "string">>, <<Xs, "int">>, <<Xs, "integer">>, <<Xs, "anyType">>, <<Xs, "date">>, <<Tns, "Nope">>, <<Tns, "Color">>, <<Tns, "f">>, <<Tns, "fResponse">>,
                              <<Tns, "integerArray">>, <<Tns, "PersonArray">>, <<Tns, "ShapeArray">>, <<Tns, "CircleArray">>}
\* leaf texts that are not values of the slot but NAME something: attributes of the model classes, other types' literals
HostileTexts == {"Attributes", "__values__", "__type_name__", "validate_string", "mro", "__class__", "blue", "", "1e3", "2020-13-45", "None", "True"}
\* (an attribute has no markup of its own to mutate: its positions are for the dict and flat families)
XmlMutants == {[fam |-> "xml", pos |-> p, op |-> "retag", arg |-> q] : p \in {x \in Positions : x.t.k # "attr"} \cup HeaderPositions, q \in RetagTargets}
              \cup {[fam |-> "xml", pos |-> p, op |-> "text", arg |-> <<x, "">>] : p \in {q \in Positions : IsLeaf(q.t)}, x \in HostileTexts}
              \cup {[fam |-> "xml", pos |-> p, op |-> "struct", arg |-> <<"", "">>] : p \in {q \in Positions : IsLeaf(q.t)}}
              \cup {[fam |-> "xml", pos |-> p, op |-> "textonly", arg |-> <<"abc", "">>] : p \in {q \in Positions : ~IsLeaf(q.t)}}
\* value kinds of a dict document put where another kind is declared (identifiers; the driver holds the trees)
\* (negfloat: -1.0, an integral float; null; ydate / yset: YAML's native date and set, which JSON and MessagePack cannot spell)
Trees == {"emptymap", "emptylist", "map1", "list1", "str", "strnum", "zero", "one", "false", "true", "float", "emptystr", "listlist", "personmap", "wrapped_person", "wrapped_appcircle",
          "negfloat", "null", "ydate", "yset", "listnull",
          \* texts that spell numbers the way other notations do (exponent forms YAML 1.1 leaves as strings): still texts
          "expstr", "expstrneg", "expfrac"}
DictMutants == {[fam |-> "dict", pos |-> p, op |-> "replace", arg |-> <<x, "">>] : p \in Positions, x \in Trees}
\* wrapper documents (ignore_wrappers = FALSE): the wrapper key of an object renamed
WrapperNames == {"Shape", "Circle", "Square", "Person", "Nope", "f", "Color", "Integer"}
WrapMutants == {[fam |-> "wrap", pos |-> p, op |-> "wrapper", arg |-> <<x, "">>] : p \in {q \in Positions : q.t.k = "obj"}, x \in WrapperNames}
\* flat keys (HttpRpc): the key of a position respelled
FlatVariants == {"dot_x", "index0", "index0_dot_x", "as_scalar", "twice", "brackets_only", "deep"}
FlatMutants == {[fam |-> "flat", pos |-> p, op |-> "flatkey", arg |-> <<x, "">>] : p \in Positions, x \in FlatVariants}
Mutants == XmlMutants \cup DictMutants \cup WrapMutants \cup FlatMutants

\* ---- what the driver reports for a delivered value (its SHAPE):
\*   <<"nil">> | <<"leaf", kind>> | <<"obj", ns, name, <<shape per flat field of THAT class>>>> | <<"seq", <<shapes>>>>
NativeKind(p) == CASE p = "Integer" -> "int" [] p = "Unicode" -> "str" [] p = "Date" -> "date" [] p = "Boolean" -> "bool" [] p = "Double" -> "float" [] p = "Decimal" -> "decimal" [] p = "Uuid" -> "uuid" [] p = "ByteArray" -> "bytes" [] OTHER -> "?"
RECURSIVE Conforms(_, _)
Conforms(t, s) ==
  IF s = <<"nil">> THEN TRUE
  \* (Python's bool IS an int: True in an Integer slot is an instance of the declared native type)
  \* (and an int in a Double slot is the same number: documents with one number kind cannot tell 5 from 5.0)
  ELSE IF t.k = "prim" THEN s[1] = "leaf" /\ (s[2] = NativeKind(t.p) \/ (t.p = "Integer" /\ s[2] = "bool") \/ (t.p = "Double" /\ s[2] = "int"))
  ELSE IF t.k = "attr" THEN Conforms(t.of, s)
  ELSE IF t.k = "enum" THEN s[1] = "leaf" /\ s[2] \in {"enum:red", "enum:green"}
  ELSE IF t.k = "arr" THEN s[1] = "seq" /\ \A k \in 1..Len(s[2]) : Conforms(t.of, s[2][k])
  ELSE /\ s[1] = "obj" /\ <<s[2], s[3]>> \in Family(t.ns, t.name)
       /\ Len(s[4]) = Len(FieldsOf(s[2], s[3]))
       /\ \A k \in 1..Len(s[4]) : Conforms(FieldsOf(s[2], s[3])[k][2], s[4][k])
\* o: [ncalls, args (shapes, one per argument of f), fault, client, escape]
Called(o)  == o.ncalls = 1 /\ Len(o.args) = Len(Args) /\ (\A k \in 1..Len(Args) : Conforms(Args[k][2], o.args[k]))
              /\ Conforms(Header, o.hdr)
Refused(o) == o.ncalls = 0 /\ o.fault /\ o.client /\ ~o.escape
Fails(o) == IF Called(o) \/ Refused(o) THEN {}
            ELSE (IF o.escape THEN {"Escape"} ELSE {})
                 \cup (IF o.ncalls >= 1 /\ ~Called(o) THEN {"ForeignValueDelivered"} ELSE {})
                 \cup (IF o.ncalls = 0 /\ ~o.escape /\ ~(o.fault /\ o.client) THEN {"NotAClientFault"} ELSE {})
\* anti-vacuity: Conforms accepts the valid shapes and rejects foreign ones
PersonS == <<"obj", Tns, "Person", << <<"leaf", "str">>, <<"leaf", "int">>, <<"nil">> >>>>
ASSUME Conforms(Cls(Tns, "Shape"), <<"obj", Tns, "Circle", << <<"leaf", "int">>, <<"leaf", "int">> >>>>)
ASSUME ~Conforms(Cls(Tns, "Shape"), <<"obj", App, "Circle", << <<"leaf", "str">> >>>>)
ASSUME ~Conforms(Cls(Tns, "Shape"), PersonS)
ASSUME Conforms(Cls(Tns, "Person"), PersonS) /\ ~Conforms(Prim("Integer"), PersonS) /\ ~Conforms(Prim("Integer"), <<"leaf", "str">>)
ASSUME ~Conforms(Enum, <<"leaf", "py:type">>) /\ ~Conforms(Prim("Unicode"), <<"seq", <<>>>>) /\ Conforms(ArrOf(Prim("Integer")), <<"seq", <<>>>>)
=============================================================================
