SPECIFICATION Spec
CONSTANT Deviations = {}
CONSTANT MaxInst = 3
INVARIANT Isolated
INVARIANT DefaultEndpointsSafe
CHECK_DEADLOCK FALSE
