SPECIFICATION TSpec
CONSTANT Deviations = {}
CONSTANT ScenSet = "events"
CONSTRAINT Report
CHECK_DEADLOCK FALSE
