---------------------------- MODULE SpynePipeline ----------------------------
(* One request through a Spyne server transport.

   One action per block of
     WsgiApplication.handle_rpc / handle_error / __finalize / __wsgi_input_to_iterable,
     ServerBase.generate_contexts / get_in_object / get_out_object /
                get_out_string_pull / finalize_context,
     Application.process_request, MethodContext.__init__ / close / fire_event.

   The *design* the given properties (C09, C10, C13, C14) demand is the module
   with Deviations = {}.  Every way in which the pinned tree was observed to
   differ is a NAMED deviation; enabling it in an M1 run makes TLC report the
   property clause it breaks (that is the non-vacuity run), and trace validation
   may enable only the deviations that known_findings.json lists.

   The observable history `ev` is ONE merged sequence: listener calls on every
   event manager, entry into the user function, start_response, the hand-over of
   the response iterable, body chunks, iterator close, reads of wsgi.input.
   Close timing relative to the body is only visible in a merged order.        *)
EXTENDS Naturals, Integers, Sequences, FiniteSets, TLC

CONSTANTS Deviations,     \* set of named deviations enabled
          ScenSet         \* "events" | "wsgi" : which scenario family Init ranges over

\* ------------------------------------------------------------------ scenario
NoAbort    == 99
Absent     == -1          \* CONTENT_LENGTH header absent
Empty      == -2          \* CONTENT_LENGTH = ""
Transports == {"wsgi", "base"}
Families   == {"xml", "soap11", "soap12", "json", "yaml", "msgpack", "http"}
Eager      == {"xml", "soap11", "soap12"}      \* serialise inside get_out_string
Soap       == {"soap11", "soap12"}
ReqClass   == {"valid", "badsyntax", "badenvelope", "unknown", "badargs"}
Outcome    == {"ok", "fault_client", "fault_server", "fault_nf", "fault_auth",
               "fault_405", "fault_413", "exc", "exc_type",    \* exc_type: a TypeError (argument-passing code catches those)
               "redirect"}     \* the function raises HttpRedirect: not a fault - the answer is a 30x page written by the transport
Where      == {"app", "svc", "svc2"}           \* which listener raises

VARIABLES
  cfg,      \* [tr, family, chunked, maxlen, block]
  req,      \* [class, len, declared]   len = real body length (abstract units)
  inj,      \* [call, fn, ret, ser, at] outcome of method_call listener / function /
            \*   method_return_object listener / serialisation; at = raising listener
  abort,    \* client closes the response iterable after this many chunks
  pc, ev, fnRuns, fnOk, inErr, outErr, bound,
  sr, status, clen, handed, chunks, closed, wclosed, nread

vars == <<cfg, req, inj, abort, pc, ev, fnRuns, fnOk, inErr, outErr, bound,
          sr, status, clen, handed, chunks, closed, wclosed, nread>>
scen == <<cfg, req, inj, abort>>
rest == <<pc, ev, fnRuns, fnOk, inErr, outErr, bound,
          sr, status, clen, handed, chunks, closed, wclosed, nread>>

FaultOf(o) == CASE o = "fault_client" -> <<"Client", "Custom">>
                [] o = "fault_server" -> <<"Server", "Custom">>
                [] o = "fault_nf"     -> <<"Client", "ResourceNotFound">>
                [] o = "fault_auth"   -> <<"Client", "InvalidCredentialsError">>
                [] o = "fault_405"    -> <<"Client", "RequestNotAllowed">>
                [] o = "fault_413"    -> <<"Client", "RequestTooLong">>
                [] o = "exc"          -> <<"Server">>        \* generic Internal Error
                [] o = "exc_type"     -> <<"Server">>
NoFault == <<>>
\* dedicated error class of the fault object (isinstance in fault_to_http_response_code)
ClsOf(f) == CASE f = <<"Client", "RequestTooLong">>          -> "toolong"
              [] f = <<"Client", "ResourceNotFound">>        -> "notfound"
              [] f = <<"Client", "RequestNotAllowed">>       -> "notallowed"
              [] f = <<"Client", "InvalidCredentialsError">> -> "auth"
              [] OTHER -> "fault"
PP == INSTANCE PipelineProps
IsClient(f) == PP!IsClientCode(f)
Status(fam, f) == PP!Status(fam \in Soap, ClsOf(f), f)

NoInj == [call |-> "ok", fn |-> "ok", ret |-> "ok", ser |-> "ok", at |-> "app", res |-> "plain", fin |-> "ok"]

\* a single failure per call; built constructively (a filter over the full product is slow)
Bad == Outcome \ {"ok", "redirect"}
InjSet ==
     {[NoInj EXCEPT !.res = r] : r \in {"plain", "gen", "none"}}      \* none: the method declares no return value
  \cup {[NoInj EXCEPT !.call = o, !.at = a] : o \in Bad, a \in Where}
  \cup {[NoInj EXCEPT !.fn = o, !.res = r] : o \in Bad, r \in {"plain", "gen"}}
  \cup {[NoInj EXCEPT !.ret = o, !.at = a] : o \in Bad, a \in Where}
  \cup {[NoInj EXCEPT !.ser = "exc"]}
  \cup {[NoInj EXCEPT !.ser = "empty"]}      \* the function returns an EMPTY sequence where two values are declared
  \cup {[NoInj EXCEPT !.fn = "redirect"]}
  \* a raising method_context_closed / wsgi_close listener, on a success and on a fault
  \cup {[NoInj EXCEPT !.fin = f, !.fn = o] : f \in {"raise_closed", "raise_wsgiclose"}, o \in {"ok", "fault_client"}}
  \* a wsgi_return listener REPLACES the body (appends a trailer, as a compressing listener would): the announced length is the
  \* length of what is handed over, not of what the protocol had serialized
  \cup {[NoInj EXCEPT !.fin = "rewrite", !.res = r] : r \in {"plain", "gen"}}
  \* user code announces a length of its own, spelled in lower case (HTTP header names are case-insensitive): the response still
  \* carries ONE Content-Length, the one of the body that is sent
  \cup {[NoInj EXCEPT !.fin = "lclen"]}

EventInj == {i \in InjSet : i.res \in {"plain", "none"}}
EventScenarios ==
  { s \in [cfg : [tr : Transports, family : Families, chunked : {TRUE},
                  maxlen : {8}, block : {4}],
           req : [kind : {"rpc"}, class : ReqClass, len : {3}, declared : {3}],
           inj : EventInj, abort : {NoAbort}] :
      /\ (s.req.class # "valid" => s.inj = NoInj)
      /\ (s.inj.ser # "ok" => (s.cfg.family \in Eager /\ s.cfg.tr = "wsgi"))
      /\ (s.req.class = "badenvelope" => s.cfg.family \in Soap)
      /\ (s.req.class = "badsyntax" => s.cfg.family # "http")
      /\ (s.cfg.family = "http" => s.cfg.tr = "wsgi")
      /\ (s.inj.fin # "ok" => s.cfg.tr = "wsgi")
      /\ (s.inj.fn = "redirect" => s.cfg.tr = "wsgi") }

\* body length x declared CONTENT_LENGTH x limit x block x chunked x outcome x abort
WsgiInj == {i \in InjSet : i.call = "ok" /\ i.ret = "ok" /\ i.ser = "ok"
                             /\ i.fn \in {"ok", "fault_client", "fault_413", "exc", "redirect"}
                             /\ i.fin \in {"ok", "raise_wsgiclose", "rewrite", "lclen"}}
WsgiRpcOf(ML, BL, LEN, DECL) ==
  { s \in [cfg : [tr : {"wsgi"}, family : {"json", "soap11"}, chunked : BOOLEAN,
                  maxlen : ML, block : BL],
           req : [kind : {"rpc"}, class : {"valid", "unknown", "badargs"}, len : LEN,
                  declared : {Absent, Empty} \cup DECL],
           inj : WsgiInj, abort : {NoAbort, 0, 1}] :
      /\ (s.req.class # "valid" => s.inj = NoInj) }
\* (block sizes that do and do not divide the limit, and one larger than the limit)
WsgiRpcScenarios == IF ScenSet = "wsgitiny" THEN WsgiRpcOf({2}, {1, 3}, 1..2, {1, 3})
                    ELSE IF ScenSet = "wsgiq" THEN WsgiRpcOf({2}, {1, 3}, 1..3, 0..4)
                                         ELSE WsgiRpcOf({2, 4}, {1, 3}, 1..5, 0..6)
\* a ?wsdl fetch is a GET: no body, no injection; "wsdlerr": building the document fails
WsgiWsdlScenarios ==
  [cfg : [tr : {"wsgi"}, family : {"soap11"}, chunked : BOOLEAN, maxlen : {2, 4}, block : {1}],
   \* wsdlrw: a `wsdl` listener rewrites the document; wsdl2: the document was built by an EARLIER request of this transport
   req : [kind : {"wsdl", "wsdlerr", "wsdlrw", "wsdl2"}, class : {"valid"}, len : {1}, declared : {Absent}],
   inj : {NoInj}, abort : {NoAbort, 0, 1}]
\* HttpRpc as the OUT protocol hands the value of the function through unchanged: a plain number as its text, a generator
\* of byte strings (res = "gen") as the lazily produced body
\* ser = "late": the producer of such a body FAILS after its first chunk.  A server that sends the body as it is produced
\* (chunked) has sent the status line by then: the failure reaches the WSGI server from the iterator, and the context is closed
\* all the same.  A server that joins the body before it answers (not chunked) answers with the fault.
LateInj == [NoInj EXCEPT !.ser = "late", !.res = "gen"]
WsgiHttpOutScenarios ==
  [cfg : [tr : {"wsgi"}, family : {"http"}, chunked : BOOLEAN, maxlen : {4}, block : {1}],
   req : [kind : {"rpc"}, class : {"valid"}, len : {1}, declared : {Absent}],
   inj : {i \in WsgiInj : i.fin \in {"ok", "rewrite", "lclen"}} \cup {LateInj}, abort : {NoAbort, 0, 1}]
WsgiScenarios == WsgiRpcScenarios \cup WsgiWsdlScenarios \cup WsgiHttpOutScenarios

Scenarios == IF ScenSet = "events" THEN EventScenarios ELSE WsgiScenarios

Init ==
  /\ \E s \in Scenarios : cfg = s.cfg /\ req = s.req /\ inj = s.inj /\ abort = s.abort
  /\ pc = "new" /\ ev = <<>> /\ fnRuns = 0 /\ fnOk = FALSE
  /\ inErr = NoFault /\ outErr = NoFault /\ bound = FALSE
  /\ sr = 0 /\ status = 0 /\ clen = Absent /\ handed = FALSE /\ chunks = 0
  /\ closed = 0 /\ wclosed = 0 /\ nread = 0

\* ------------------------------------------------------------------- helpers
Dev(d) == d \in Deviations
Emit(m, n) == ev' = Append(ev, <<m, n>>)
\* MethodContext.fire_event: application manager, then (descriptor bound) the
\* method's own managers, then the service's manager with its two listeners.
Chain    == IF bound THEN <<"app", "meth", "svc", "svc2">> ELSE <<"app">>
Upto(w)  == IF ~bound \/ w = "app" THEN <<"app">>
            ELSE IF w = "svc" THEN <<"app", "meth", "svc">>
            ELSE <<"app", "meth", "svc", "svc2">>
Seq2(c, n) == [i \in 1..Len(c) |-> <<c[i], n>>]
Fire(n)        == ev' = ev \o Seq2(Chain, n)
FireBroken(n)  == ev' = ev \o Seq2(Upto(inj.at), n)     \* raising listener stops the rest

MinN(a, b) == IF a < b THEN a ELSE b
\* what __wsgi_input_to_iterable may consume
Declared  == IF req.declared = Absent THEN cfg.maxlen
             ELSE IF req.declared = Empty THEN 0 ELSE req.declared
TooLong   == cfg.tr = "wsgi" /\ Declared > cfg.maxlen
ReadGoal  == IF cfg.tr = "wsgi" THEN MinN(Declared, req.len) ELSE req.len
\* the body that reaches the parser is a strict prefix of the real one => syntax error
Truncated == ReadGoal < req.len

\* -------------------------------------------------------------------- actions
CtxCreate ==
  /\ pc = "new" /\ Emit("app", "method_context_created")
  /\ pc' = IF req.kind # "rpc" THEN "wsdl" ELSE IF cfg.tr = "wsgi" THEN "wsgicall" ELSE "read"
  /\ UNCHANGED <<scen, fnRuns, fnOk, inErr, outErr, bound, sr, status, clen, handed, chunks, closed, wclosed, nread>>

WsgiCall ==
  /\ pc = "wsgicall" /\ Emit("wsgi", "wsgi_call") /\ pc' = "read"
  /\ UNCHANGED <<scen, fnRuns, fnOk, inErr, outErr, bound, sr, status, clen, handed, chunks, closed, wclosed, nread>>

\* handle_wsdl_request: the cached document (or the 500 of a failed build) is
\* answered with a Content-Length; the context is closed after the body
WsdlRespond ==
  /\ pc = "wsdl"
  /\ status' = (IF req.kind # "wsdlerr" THEN 200 ELSE 500)
  /\ ev' = ev \o << <<"wsgi", IF req.kind # "wsdlerr" THEN "wsdl" ELSE "wsdl_exception">>,
                     <<"sr", status'>> >>
  /\ sr' = sr + 1 /\ clen' = (IF req.kind # "wsdlerr" THEN 1 ELSE Absent) /\ pc' = "handover"
  /\ UNCHANGED <<scen, fnRuns, fnOk, inErr, outErr, bound, handed, chunks, closed, wclosed, nread>>

\* create_in_document consumes ctx.in_string; for WSGI that is the reader loop
ReadBlock ==
  /\ pc = "read" /\ cfg.tr = "wsgi" /\ ~TooLong /\ nread < ReadGoal
  /\ LET n == MinN(cfg.block, Declared - nread) IN
       /\ nread' = MinN(nread + n, req.len)
       /\ IF ScenSet # "events" THEN Emit("read", n) ELSE UNCHANGED ev   \* reads are logged in unit-sized scenarios only
  /\ UNCHANGED <<scen, pc, fnRuns, fnOk, inErr, outErr, bound, sr, status, clen, handed, chunks, closed, wclosed>>

\* the reader asks once more when the stream ended before the declared length
ReadEof ==
  /\ pc = "read" /\ cfg.tr = "wsgi" /\ ~TooLong /\ nread = ReadGoal /\ nread < Declared
  /\ (IF ScenSet # "events" THEN Emit("read", MinN(cfg.block, Declared - nread)) ELSE UNCHANGED ev)
  /\ pc' = "parse"
  /\ UNCHANGED <<scen, fnRuns, fnOk, inErr, outErr, bound, sr, status, clen, handed, chunks, closed, wclosed, nread>>

ReadDone ==
  /\ pc = "read" /\ (cfg.tr # "wsgi" \/ (~TooLong /\ nread = ReadGoal /\ nread = Declared))
  /\ pc' = "parse"
  /\ UNCHANGED <<scen, ev, fnRuns, fnOk, inErr, outErr, bound, sr, status, clen, handed, chunks, closed, wclosed, nread>>

InFault(f) ==
  /\ inErr' = f /\ outErr' = f
  /\ Fire("method_exception_object") /\ pc' = "error"

\* declared length above the limit: refused before a single byte is read
RefuseTooLong ==
  /\ pc = "read" /\ TooLong /\ InFault(<<"Client", "RequestTooLong">>)
  /\ UNCHANGED <<scen, fnRuns, fnOk, bound, sr, status, clen, handed, chunks, closed, wclosed, nread>>

\* generate_contexts: create_in_document, decompose_incoming_envelope,
\* generate_method_contexts.  Any Fault ends in its `except Fault` arm.
GenContextsFail ==
  /\ pc = "parse"
  /\ (req.class \in {"badsyntax", "badenvelope", "unknown"} \/ (Truncated /\ cfg.family # "http"))
  /\ InFault(IF req.class = "badsyntax" \/ (Truncated /\ cfg.family # "http") THEN <<"Client", "Syntax">>
             ELSE IF req.class = "badenvelope" THEN <<"Client", "Envelope">>
             ELSE <<"Client", "ResourceNotFound">>)
  /\ UNCHANGED <<scen, fnRuns, fnOk, bound, sr, status, clen, handed, chunks, closed, wclosed, nread>>

GenContextsOk ==
  /\ pc = "parse" /\ req.class \in {"valid", "badargs"} /\ ~(Truncated /\ cfg.family # "http")
  /\ bound' = TRUE /\ pc' = "deser"
  /\ UNCHANGED <<scen, ev, fnRuns, fnOk, inErr, outErr, sr, status, clen, handed, chunks, closed, wclosed, nread>>

DeserOk ==
  /\ pc = "deser" /\ req.class = "valid" /\ pc' = "call"
  /\ UNCHANGED <<scen, ev, fnRuns, fnOk, inErr, outErr, bound, sr, status, clen, handed, chunks, closed, wclosed, nread>>

DeserFail ==
  /\ pc = "deser" /\ req.class = "badargs" /\ InFault(<<"Client", "ValidationError">>)
  /\ UNCHANGED <<scen, fnRuns, fnOk, bound, sr, status, clen, handed, chunks, closed, wclosed, nread>>

\* Application.process_request: everything below runs inside its try block
EvMethodCall ==
  /\ pc = "call"
  /\ IF inj.call = "ok"
       THEN /\ Fire("method_call") /\ pc' = "fn" /\ UNCHANGED outErr
       ELSE /\ FireBroken("method_call") /\ outErr' = FaultOf(inj.call) /\ pc' = "excobj"
  /\ UNCHANGED <<scen, fnRuns, fnOk, inErr, bound, sr, status, clen, handed, chunks, closed, wclosed, nread>>

\* a generator function: calling it runs no user code yet
CallGenFn ==
  /\ pc = "fn" /\ inj.res = "gen" /\ pc' = "retobj"
  /\ UNCHANGED <<scen, ev, fnRuns, fnOk, inErr, outErr, bound, sr, status, clen, handed, chunks, closed, wclosed, nread>>

\* handle_rpc advances a generator result to its first yield before serialising
GenFirst ==
  /\ pc = "genfirst" /\ fnRuns' = fnRuns + 1 /\ Emit("fn", "call")
  /\ IF inj.fn = "ok" THEN pc' = "serialize" /\ fnOk' = TRUE /\ UNCHANGED outErr
                      ELSE pc' = "excobj" /\ outErr' = FaultOf(inj.fn) /\ UNCHANGED fnOk
  /\ UNCHANGED <<scen, inErr, bound, sr, status, clen, handed, chunks, closed, wclosed, nread>>

CallFn ==
  /\ pc = "fn" /\ inj.res # "gen" /\ fnRuns' = fnRuns + 1 /\ Emit("fn", "call")
  /\ IF inj.fn = "ok" THEN pc' = "retobj" /\ fnOk' = TRUE /\ UNCHANGED outErr
     ELSE IF inj.fn = "redirect" THEN pc' = "redirect" /\ UNCHANGED <<fnOk, outErr>>
                      ELSE pc' = "excobj" /\ outErr' = FaultOf(inj.fn) /\ UNCHANGED fnOk
  /\ UNCHANGED <<scen, inErr, bound, sr, status, clen, handed, chunks, closed, wclosed, nread>>

\* Application.process_request, `except Redirect`: do_redirect() has the transport write the 30x page into ctx.out_string and
\* set the response code; method_redirect fires; no object / document / string event follows (nothing is serialised)
EvRedirect ==
  /\ pc = "redirect" /\ Fire("method_redirect") /\ status' = 302 /\ pc' = "redirected"
  /\ UNCHANGED <<scen, fnRuns, fnOk, inErr, outErr, bound, sr, clen, handed, chunks, closed, wclosed, nread>>
RedirectReturn ==
  /\ pc = "redirected" /\ Emit("wsgi", "wsgi_return") /\ pc' = "respond"
  /\ UNCHANGED <<scen, fnRuns, fnOk, inErr, outErr, bound, sr, status, clen, handed, chunks, closed, wclosed, nread>>

EvReturnObject ==
  /\ pc = "retobj"
  /\ IF inj.ret = "ok"
       THEN /\ Fire("method_return_object") /\ UNCHANGED outErr
            /\ pc' = (IF inj.res = "gen" THEN "genfirst" ELSE "serialize")
       ELSE /\ FireBroken("method_return_object") /\ outErr' = FaultOf(inj.ret) /\ pc' = "excobj"
  /\ UNCHANGED <<scen, fnRuns, fnOk, inErr, bound, sr, status, clen, handed, chunks, closed, wclosed, nread>>

EvExceptionObject ==
  /\ pc = "excobj" /\ Fire("method_exception_object") /\ pc' = "error"
  /\ UNCHANGED <<scen, fnRuns, fnOk, inErr, outErr, bound, sr, status, clen, handed, chunks, closed, wclosed, nread>>

\* success arm of handle_rpc: get_out_string inside try/except Exception
SerializeOk ==
  /\ pc = "serialize" /\ inj.ser \in {"ok", "late"} /\ pc' = "retdoc" /\ status' = 200
  /\ UNCHANGED <<scen, ev, fnRuns, fnOk, inErr, outErr, bound, sr, clen, handed, chunks, closed, wclosed, nread>>

\* unserialisable return value, eager protocols.  The design fires
\* method_exception_object (C14: "exactly when the call ends in a fault").
SerializeFail ==
  /\ pc = "serialize" /\ inj.ser \notin {"ok", "late"} /\ outErr' = <<"Server">>
  /\ IF Dev("NoExcObjOnSerFail") THEN UNCHANGED ev ELSE Fire("method_exception_object")
  /\ pc' = "error" /\ status' = 0       \* the call ends in a fault: the status line is the fault's (HandleError)
  /\ UNCHANGED <<scen, fnRuns, fnOk, inErr, bound, sr, clen, handed, chunks, closed, wclosed, nread>>

\* ServerBase.finalize_context, success arm
EvReturnDocString ==
  /\ pc = "retdoc"
  /\ ev' = ev \o Seq2(Chain, "method_return_document") \o Seq2(Chain, "method_return_string")
              \o (IF cfg.tr = "wsgi" THEN << <<"wsgi", "wsgi_return">> >> ELSE <<>>)
  /\ pc' = "respond"
  /\ UNCHANGED <<scen, fnRuns, fnOk, inErr, outErr, bound, sr, status, clen, handed, chunks, closed, wclosed, nread>>

\* handle_error: resp_code, get_out_string (fault document), wsgi_exception
HandleError ==
  /\ pc = "error"
  /\ status' = (IF status = 0 THEN Status(cfg.family, outErr) ELSE status)
  /\ ev' = ev \o Seq2(Chain, "method_exception_document") \o Seq2(Chain, "method_exception_string")
              \o (IF cfg.tr = "wsgi" THEN << <<"wsgi", "wsgi_exception">> >> ELSE <<>>)
  /\ pc' = "respond"
  /\ UNCHANGED <<scen, fnRuns, fnOk, inErr, outErr, bound, sr, clen, handed, chunks, closed, wclosed, nread>>

\* deviation: wsgi.py `[''.join(p_ctx.out_string)]` joins bytes with a str
NonChunkedJoinCrash ==
  /\ Dev("NonChunkedStrJoin")
  /\ pc = "respond" /\ cfg.tr = "wsgi" /\ ~cfg.chunked /\ outErr = NoFault
  /\ Emit("escape", "TypeError") /\ pc' = "crashed"
  /\ UNCHANGED <<scen, fnRuns, fnOk, inErr, outErr, bound, sr, status, clen, handed, chunks, closed, wclosed, nread>>

\* not chunked: the body is joined before the server answers; a lazily produced body that fails while it is pulled makes the
\* call end in a fault, answered as one (its own status line)
JoinFails ==
  /\ pc = "respond" /\ cfg.tr = "wsgi" /\ ~cfg.chunked /\ inj.ser = "late" /\ outErr = NoFault
  /\ outErr' = <<"Server">> /\ Fire("method_exception_object") /\ status' = 0 /\ pc' = "error"
  /\ UNCHANGED <<scen, fnRuns, fnOk, inErr, bound, sr, clen, handed, chunks, closed, wclosed, nread>>
\* chunked: the failure surfaces from the iterator after the first chunk
BodyFails ==
  /\ pc = "body" /\ chunks = 1 /\ cfg.chunked /\ inj.ser = "late" /\ outErr = NoFault /\ abort \notin {0, 1}
  /\ Emit("escape", "Boom") /\ pc' = (IF closed = 0 THEN "finalize" ELSE "iterclose")
  /\ UNCHANGED <<scen, fnRuns, fnOk, inErr, outErr, bound, sr, status, clen, handed, chunks, closed, wclosed, nread>>

StartResponse ==
  /\ pc = "respond" /\ cfg.tr = "wsgi"
  /\ ~(inj.ser = "late" /\ ~cfg.chunked /\ outErr = NoFault)
  /\ ~(Dev("NonChunkedStrJoin") /\ ~cfg.chunked /\ outErr = NoFault)
  /\ sr' = sr + 1 /\ Emit("sr", status)
  \* Content-Length is sent for faults and for non-chunked successes
  /\ clen' = IF outErr # NoFault \/ ~cfg.chunked \/ inj.fn = "redirect" THEN 1 ELSE Absent
  /\ pc' = IF Dev("CloseBeforeBody") THEN "finalize_early" ELSE "handover"
  /\ UNCHANGED <<scen, fnRuns, fnOk, inErr, outErr, bound, status, handed, chunks, closed, wclosed, nread>>

\* a bare ServerBase: the caller reads ctx.out_string and owns close()
BaseRespond ==
  /\ pc = "respond" /\ cfg.tr = "base" /\ pc' = "finalize" /\ handed' = TRUE
  /\ UNCHANGED <<scen, ev, fnRuns, fnOk, inErr, outErr, bound, sr, status, clen, chunks, closed, wclosed, nread>>

\* deviation: chain(out_string, self.__finalize(p_ctx)) evaluates __finalize eagerly
FinalizeEarly ==
  /\ pc = "finalize_early"
  /\ ev' = ev \o << <<"app", "method_context_closed">>, <<"wsgi", "wsgi_close">> >>
  /\ closed' = closed + 1 /\ wclosed' = wclosed + 1 /\ pc' = "handover"
  /\ UNCHANGED <<scen, fnRuns, fnOk, inErr, outErr, bound, sr, status, clen, handed, chunks, nread>>

HandOver ==
  /\ pc = "handover" /\ handed' = TRUE /\ pc' = "body" /\ Emit("io", "handover")
  /\ UNCHANGED <<scen, fnRuns, fnOk, inErr, outErr, bound, sr, status, clen, chunks, closed, wclosed, nread>>

Chunk ==        \* one body chunk is enough for the abstraction
  /\ pc = "body" /\ chunks = 0 /\ abort # 0
  /\ chunks' = 1 /\ Emit("io", "chunk")
  /\ UNCHANGED <<scen, pc, fnRuns, fnOk, inErr, outErr, bound, sr, status, clen, handed, closed, wclosed, nread>>

\* the iterator is exhausted, or the server calls close() after `abort` chunks
BodyEnd ==
  /\ pc = "body" /\ (chunks = 1 \/ abort = 0)
  /\ ~(chunks = 1 /\ cfg.chunked /\ inj.ser = "late" /\ outErr = NoFault /\ abort \notin {0, 1})
  /\ pc' = (IF closed = 0 THEN "finalize" ELSE "iterclose")
  /\ UNCHANGED <<scen, ev, fnRuns, fnOk, inErr, outErr, bound, sr, status, clen, handed, chunks, closed, wclosed, nread>>

\* MethodContext.close() fires method_context_closed, then the transport fires
\* wsgi_close.  A raising listener makes the exception escape to the WSGI server
\* (from next() or from close()); the context is nevertheless closed exactly once:
\* the server's later close() must not finalize again.
Finalize ==
  /\ pc = "finalize"
  /\ ev' = ev \o (IF cfg.tr = "wsgi" /\ req.kind = "rpc"
                    THEN (IF inj.fin = "raise_closed"
                            THEN << <<"app", "method_context_closed">>, <<"escape", "Boom">> >>
                          ELSE IF inj.fin = "raise_wsgiclose"
                            THEN << <<"app", "method_context_closed">>, <<"wsgi", "wsgi_close">>, <<"escape", "Boom">> >>
                          ELSE << <<"app", "method_context_closed">>, <<"wsgi", "wsgi_close">> >>)
                    ELSE << <<"app", "method_context_closed">> >>)
  /\ closed' = closed + 1
  /\ wclosed' = wclosed + (IF cfg.tr = "wsgi" /\ req.kind = "rpc" /\ inj.fin # "raise_closed" THEN 1 ELSE 0)
  /\ pc' = IF cfg.tr = "wsgi" THEN "iterclose" ELSE "done"
  /\ UNCHANGED <<scen, fnRuns, fnOk, inErr, outErr, bound, sr, status, clen, handed, chunks, nread>>

IterClose ==
  /\ pc = "iterclose" /\ Emit("io", "iterclose") /\ pc' = "done"
  /\ UNCHANGED <<scen, fnRuns, fnOk, inErr, outErr, bound, sr, status, clen, handed, chunks, closed, wclosed, nread>>

Next == \/ CtxCreate \/ WsgiCall \/ WsdlRespond \/ CallGenFn \/ GenFirst \/ ReadBlock \/ ReadEof \/ ReadDone \/ RefuseTooLong
        \/ GenContextsOk \/ GenContextsFail \/ DeserOk \/ DeserFail
        \/ EvMethodCall \/ CallFn \/ EvRedirect \/ RedirectReturn \/ EvReturnObject \/ EvExceptionObject
        \/ SerializeOk \/ SerializeFail \/ EvReturnDocString \/ HandleError
        \/ NonChunkedJoinCrash \/ StartResponse \/ BaseRespond \/ FinalizeEarly
        \/ HandOver \/ Chunk \/ BodyEnd \/ Finalize \/ IterClose \/ JoinFails \/ BodyFails

Spec == Init /\ [][Next]_vars /\ WF_vars(Next)

\* ----------------------------------------------------------------- properties
\* The clauses themselves live in PipelineProps (parametrised by the history and
\* by what is known about the call), so that the SAME definitions are evaluated
\* by TLC on the model here (M1) and on traces recorded from the real code (M3).
Done == pc = "done"
K == [tr |-> cfg.tr, rpc |-> req.kind = "rpc",
      mayEscape |-> (inj.fin \in {"raise_closed", "raise_wsgiclose"} \/ (inj.ser = "late" /\ cfg.chunked)),
      wcloseExpected |-> inj.fin # "raise_closed", soap |-> cfg.family \in Soap, done |-> Done,
      fault |-> outErr # NoFault, fnOk |-> fnOk, fnRuns |-> fnRuns, redirect |-> (inj.fn = "redirect" /\ fnRuns > 0),
      infault |-> inErr # NoFault,
      malformed |-> (req.kind = "rpc" /\ (req.class # "valid" \/ (Truncated /\ cfg.family # "http"))),
      code |-> outErr, cls |-> ClsOf(outErr),
      status |-> status, statusKnown |-> TRUE,
      maxlen |-> cfg.maxlen, declared |-> Declared, toolong |-> (TooLong /\ req.kind = "rpc"),
      nread |-> nread, aborted |-> abort # NoAbort]

CreatedFirst   == PP!CreatedFirst(ev)
CreatedOnce    == PP!CreatedOnce(ev, K)
ClosedOnce     == PP!ClosedOnce(ev, K)
ClosedLast     == PP!ClosedLast(ev, K)
FnAtMostOnce   == PP!FnAtMostOnce(ev)
FnAfterCall    == PP!FnAfterCall(ev)
RetObjIffRet   == PP!RetObjIffRet(ev, K)
ExcObjIffFault == PP!ExcObjIffFault(ev, K)
DocStrMatch    == PP!DocStrMatch(ev, K)
LevelsFollow   == PP!LevelsFollow(ev)
SrOnce         == PP!SrOnce(ev, K)
CloseAfterBody == PP!CloseAfterBody(ev, K)
WsgiCloseOnce  == PP!WsgiCloseOnce(ev, K)
ReadBound      == PP!ReadBound(ev, K)
TooLongRefused == PP!TooLongRefused(ev, K)
WithinLimitRead == PP!WithinLimitRead(ev, K)
NoFnOnInFault  == PP!NoFnOnInFault(ev, K)
BadReqIsClient == PP!BadReqIsClient(ev, K)
StatusTable    == PP!StatusTable(ev, K)
NoEscape       == PP!NoEscapeK(ev, K)
Terminates     == <>(pc \in {"done", "crashed"})
\* the model's own counters agree with what the history shows (sanity of the model)
CountersAgree  == /\ fnRuns = PP!Count(ev, "fn", "call")
                  /\ closed = PP!Count(ev, "app", "method_context_closed")
                  /\ wclosed = PP!Count(ev, "wsgi", "wsgi_close")
                  /\ sr = PP!CountK(ev, "sr")
=============================================================================
