------------------------- MODULE TracePipelineMon -------------------------
(* M3: the clauses of PipelineProps evaluated by TLC on histories recorded from
   the real code.  One initial state per trace; the verdict of each trace is the
   set of clause names it fails, printed as <<"V", tid, {clauses}>>.          *)
EXTENDS PipelineProps, Json, IOUtils, TLC
CONSTANT Clauses
TraceLog == ndJsonDeserialize(IOEnv.TRACE_FILE)
VARIABLE tid
\* C13 clauses that need the header / byte observations of the recording start_response
HeadersOk(h, k)     == (k.tr = "wsgi" /\ CountK(h, "sr") > 0) => k.hdrOk
ChunksBytes(h, k)   == k.tr = "wsgi" => k.bytesOk
ContentLength(h, k) == (k.tr = "wsgi" /\ k.done /\ k.consumedAll /\ k.clen >= 0) => k.clen = k.bodyBytes

Holds(c, h, k) ==
  CASE c = "CreatedFirst"   -> CreatedFirst(h)
    [] c = "CreatedOnce"    -> CreatedOnce(h, k)
    [] c = "ClosedOnce"     -> ClosedOnce(h, k)
    [] c = "ClosedLast"     -> ClosedLast(h, k)
    [] c = "FnAtMostOnce"   -> FnAtMostOnce(h)
    [] c = "FnAfterCall"    -> FnAfterCall(h)
    [] c = "RetObjIffRet"   -> RetObjIffRet(h, k)
    [] c = "ExcObjIffFault" -> ExcObjIffFault(h, k)
    [] c = "DocStrMatch"    -> DocStrMatch(h, k)
    [] c = "LevelsFollow"   -> LevelsFollow(h)
    [] c = "SvcSubApp"      -> SvcSubApp(h)
    [] c = "NoForeign"      -> NoForeign(h)
    [] c = "BoundLevelsSee" -> BoundLevelsSee(h, k)
    [] c = "SrOnce"         -> SrOnce(h, k)
    [] c = "CloseAfterBody" -> CloseAfterBody(h, k)
    [] c = "WsgiCloseOnce"  -> WsgiCloseOnce(h, k)
    [] c = "ReadBound"      -> ReadBound(h, k)
    [] c = "TooLongRefused" -> TooLongRefused(h, k)
    [] c = "WithinLimitRead" -> WithinLimitRead(h, k)
    [] c = "NoFnOnInFault"  -> NoFnOnInFault(h, k)
    [] c = "BadReqIsClient" -> BadReqIsClient(h, k)
    [] c = "StatusTable"    -> StatusTable(h, k)
    [] c = "NoEscape"       -> NoEscapeK(h, k)
    [] c = "FuzzOutcome"    -> FuzzOutcome(h, k)
    [] c = "HeadersOk"      -> HeadersOk(h, k)
    [] c = "ChunksBytes"    -> ChunksBytes(h, k)
    [] c = "ContentLength"  -> ContentLength(h, k)

Fails(t) == {c \in Clauses : ~Holds(c, TraceLog[t].obs, TraceLog[t].k)}
Init == tid \in 1..Len(TraceLog)
Next == UNCHANGED tid
Report == PrintT(<<"V", tid, Fails(tid)>>)
=============================================================================
