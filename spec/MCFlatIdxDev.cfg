SPECIFICATION Spec
CONSTANT Idx = {0, 1, 2, 10, 11}
CONSTANT Deviations = {"AppendNew"}
INVARIANT OrderInv
CHECK_DEADLOCK FALSE
