------------------------------ MODULE TraceWsdl ------------------------------
(* M3: access traces recorded from real racing ?wsdl requests (one line per
   shared access: thread, access kind, projected state after the access) must be
   behaviours of SpyneWsdlCache.  The kind of access selects the candidate
   actions; the thread's program counter decides which one it is.             *)
EXTENDS SpyneWsdlCache, Json, IOUtils
TraceLog == ndJsonDeserialize(IOEnv.TRACE_FILE)
VARIABLES tid, l
tvars == <<vars, tid, l>>
Ev(i) == TraceLog[tid].ev[i]

ByKind(k, t) ==
  CASE k = "R" -> Peek(t) \/ Read1(t) \/ Read2(t)
    [] k = "W" -> Store1(t) \/ Store2(t)
    [] k = "G" -> GetDoc1(t) \/ GetDoc2(t)
    [] k = "B" -> BuildBegin(t)
    [] k = "E" -> BuildEnd(t) \/ BuildFail(t)
    [] k = "acquire" -> Acquire(t)
    [] k = "release" -> Release(t) \/ ReleaseFail(t)
    [] k = "S" -> Respond(t) \/ RespondFail(t)
    [] OTHER -> FALSE

TInit == Init /\ tid \in 1..Len(TraceLog) /\ l = 1
TNext == /\ l <= Len(TraceLog[tid].ev)
         /\ ByKind(Ev(l).k, Ev(l).t)
         /\ l' = l + 1 /\ UNCHANGED tid
         \* the logged projection of the real objects must match after the step
         /\ (cached' # None) = Ev(l).view[1]
         /\ builds' = Ev(l).view[2]
         /\ lock' = Ev(l).view[3]
TSpec == TInit /\ [][TNext]_tvars
Report == (l = Len(TraceLog[tid].ev) + 1) => PrintT(<<"ACCEPT", tid>>)
Progress == PrintT(<<"AT", tid, l>>)
=============================================================================
