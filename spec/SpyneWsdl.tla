-------------------------------- MODULE SpyneWsdl --------------------------------
(* C07: what the WSDL 1.1 document of an application must contain.

   Applications are built from a pool of method shapes (plain; custom operation / message names;
   SOAP headers from two namespaces; declared faults, one with a namespace of its own; bare and
   out_bare body styles; an argument type from a foreign namespace) spread over one or two
   services, one of which may declare port types.  For every exposed method the document has
   EXACTLY ONE portType operation and one binding operation in the binding of that portType,
   messages whose parts resolve to the schema elements of the method's request / response,
   a wsdl:fault + soap:fault per declared fault and a soap:header per declared header; every
   QName anywhere in the document resolves; the bytes do not depend on the hash seed; and a
   client generated from the document alone calls every method successfully.               *)
EXTENDS Naturals, Sequences, FiniteSets, TLC

M(name, op, inmsg, outmsg, style, inh, outh, faults, pt, kind) ==
  [name |-> name, op |-> op, inmsg |-> inmsg, outmsg |-> outmsg, style |-> style, inh |-> inh, outh |-> outh, faults |-> faults, pt |-> pt, kind |-> kind]
Plain == {
  M("m1", "m1", "m1", "m1Response", "wrapped", <<>>, <<>>, <<>>, "", "int_int"),
  M("m2", "Op2", "Op2", "Op2Out", "wrapped", <<>>, <<>>, <<>>, "", "int_int"),                 \* _operation_name + _out_message_name
  M("m2b", "m2b", "M2bIn", "m2bResponse", "wrapped", <<>>, <<>>, <<>>, "", "int_int"),         \* _in_message_name
  M("m3", "m3", "m3", "m3Response", "wrapped", <<"Session", "Quota">>, <<"Quota">>, <<>>, "", "int_int"),
  M("m3b", "m3b", "m3b", "m3bResponse", "wrapped", <<"Quota">>, <<>>, <<>>, "", "int_int"),
  M("m4", "m4", "m4", "m4Response", "wrapped", <<>>, <<>>, <<"LimitFault", "AuthFault">>, "", "int_int"),
  M("m5", "m5", "m5", "m5Response", "bare", <<>>, <<>>, <<>>, "", "c8_c8"),
  M("m6", "m6", "m6", "m6Response", "out_bare", <<>>, <<>>, <<>>, "", "int_double"),
  M("m7", "m7", "m7", "m7Response", "out_bare", <<>>, <<>>, <<>>, "", "str_bool"),
  M("m8", "m8", "m8", "m8Response", "wrapped", <<>>, <<>>, <<>>, "", "other_other"),
  \* a custom request message name together with TWO response headers (one combined header message per method)
  M("m9", "m9", "M9In", "m9Response", "wrapped", <<"Quota">>, <<"Session", "Quota">>, <<>>, "", "int_int"),
  \* a class tree three levels deep (Shape <- Rect <- Square), the signature names the top class only and the protocols are
  \* polymorphic: every class the server may name in a type marker is a declared type of the document
  M("m10", "m10", "m10", "m10Response", "wrapped", <<>>, <<>>, <<>>, "", "shape_square") }
Ported == { M("p1", "p1", "p1", "p1Response", "wrapped", <<>>, <<>>, <<>>, "PT1", "int_int"),
            M("p2", "p2", "p2", "p2Response", "wrapped", <<>>, <<>>, <<>>, "PT2", "int_int"),
            M("p3", "p3", "p3", "p3Response", "wrapped", <<>>, <<>>, <<"LimitFault">>, "PT1", "int_int") }
HeaderNs(h) == IF h = "Session" THEN "tns" ELSE "urn:hdr"
FaultNs(f)  == IF f = "AuthFault" THEN "urn:flt" ELSE ""
Svc(cls, pts, ms) == [cls |-> cls, pts |-> pts, methods |-> ms]
App(svcs) == [name |-> "Zoo", tns |-> "tns", services |-> svcs]
PlainM(n) == CHOOSE m \in Plain : m.name = n
Small == {S \in SUBSET Plain : Cardinality(S) \in {1, 2}}
Apps == {App(<<Svc("A", <<>>, S)>>) : S \in Small \cup {Plain}}
        \cup {App(<<Svc("P", <<"PT1", "PT2">>, Ported)>>)}
        \cup {App(<<Svc("A", <<>>, S), Svc("P", <<"PT1", "PT2">>, Ported)>>) : S \in {T \in Small : Cardinality(T) = 1}}
        \cup {App(<<Svc("A", <<>>, S), Svc("B", <<>>, Plain \ S)>>) : S \in {T \in SUBSET Plain : Cardinality(T) = 5 /\ M("m1", "m1", "m1", "m1Response", "wrapped", <<>>, <<>>, <<>>, "", "int_int") \in T}}
        \* three services: every place of the service with explicit port types among two without
        \cup {App(o) : o \in {<<Svc("A", <<>>, {PlainM("m1")}), Svc("P", <<"PT1", "PT2">>, Ported), Svc("B", <<>>, {PlainM("m4")})>>,
                               <<Svc("P", <<"PT1", "PT2">>, Ported), Svc("A", <<>>, {PlainM("m1")}), Svc("B", <<>>, {PlainM("m4")})>>,
                               <<Svc("A", <<>>, {PlainM("m1")}), Svc("B", <<>>, {PlainM("m4")}), Svc("P", <<"PT1", "PT2">>, Ported)>>,
                               <<Svc("P", <<"PT1", "PT2">>, Ported), Svc("A", <<>>, {PlainM("m3")})>>}}
\* the thorough tier adds every three-method service
AppsThorough == Apps \cup {App(<<Svc("A", <<>>, S)>>) : S \in {T \in SUBSET Plain : Cardinality(T) = 3}}
MethodsOf(a) == UNION {a.services[k].methods : k \in 1..Len(a.services)}
Set(s) == {s[k] : k \in 1..Len(s)}

\* ---- what the driver extracts from the real document, per method (o) and per document (d):
\*   o = [npt, pts, nbind, bindtypes, inres, inelem, outres, outelem, ptfaults, bindfaults, faultsres, inhparts, outhparts, hdrres]
OpOnce(m, o)       == o.npt = 1 /\ o.nbind = 1 /\ Set(o.bindtypes) = Set(o.pts)
InDeclaredPort(m, o) == m.pt = "" \/ Set(o.pts) = {m.pt}
MessagesMatch(m, o) == o.inres /\ o.outres /\ o.inelem = m.inmsg /\ o.outelem = m.outmsg
FaultsDeclared(m, o) == Set(o.ptfaults) = Set(m.faults) /\ Set(o.bindfaults) = Set(m.faults) /\ o.faultsres
HeadersDeclared(m, o) == Set(o.inhparts) = Set(m.inh) /\ Set(o.outhparts) = Set(m.outh) /\ o.hdrres
ZeepDrives(m, o) == o.zeep = "ok"
MFails(m, o) == (IF OpOnce(m, o) THEN {} ELSE {"OpOnce"}) \cup (IF InDeclaredPort(m, o) THEN {} ELSE {"InDeclaredPort"})
                \cup (IF MessagesMatch(m, o) THEN {} ELSE {"MessagesMatch"}) \cup (IF FaultsDeclared(m, o) THEN {} ELSE {"FaultsDeclared"})
                \cup (IF HeadersDeclared(m, o) THEN {} ELSE {"HeadersDeclared"}) \cup (IF ZeepDrives(m, o) THEN {} ELSE {"ZeepDrives"})
\* (the document of an application is also analysed as the FIRST one built for a freshly constructed application that no schema
\*  validator has touched - unresolved references of that build are reported with the prefix "first-build:" - and its digest joins the list)
\* Serving histories: the document is also fetched after each history in ServeHistories of the objects that serve it (the shared
\* Wsdl11 object of the application, one or two WSGI transports over it); what is served is THE document whatever the history:
\* its unresolved references are reported with the history's name as prefix and its digest joins the list as well.
ServeHistories == {"prebuilt", "prebuilt, again", "second transport", "first transport, after the second", "direct", "direct, after serving",
                   "built twice", "retry after a failed build"}
\*   d = [wellformed, unresolved (sequence of QName references that resolve to nothing), digests (one per hash seed / repetition), nops]
Closed(d) == d.wellformed /\ d.unresolved = <<>>
Deterministic(d) == \A i, j \in 1..Len(d.digests) : d.digests[i] = d.digests[j]
NoStrayOps(a, d) == d.nops = Cardinality(MethodsOf(a))
DFails(a, d) == (IF Closed(d) THEN {} ELSE {"Closed"}) \cup (IF Deterministic(d) THEN {} ELSE {"Deterministic"})
                \cup (IF NoStrayOps(a, d) THEN {} ELSE {"NoStrayOps"})
=============================================================================
