SPECIFICATION Spec
CONSTANT Deviations = {"SharedSettings"}
CONSTANT MaxInst = 3
INVARIANT DefaultEndpointsSafe
CHECK_DEADLOCK FALSE
