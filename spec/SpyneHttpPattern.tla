-------------------------- MODULE SpyneHttpPattern --------------------------
(* HttpBase.match_pattern: the HttpPattern way of naming a method (C11).

   Patterns are tried in the order HttpBase.__init__ fixes (descending by
   (address, host)); a pattern matches when each component it states matches the
   WHOLE verb / host / path; the first match names the endpoint.  When nothing
   matches, HttpRpc falls back to the last path segment as the method name.

   Paths and address templates are sequences of segments; "<x>" is a placeholder
   that matches one segment (possibly empty), never a slash.                  *)
EXTENDS Naturals, Sequences, FiniteSets, TLC
NoneV == "-"
P(addr, verb, host, ep) == [addr |-> addr, verb |-> verb, host |-> host, ep |-> ep]
\* the application's patterns, in match order (descending address, then host)
\* literal segments are tried before a placeholder in the same position ("puts the more
\* specific addresses to the front"): /a/list before /a/<x>
\* m7: a pattern WITHOUT an address gets the published name of its method - "find", the custom request message name,
\* not the Python function's name "lookup" (which names nothing: GET /lookup is not found)
\* m8: a BARE method over a class (its request message is the class, in the class' namespace); m9: a method published under a
\* name in ANOTHER namespace ("{urn:other}look"): a pattern names its method, whatever the message of the method is called
\* m10 / m11: the literal text of an address is TEXT, not a regular expression: "/get.user" is not "/getXuser", and "/a+b/1" is
\* neither "/aab/1" nor "/ab/1" (SegMatch is equality)
\* m12: a placeholder in the MIDDLE of an address, written in the other spelling the class accepts ("/item/{x}/rev"): one
\* segment, never a slash, and the literal segments around it still have to be there
Patterns == << P(<<"people", "<x>">>, NoneV, NoneV, "m8"),
               P(<<"lookup", "<x>">>, NoneV, NoneV, "m9"),
               P(<<"item", "<x>", "rev">>, NoneV, NoneV, "m12"),
               P(<<"get.user">>, NoneV, NoneV, "m10"),
               P(<<"find">>, "GET", NoneV, "m7"),
               P(<<"b">>, NoneV, NoneV, "m3"),
               P(<<"a", "list">>, NoneV, NoneV, "m6"),
               P(<<"a", "<x>">>, NoneV, NoneV, "m2"),
               P(<<"a+b", "<x>">>, NoneV, NoneV, "m11"),
               P(<<"a">>, "GET", NoneV, "m1"),
               P(<<"a">>, "DELETE", NoneV, "m4") >>
Endpoints == {"m1", "m2", "m3", "m4", "m5", "m6", "m7", "m8", "m9", "m10", "m11", "m12"}     \* m5 has no pattern; m7 is only reachable through its pattern
Verbs == {"GET", "DELETE", "HEAD"}
Hosts == {"a.example", "b.example"}   \* host PATTERNS cannot be constructed on Python 3 (str/bytes mix in HttpPattern.__init__): only the request host varies
Paths == {<<"a">>, <<"a", "1">>, <<"a", "1", "2">>, <<"a", "">>, <<"b">>, <<"ab">>, <<"A">>,
          <<"a", "list">>, <<"a", "list", "x">>, <<"x", "m5">>, <<"m5">>, <<"m1">>, <<"x", "m2">>, <<"zz">>, <<"a", "m5">>,
          <<"find">>, <<"lookup">>, <<"x", "find">>, <<"people", "joe">>, <<"lookup", "k1">>, <<"people">>, <<"x", "look">>, <<"x", "m9">>,
          <<"get.user">>, <<"getXuser">>, <<"get", "user">>, <<"a+b", "1">>, <<"aab", "1">>, <<"ab", "1">>, <<"a+b">>, <<"a b", "1">>,
          <<"item", "7", "rev">>, <<"item", "7">>, <<"item", "7", "rev", "x">>, <<"item", "7", "8", "rev">>, <<"item", "", "rev">>, <<"item", "rev">>}

SegMatch(p, s)  == p = "<x>" \/ p = s
AddrMatch(a, p) == Len(a) = Len(p) /\ \A i \in 1..Len(a) : SegMatch(a[i], p[i])
Matches(pt, v, h, p) == /\ (pt.verb = NoneV \/ pt.verb = v)
                        /\ (pt.host = NoneV \/ pt.host = h)
                        /\ AddrMatch(pt.addr, p)
FirstMatch(v, h, p) == LET I == {i \in 1..Len(Patterns) : Matches(Patterns[i], v, h, p)}
                       IN IF I = {} THEN 0 ELSE CHOOSE i \in I : \A j \in I : i <= j
\* the method a request names: the first matching pattern's endpoint, else the last segment
Route(v, h, p) == IF FirstMatch(v, h, p) # 0 THEN Patterns[FirstMatch(v, h, p)].ep
                  ELSE IF p[Len(p)] \in Endpoints \ {"m7", "m9"} THEN p[Len(p)]
                  ELSE IF p[Len(p)] = "find" THEN "m7"          \* the fallback uses the published name as well
                  ELSE IF p[Len(p)] = "look" THEN "m9"
                  ELSE "notfound"
Requests == Verbs \X Hosts \X Paths

\* ---- WsgiMounter: applications mounted under a first path fragment; the fragment names its application EXACTLY, in whatever
\* order the mounts were listed
Mounts == {"v1", "v10", "beta"}
MountFragments == {"v1", "v10", "beta", "v1x", "v100", "betamax", "v", "V1", "bet"}
MountRoute(f) == IF f \in Mounts THEN f ELSE "notfound"
\* sanity of the table: two patterns match one request only as literal-versus-placeholder,
\* and then the literal one comes first
Unambiguous == \A r \in Requests :
   \A i, j \in 1..Len(Patterns) :
      (i < j /\ Matches(Patterns[i], r[1], r[2], r[3]) /\ Matches(Patterns[j], r[1], r[2], r[3])
         /\ Patterns[i].ep # Patterns[j].ep)
          => \E k \in 1..Len(Patterns[i].addr) : Patterns[i].addr[k] # "<x>" /\ Patterns[j].addr[k] = "<x>"
=============================================================================
