SPECIFICATION Spec
CONSTANT Deviations = {}
CONSTANT MaxServices = 3
INVARIANT BuildCorrect
INVARIANT NeverCrashes
INVARIANT OrderFree
INVARIANT PrimaryFirst
PROPERTY Terminates
CHECK_DEADLOCK FALSE
