---- MODULE ExportSignatures ----
EXTENDS SpyneSignatures, Json, IOUtils, SequencesExt
ASSUME JsonSerialize(IOEnv.OUT_FILE, SetToSeq(IF IOEnv.FAMILY = "any" THEN AnyCases ELSE Cases))
VARIABLE x
Init == x = 0
Next == UNCHANGED x
====
