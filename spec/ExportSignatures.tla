---- MODULE ExportSignatures ----
EXTENDS SpyneSignatures, Json, IOUtils, SequencesExt
ASSUME JsonSerialize(IOEnv.OUT_FILE, SetToSeq(Cases))
VARIABLE x
Init == x = 0
Next == UNCHANGED x
====
