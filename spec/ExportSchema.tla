---- MODULE ExportSchema ----
EXTENDS SpyneSchema, Json, IOUtils, SequencesExt
ASSUME FieldsAgree
ASSUME JsonSerialize(IOEnv.OUT_FILE, SetToSeq({[u |-> w, reach |-> SetToSeq(Reach(w)), fields |-> [n \in Reach(w) |-> FieldSpec(w, n)],
                                                base |-> [n \in Reach(w) |-> Base(w, n)], nsof |-> [n \in Reach(w) |-> NsOf(w, n)]] : w \in Universes}))
Init0 == u = (CHOOSE w \in Universes : TRUE) /\ stack = <<>> /\ reg = {} /\ imports = [ns \in Ns |-> {}]
Next0 == UNCHANGED vars
====
