SPECIFICATION Spec
CONSTANT MaxOps = 2
INVARIANT ParentsFirst
PROPERTY Frame
PROPERTY DerivesOne
PROPERTY Requested
CHECK_DEADLOCK FALSE
