---- MODULE TraceNull ----
EXTENDS SpyneNull, Json, IOUtils
TraceLog == ndJsonDeserialize(IOEnv.TRACE_FILE)
VARIABLE tid
\* JSON turns the function 1..n -> Modes into an array; rebuild the case
CaseOf(t) == [style |-> TraceLog[t].case.style, ret |-> TraceLog[t].case.ret, modes |-> TraceLog[t].case.modes, rename |-> TraceLog[t].case.rename, dflt |-> TraceLog[t].case.dflt, aux |-> TraceLog[t].case.aux, narrow |-> TraceLog[t].case.narrow, ostr |-> TraceLog[t].case.ostr]
Fails(t) == IF "history" \in DOMAIN TraceLog[t] THEN HistoryFails(TraceLog[t].history, TraceLog[t].obs)
            ELSE {n \in ClauseNames : ~Holds(n, CaseOf(t), TraceLog[t].obs)}
Init == tid \in 1..Len(TraceLog)
Next == UNCHANGED tid
Report == PrintT(<<"V", tid, Fails(tid)>>)
====
