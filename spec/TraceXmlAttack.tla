---- MODULE TraceXmlAttack ----
(* C17: Fails(attack, observation) for every attack sent to a default-configured endpoint; and for the
   scripts of part 1: the request was parsed with the settings of ITS instance (succeeds = Resolves(own)) *)
EXTENDS SpyneXmlAttack, Json, IOUtils
TraceLog == ndJsonDeserialize(IOEnv.TRACE_FILE)
VARIABLE tid
R(t) == TraceLog[t]
Own(t) == IF R(t).s.creates[R(t).s.serve.inst] THEN Relaxed ELSE Default
ScriptFails(t) == IF R(t).obs.succeeded = Resolves(Own(t), R(t).s.serve.kind) THEN {}
                  ELSE {IF R(t).obs.succeeded THEN "ForeignSettingsApplied" ELSE "OwnSettingsNotApplied"}
Verdict(t) == IF R(t).what = "attack" THEN Fails(R(t).a, R(t).obs) ELSE ScriptFails(t)
Init1 == tid \in 1..Len(TraceLog) /\ insts = <<>> /\ shared = Default /\ served = {}
Next1 == UNCHANGED <<tid, insts, shared, served>>
Report == PrintT(<<"V", tid, Verdict(tid)>>)
====
