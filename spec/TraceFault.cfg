INIT Init
NEXT Next
CONSTRAINT Report
CHECK_DEADLOCK FALSE
