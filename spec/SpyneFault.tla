------------------------------ MODULE SpyneFault ------------------------------
(* C09: what a client must see when user code raises.

   The case family (which fault objects / exceptions, raised under which output
   protocol family) is defined HERE and exported by TLC; the driver raises the
   real object from a real user function, parses the response with the family's
   tree reader, projects it to an observation record, and TLC evaluates the
   clauses below on (case, observation).

   Text that TLC cannot hold conveniently (Unicode messages, non-ASCII code
   segments) is referred to by identifier; harness/pool.py maps identifiers to
   concrete strings and back by exact match ("?" when nothing matches).        *)
EXTENDS Naturals, Sequences, FiniteSets, TLC
LOCAL PP == INSTANCE PipelineProps

\* json_list: JsonDocument(complex_as=list) - objects, the fault included, travel as positional lists
OutFams  == {"xml", "soap11", "soap12", "json", "yaml", "msgpack", "mprpc", "http", "json_list"}
Soap     == {"soap11", "soap12"}
First    == {"Client", "Server", "X", "Clientele"}     \* ("Clientele...": begins like Client, is not the Client family)
\* ("cc": a code segment with a control character in it - what was said of such characters in messages holds for codes)
Subs     == {<<>>, <<"A">>, <<"b", "uu">>, <<"Q", "R", "S">>, <<"cc">>}
\* ctl: control characters (what XML 1.0 cannot carry at all): the fault arrives all the same - over the XML family with U+FFFD in
\* their place ("same_repl" in an observation), over the others unchanged
Msgs     == {"plain", "uni", "markup", "spaces", "long", "ctl"}
Details  == {"none", "flat", "nested", "multi", "unikey", "falsy"}     \* falsy: leaves 0 and False
Excs     == {"ValueError", "KeyError", "Hostile", "Chained", "SecretType", "BaseFaultLike"}
Methods  == {"f", "g", "gen"}       \* gen: a generator function that raises before its first yield

\* detail trees: <<"map", <<k1, v1>>, ...>> sorted by key, leaves <<"s", <<text id>>>>
Leaf(t)  == <<"s", <<t>>>>
DetailTree(d) ==
  CASE d = "none"   -> <<"none", <<>>>>
    [] d = "flat"   -> <<"map", << <<"n", Leaf("x")>> >> >>
    [] d = "nested" -> <<"map", << <<"k", <<"map", << <<"j", Leaf("v")>> >> >> >> >> >>
    [] d = "multi"  -> <<"map", << <<"k", <<"map", << <<"j", Leaf("v")>> >> >> >>, <<"n", Leaf("x")>> >> >>
    [] d = "unikey" -> <<"map", << <<"n", Leaf("uni")>> >> >>
    [] d = "falsy"  -> <<"map", << <<"k", <<"map", << <<"j", Leaf("false")>> >> >> >>, <<"n", Leaf("zero")>> >> >>

Dedicated == { [cls |-> "toolong",    code |-> <<"Client", "RequestTooLong">>],
               [cls |-> "notfound",   code |-> <<"Client", "ResourceNotFound">>],
               [cls |-> "notallowed", code |-> <<"Client", "RequestNotAllowed">>],
               [cls |-> "auth",       code |-> <<"Client", "InvalidCredentialsError">>],
               \* the fault of the schema validator (spyne.protocol.xml.SchemaValidationError): the XML family has a writer of its own for it
               [cls |-> "schemaval",  code |-> <<"Client", "SchemaValidationError">>] }

Faults ==
  \* plain Fault objects and generated subclasses with an arbitrary dotted code
  { [kind |-> "fault", cls |-> c, code |-> <<a>> \o s, msg |-> m, detail |-> d, sub |-> FALSE] :
      c \in {"fault", "subclass"}, a \in First, s \in Subs, m \in Msgs, d \in Details }
  \cup
  \* the dedicated error classes (fixed code; message chosen by the class or the caller)
  \* sub: the raised object is an instance of a proper SUBCLASS of the dedicated error class
  { [kind |-> "fault", cls |-> x.cls, code |-> x.code, msg |-> "class", detail |-> "none", sub |-> b] :
      x \in Dedicated, b \in BOOLEAN }
  \cup
  \* a subclass of a dedicated error class that names a fault code of its OWN (class TokenExpired(InvalidCredentialsError):
  \* CODE = 'Client.TokenExpired'; spyne.util.django.ObjectNotFoundError is one of these): the client sees the subclass' code,
  \* the status line is still the one of the dedicated class it IS - the table is about classes, not about code strings
  { [kind |-> "fault", cls |-> x.cls, code |-> <<"Client", "OwnCode">>, msg |-> "class", detail |-> "none", sub |-> TRUE] :
      x \in {y \in Dedicated : y.cls # "schemaval"} }
  \cup
  { [kind |-> "exc", cls |-> e, code |-> <<>>, msg |-> "secret", detail |-> "none", sub |-> FALSE] : e \in Excs }

\* pairwise rather than the full product: vary (code x msg) with detail fixed, and
\* (code x detail) with msg fixed
Pairwise(f) == f.kind # "fault" \/ f.cls \notin {"fault", "subclass"}
               \/ f.msg = "plain" \/ f.detail = "none"

\* where the object is raised:
\*   fn       in the user function
\*   retlis   in a listener of the service's method_return_object event (user code that runs after the function returned)
\*   sw_json / sw_soap11   in the user function, AFTER it has chosen another output protocol for this request
\*            (ctx.out_protocol = ...): the fault travels in the protocol of THIS request, status line included
\*   swap     in the user function; a method_exception_object listener then REPLACES the fault (ctx.out_error) by
\*            Client.Swapped: the client sees the listener's fault, body and status line alike
Wheres == {"fn", "retlis", "sw_json", "sw_soap11", "swap"}
EffFam(c) == CASE c.where = "sw_json" -> "json" [] c.where = "sw_soap11" -> "soap11" [] OTHER -> c.fam
Cases == { c \in [fam : OutFams, meth : Methods, f : {f \in Faults : Pairwise(f)}, where : Wheres] :
             \* the SOAP 1.2 fault vocabulary is closed (property-stated exclusion)
             /\ (c.fam = "soap12" /\ c.f.kind = "fault" => c.f.code[1] \in {"Client", "Server"})
             /\ (c.meth \in {"g", "gen"} => (c.f.msg \in {"plain", "secret", "class"} /\ c.f.detail \in {"none", "multi"}))
             /\ (c.where \notin {"fn", "swap"} => c.meth = "f")
             /\ (c.where # "fn" => c.f.msg \in {"plain", "secret", "class"} /\ c.f.detail \in {"none", "flat"})
             /\ (c.where = "swap" => c.meth \in {"f", "gen"} /\ (c.f.kind = "exc" \/ c.f.code[1] = "Server") /\ c.f.detail = "none")
             /\ (c.where # "fn" /\ EffFam(c) = "http" => c.f.detail = "none")      \* (the plain-text form has no place for a detail: recorded finding)
             /\ (c.where = "sw_json" => c.fam \in Soap \cup {"xml"})
             /\ (c.where = "sw_soap11" => c.fam \in {"json", "http", "xml", "msgpack"}) }

\* the thorough tier: the full product fault x family x method x where (no pairwise reduction, every message and detail
\* from every method shape and raising site)
CasesThorough == { c \in [fam : OutFams, meth : Methods, f : Faults, where : Wheres] :
             /\ (c.fam = "soap12" /\ c.f.kind = "fault" => c.f.code[1] \in {"Client", "Server"})
             /\ (c.where \notin {"fn", "swap"} => c.meth = "f")
             /\ (c.where = "swap" => (c.f.kind = "exc" \/ c.f.code[1] = "Server") /\ c.f.detail = "none")
             /\ (c.where # "fn" /\ EffFam(c) = "http" => c.f.detail = "none")
             /\ (c.where = "sw_json" => c.fam \in Soap \cup {"xml"})
             /\ (c.where = "sw_soap11" => c.fam \in {"json", "http", "xml", "msgpack"}) }

\* ------------------------------------------------------------------ expected
Expected(c) ==
  IF c.where = "swap"
    THEN [code |-> <<"Client", "Swapped">>, msg |-> "swapped", detail |-> DetailTree("none"),
          status |-> PP!Status(EffFam(c) \in Soap, "fault", <<"Client", "Swapped">>)]
  ELSE IF c.f.kind = "exc"
    THEN [code |-> <<"Server">>, msg |-> "InternalError", detail |-> DetailTree("none"),
          status |-> 500]
    ELSE [code |-> c.f.code, msg |-> c.f.msg, detail |-> DetailTree(c.f.detail),
          status |-> PP!Status(EffFam(c) \in Soap, c.f.cls, c.f.code)]

\* ------------------------------------------------------------------- clauses
Answered(c, o)   == o.escape = "none"
SameCode(c, o)   == Answered(c, o) => o.code = Expected(c).code
SameMsg(c, o)    == Answered(c, o) => o.msg = Expected(c).msg
SameDetail(c, o) == Answered(c, o) => o.detail = Expected(c).detail
NoReturn(c, o)   == Answered(c, o) => ~o.hasret
StatusOk(c, o)   == Answered(c, o) => o.status = Expected(c).status
NoLeak(c, o)     == ~o.leak
ClauseNames == {"Answered", "SameCode", "SameMsg", "SameDetail", "NoReturn", "StatusOk", "NoLeak"}
Holds(n, c, o) == CASE n = "Answered" -> Answered(c, o) [] n = "SameCode" -> SameCode(c, o)
                    [] n = "SameMsg" -> SameMsg(c, o) [] n = "SameDetail" -> SameDetail(c, o)
                    [] n = "NoReturn" -> NoReturn(c, o) [] n = "StatusOk" -> StatusOk(c, o)
                    [] n = "NoLeak" -> NoLeak(c, o)

\* sanity of the table itself (checked by TLC as ASSUME in the export run)
TableSane ==
  /\ \A c \in Cases : Expected(c).status \in {400, 401, 404, 405, 413, 500}
  /\ \A c \in Cases : EffFam(c) \in Soap => Expected(c).status = 500
  /\ \E c \in Cases : c.fam \in Soap /\ Expected(c).status = 400
  /\ \A c \in Cases : (c.f.kind = "exc" /\ c.where # "swap") => Expected(c).code = <<"Server">>
  /\ \E c \in Cases : c.where = "swap" /\ c.meth = "gen" /\ Expected(c).status = 400
  /\ \E c \in Cases : Expected(c).status = 413
  /\ \E c \in Cases : Expected(c).status = 400 /\ Len(c.f.code) = 4
=============================================================================
