---- MODULE ExportPipeline ----
(* M2: writes the scenario family of SpynePipeline for the replay driver. *)
EXTENDS SpynePipeline, Json, IOUtils, SequencesExt
ASSUME JsonSerialize(IOEnv.OUT_FILE, SetToSeq(Scenarios))
Stop == pc = "none"
====
