----------------------------- MODULE SpyneShared -----------------------------
(* Shared cells that request threads write at request time.

   (1) The lazy namespace-prefix allocator, Interface.get_namespace_prefix, one
       action per shared access (line numbers of interface/_base.py):

         if not (ns in self.prefmap):             Test      (unlocked fast path)
             with lock:                           Lock
               if not (ns in self.prefmap):       ReTest
                 pref = "s%d" % self.__ns_counter ReadCtr
                 while pref in self.nsmap: ...    Probe   (bump while taken)
                 self.prefmap[ns] = pref          SetPref
                 self.nsmap[pref] = ns            SetNs
                 self.__ns_counter += 1           Bump
                                                  Unlock
         return self.prefmap[ns]                  Hit
       Deviation UnlockedAlloc = the pinned code: no Lock/ReTest/Unlock.

   (2) Idempotent caches (memoize, _attrcache, cdict): Miss / Compute / Fill as
       three steps; whatever thread fills, it writes F(key).

   C12: every caller gets the response it would get alone => distinct namespaces
   never share a prefix, the two maps stay mutually inverse, cache cells only
   ever hold F(key).                                                          *)
EXTENDS Naturals, FiniteSets, TLC
CONSTANTS Threads, SameNs, Deviations
Dev(d) == d \in Deviations
NoPref == 99
NsOf(t) == IF SameNs THEN "ns.p" ELSE (IF t = 1 THEN "ns.p" ELSE IF t = 2 THEN "ns.q" ELSE "ns.p")
Namespaces == {NsOf(t) : t \in Threads}
Key(t) == IF t = 1 THEN "k1" ELSE "k2"      \* threads 2.. share a cache key
Keys == {Key(t) : t \in Threads}
F(k) == <<"F", k>>
NoVal == <<"none", "">>

VARIABLES pc, loc, prefmap, nsmap, ctr, lock, cache, tmp
vars == <<pc, loc, prefmap, nsmap, ctr, lock, cache, tmp>>

Init == /\ pc = [t \in Threads |-> "miss"] /\ loc = [t \in Threads |-> NoPref]
        /\ prefmap = [n \in Namespaces |-> NoPref] /\ nsmap = [p \in 0..4 |-> "free"]
        /\ ctr = 0 /\ lock = 0 /\ cache = [k \in Keys |-> NoVal] /\ tmp = [t \in Threads |-> NoVal]

Go(t, a, b) == pc[t] = a /\ pc' = [pc EXCEPT ![t] = b]

\* ---- idempotent cache fill
Miss(t)    == /\ Go(t, "miss", IF cache[Key(t)] = NoVal THEN "compute" ELSE "test")
              /\ UNCHANGED <<loc, prefmap, nsmap, ctr, lock, cache, tmp>>
Compute(t) == /\ Go(t, "compute", "fill") /\ tmp' = [tmp EXCEPT ![t] = F(Key(t))]
              /\ UNCHANGED <<loc, prefmap, nsmap, ctr, lock, cache>>
Fill(t)    == /\ Go(t, "fill", "test") /\ cache' = [cache EXCEPT ![Key(t)] = tmp[t]]
              /\ UNCHANGED <<loc, prefmap, nsmap, ctr, lock, tmp>>

\* ---- prefix allocator
Test(t)    == /\ Go(t, "test", IF prefmap[NsOf(t)] # NoPref THEN "hit"
                               ELSE IF Dev("UnlockedAlloc") THEN "readctr" ELSE "lock")
              /\ UNCHANGED <<loc, prefmap, nsmap, ctr, lock, cache, tmp>>
Lock(t)    == /\ lock = 0 /\ Go(t, "lock", "retest") /\ lock' = t
              /\ UNCHANGED <<loc, prefmap, nsmap, ctr, cache, tmp>>
ReTest(t)  == /\ Go(t, "retest", IF prefmap[NsOf(t)] # NoPref THEN "unlock" ELSE "readctr")
              /\ UNCHANGED <<loc, prefmap, nsmap, ctr, lock, cache, tmp>>
ReadCtr(t) == /\ Go(t, "readctr", "probe") /\ loc' = [loc EXCEPT ![t] = ctr]
              /\ UNCHANGED <<prefmap, nsmap, ctr, lock, cache, tmp>>
Probe(t)   == /\ pc[t] = "probe"
              /\ IF nsmap[loc[t]] # "free"
                   THEN /\ ctr' = ctr + 1 /\ loc' = [loc EXCEPT ![t] = ctr + 1] /\ UNCHANGED pc
                   ELSE /\ pc' = [pc EXCEPT ![t] = "setpref"] /\ UNCHANGED <<ctr, loc>>
              /\ UNCHANGED <<prefmap, nsmap, lock, cache, tmp>>
SetPref(t) == /\ Go(t, "setpref", "setns") /\ prefmap' = [prefmap EXCEPT ![NsOf(t)] = loc[t]]
              /\ UNCHANGED <<loc, nsmap, ctr, lock, cache, tmp>>
SetNs(t)   == /\ Go(t, "setns", "bump") /\ nsmap' = [nsmap EXCEPT ![loc[t]] = NsOf(t)]
              /\ UNCHANGED <<loc, prefmap, ctr, lock, cache, tmp>>
Bump(t)    == /\ Go(t, "bump", IF Dev("UnlockedAlloc") THEN "hit" ELSE "unlock") /\ ctr' = ctr + 1
              /\ UNCHANGED <<loc, prefmap, nsmap, lock, cache, tmp>>
Unlock(t)  == /\ Go(t, "unlock", "hit") /\ lock' = 0
              /\ UNCHANGED <<loc, prefmap, nsmap, ctr, cache, tmp>>
Hit(t)     == /\ Go(t, "hit", "done") /\ loc' = [loc EXCEPT ![t] = prefmap[NsOf(t)]]
              /\ UNCHANGED <<prefmap, nsmap, ctr, lock, cache, tmp>>

Step(t) == Miss(t) \/ Compute(t) \/ Fill(t) \/ Test(t) \/ Lock(t) \/ ReTest(t) \/ ReadCtr(t)
           \/ Probe(t) \/ SetPref(t) \/ SetNs(t) \/ Bump(t) \/ Unlock(t) \/ Hit(t)
Next == \E t \in Threads : Step(t)
Spec == Init /\ [][Next]_vars /\ \A t \in Threads : WF_vars(Step(t))

AllDone   == \A t \in Threads : pc[t] = "done"
Injective == \A a, b \in Namespaces : (a # b /\ prefmap[a] # NoPref) => prefmap[a] # prefmap[b]
Inverse   == AllDone => \A n \in Namespaces : prefmap[n] # NoPref /\ nsmap[prefmap[n]] = n
FillSound == \A k \in Keys : cache[k] \in {NoVal, F(k)}
MutexOk   == lock # 0 => pc[lock] \in {"retest", "readctr", "probe", "setpref", "setns", "bump", "unlock"}
AllFinish == <>AllDone
=============================================================================
