---- MODULE ExportFault ----
EXTENDS SpyneFault, Json, IOUtils, SequencesExt
ASSUME TableSane
ASSUME JsonSerialize(IOEnv.OUT_FILE, SetToSeq(IF IOEnv.FAMILY = "thorough" THEN CasesThorough ELSE Cases))
VARIABLE x
Init == x = 0
Next == UNCHANGED x
====
