---- MODULE ExportFault ----
EXTENDS SpyneFault, Json, IOUtils, SequencesExt
ASSUME TableSane
ASSUME JsonSerialize(IOEnv.OUT_FILE, SetToSeq(Cases))
VARIABLE x
Init == x = 0
Next == UNCHANGED x
====
