---- MODULE ExportMutate ----
EXTENDS SpyneMutate, Json, IOUtils, SequencesExt
ClassRec(q) == [ns |-> q[1], name |-> q[2], fields |-> FieldsOf(q[1], q[2]), family |-> SetToSeq(Family(q[1], q[2]))]
ASSUME JsonSerialize(IOEnv.OUT_FILE, [args |-> Args, classes |-> SetToSeq({ClassRec(q) : q \in Classes}),
                                       positions |-> SetToSeq(Positions), mutants |-> SetToSeq(Mutants)])
VARIABLE x
Init == x = 0
Next == UNCHANGED x
====
