------------------------------- MODULE TraceXml -------------------------------
(* M3/M4: each record is one real exchange for one case of SpyneSignatures:
     req    tokens of the request the (independent) encoder sent
     args   what the user function received (one value per declared argument), ncalls
     resp   tokens of the response Spyne produced for the value the function returned
     dec    values decoded from that response by the loopback Spyne client / zeep (optional)
   TLC computes the expected token sequences with SpyneXmlDoc and compares.     *)
EXTENDS SpyneXmlDoc, Json, IOUtils
TraceLog == ndJsonDeserialize(IOEnv.TRACE_FILE)
VARIABLE tid
R(t) == TraceLog[t]
C(t) == R(t).c
ExpReq(t)  == Wrap(R(t).fam, ReqHdr(C(t)), Request(C(t)))
ExpResp(t) == Wrap(R(t).fam, RespHdr(C(t)), Response(C(t)))
ReqIsSpec(t)  == SameDoc(R(t).obs.req, ExpReq(t))
\* with polymorphism disabled only the declared classes travel
Sent(c, k, v) == IF c.poly THEN v ELSE Proj(c.args[k].t, v)
Back(c, k, v) == IF c.poly THEN v ELSE Proj(c.rets[k], v)
Delivered(t)  == R(t).obs.ncalls = 1 /\ NormArgs(C(t), R(t).obs.args) = NormArgs(C(t), [k \in 1..Len(C(t).vals) |-> Sent(C(t), k, C(t).vals[k])])
RespIsSpec(t) == SameDoc(R(t).obs.resp, ExpResp(t))
\* request headers reach user code (ctx.in_header), one value per declared header
HeadersDelivered(t) == "inh" \notin DOMAIN R(t).obs \/
    [k \in 1..Len(C(t).inh) |-> Norm(C(t).inh[k], R(t).obs.inh[k])] = [k \in 1..Len(C(t).inh) |-> Norm(C(t).inh[k], C(t).inhvals[k])]
RetNorm(c, vs) == [k \in 1..Len(c.rets) |-> Norm(c.rets[k], vs[k])]
\* a reader that maps an EMPTY element to "nothing" (zeep) cannot tell an object without members from nil
RECURSIVE Hollow(_)
Hollow(v) == v = Nil \/ (v[1] = "obj" /\ \A k \in 1..Len(v[3]) : Hollow(v[3][k])) \/ (v[1] = "seq" /\ v[2] = <<>>)
RECURSIVE Loose(_)
Loose(v) == IF Hollow(v) THEN Nil
            ELSE IF v[1] = "obj" THEN <<"obj", v[2], [k \in 1..Len(v[3]) |-> Loose(v[3][k])]>>
            ELSE IF v[1] = "seq" THEN <<"seq", [k \in 1..Len(v[2]) |-> Loose(v[2][k])]>> ELSE v
LooseRets(c, vs) == [k \in 1..Len(c.rets) |-> Loose(Norm(c.rets[k], vs[k]))]
Decoded(t, who) == who \notin DOMAIN R(t).obs \/
     (IF who = "zeep" THEN LooseRets(C(t), R(t).obs[who]) = LooseRets(C(t), C(t).rvals)
      ELSE RetNorm(C(t), R(t).obs[who]) = RetNorm(C(t), [k \in 1..Len(C(t).rets) |-> Back(C(t), k, C(t).rvals[k])]))
ZeepDelivered(t) == "zeepargs" \notin DOMAIN R(t).obs \/
     [k \in 1..Len(C(t).args) |-> Loose(NormArgs(C(t), R(t).obs.zeepargs)[k])] = [k \in 1..Len(C(t).args) |-> Loose(NormArgs(C(t), C(t).vals)[k])]
Fails(t) == (IF ReqIsSpec(t) THEN {} ELSE {"ReqIsSpec"}) \cup (IF Delivered(t) THEN {} ELSE {"Delivered"})
            \cup (IF RespIsSpec(t) THEN {} ELSE {"RespIsSpec"})
            \cup (IF HeadersDelivered(t) THEN {} ELSE {"HeadersDelivered"})
            \cup (IF Decoded(t, "client") THEN {} ELSE {"ClientDecodes"}) \cup (IF Decoded(t, "zeep") THEN {} ELSE {"ZeepDecodes"})
            \cup (IF ZeepDelivered(t) THEN {} ELSE {"ZeepRequestDelivered"})
Where(t) == IF ~RespIsSpec(t) THEN <<"resp", LCP(ExpResp(t), R(t).obs.resp) + 1,
                                    IF LCP(ExpResp(t), R(t).obs.resp) < Len(ExpResp(t)) THEN ExpResp(t)[LCP(ExpResp(t), R(t).obs.resp) + 1] ELSE <<"END">>>>
            ELSE IF ~ReqIsSpec(t) THEN <<"req", LCP(ExpReq(t), R(t).obs.req) + 1,
                                    IF LCP(ExpReq(t), R(t).obs.req) < Len(ExpReq(t)) THEN ExpReq(t)[LCP(ExpReq(t), R(t).obs.req) + 1] ELSE <<"END">>>>
            ELSE <<"-", 0, <<>>>>
Init == tid \in 1..Len(TraceLog)
Next == UNCHANGED tid
Report == PrintT(<<"V", tid, Fails(tid), Where(tid)>>)
=============================================================================
