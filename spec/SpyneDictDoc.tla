------------------------------ MODULE SpyneDictDoc ------------------------------
(* The conventions of the hierarchical dict documents - JsonDocument, YamlDocument,
   MessagePackDocument, MessagePackRpc - as an encoder from (type, value) to an abstract
   document tree (C02, C16, C04).

   Trees:   <<"null">> | <<"num", text>> | <<"str", text>> | <<"bool", text>> | <<"bin", base64 text>>
            | <<"map", << <<key, tree>>, ... >>>>  (compared as a set of pairs) | <<"list", <<tree, ...>>>>
   Types and values are those of SpyneXmlDoc.

   Configuration cfg = [fam, iw (ignore_wrappers), ca (complex_as: "dict" | "list"), poly]:
     * the request is a map with the method name as its single key (MessagePackRpc: the list
       [0, msgid, method, params]); the arguments are a map by name or a positional list
     * objects are maps of their flat fields (ancestors first), a member without a value is
       left out unless it is mandatory (then null); with complex_as = list an object is the
       positional list of all its flat fields, null where there is no value
     * with ignore_wrappers = FALSE every object is wrapped in a single-key map naming its
       class - the runtime class when the protocol is polymorphic - and so are the messages
     * with ignore_wrappers = TRUE a single return value is the whole response document
     * a member declared exc=True is outside the documents altogether: never written (by name or by position: the positional list
       is the list of the OTHER members), never read - user code gets nothing for it, whatever it returns there stays at home
     * numbers are numbers, booleans booleans; decimals, dates, uuids travel as strings;
       bytes as base64 text (MessagePack: bin); integers outside [-2^63, 2^64) travel as
       decimal text in MessagePack (its integer range ends there)                         *)
EXTENDS SpyneXmlDoc

Null == <<"null">>
IntTypes == {"Integer", "Integer8", "Integer16", "Integer32", "Integer64", "UnsignedInteger16", "UnsignedInteger8", "UnsignedInteger32", "UnsignedInteger64"}
Packed == {"msgpack", "msgpackrpc"}
\* the literals of the value pools that lie outside [-2^63, 2^64) (TLC integers are 32 bit: a table)
HugeInts == {"18446744073709551616", "-9223372036854775809", "-18446744073709551615", "-123456789012345678901234567890", "123456789012345678901234567890"}
Kind(p, fam, text) == IF p \in IntTypes THEN (IF fam \in Packed /\ text \in HugeInts THEN "raw" ELSE "num")
                      ELSE IF p = "Double" THEN "num" ELSE IF p = "Boolean" THEN "bool"
                      ELSE IF p = "ByteArray" THEN (IF fam \in Packed THEN "bin" ELSE "str")
                      ELSE IF fam \in Packed THEN "raw" ELSE "str"      \* MessagePack carries text as str or as bin holding its UTF-8 bytes

Exc(f) == "exc" \in DOMAIN f /\ f.exc
Included(fl) == SelectSeq([k \in 1..Len(fl) |-> k], LAMBDA k : ~Exc(fl[k]))       \* indexes of the members that travel
RECURSIVE Dv(_, _, _), Pairs(_, _, _, _)
DvSeq(t, s, cfg) == [k \in 1..Len(s) |-> Dv(t, s[k], cfg)]
MemberDoc(f, x, cfg) == IF f.max > 1 THEN (IF x = Nil THEN Null ELSE <<"list", DvSeq(f.t, x[2], cfg)>>) ELSE Dv(f.t, x, cfg)
Pairs(fl, vals, cfg, k) ==
  IF k > Len(fl) THEN <<>>
  ELSE (IF ~Exc(fl[k]) /\ (vals[k] # Nil \/ fl[k].min > 0) THEN << <<PubN(fl[k]), MemberDoc(fl[k], vals[k], cfg)>> >> ELSE <<>>) \o Pairs(fl, vals, cfg, k + 1)
Positional(fl, vals, cfg) == LET ix == Included(fl) IN <<"list", [j \in 1..Len(ix) |-> MemberDoc(fl[ix[j]], vals[ix[j]], cfg)]>>
Dv(t, v, cfg) ==
  IF v = Nil THEN Null
  ELSE IF t.k = "prim" THEN <<Kind(t.p, cfg.fam, v[2]), v[2]>>
  ELSE IF t.k = "enum" THEN <<IF cfg.fam \in Packed THEN "raw" ELSE "str", v[2]>>      \* the name of the value
  ELSE IF t.k = "attr" THEN Dv(t.of, v, cfg)                       \* attributes are ordinary members here
  ELSE IF t.k = "arr" THEN <<"list", DvSeq(t.of, v[2], cfg)>>
  ELSE LET rt == IF cfg.poly THEN Runtime(t, v) ELSE t
           fl == FlatFields(rt)
           vals == [k \in 1..Len(fl) |-> v[3][k]]
       IN IF cfg.ca = "list" THEN Positional(fl, vals, cfg)
          ELSE IF cfg.iw THEN <<"map", Pairs(fl, vals, cfg, 1)>>
          ELSE <<"map", << <<rt.name, <<"map", Pairs(fl, vals, cfg, 1)>>>> >>>>

\* ---- messages (c as in SpyneXmlDoc; form: how the client spells the arguments)
Num(x) == <<"num", x>>
ArgsDoc(c, cfg, form) == IF form = "list" THEN Positional(c.args, c.vals, cfg) ELSE <<"map", Pairs(c.args, c.vals, cfg, 1)>>
DRequest(c, cfg, form) ==
  IF cfg.fam = "msgpackrpc"
    THEN <<"list", <<Num("0"), Num("0"), <<"str", c.method>>,
                     IF cfg.iw THEN ArgsDoc(c, cfg, form) ELSE <<"map", << <<c.method, ArgsDoc(c, cfg, form)>> >>>> >>>>
    ELSE <<"map", << <<c.method, ArgsDoc(c, cfg, form)>> >>>>
RetBody(c, cfg) == IF cfg.ca = "list" THEN Positional(RetFields(c), c.rvals, cfg) ELSE <<"map", Pairs(RetFields(c), c.rvals, cfg, 1)>>
Wrapped(c, cfg) == IF cfg.iw \/ cfg.ca = "list" THEN RetBody(c, cfg) ELSE <<"map", << <<c.method \o "Response", RetBody(c, cfg)>> >>>>
DResponse(c, cfg) ==
  IF cfg.fam = "msgpackrpc" THEN <<"list", <<Num("1"), Num("0"), Null, Wrapped(c, cfg)>>>>
  ELSE IF cfg.iw /\ Len(c.rets) = 1 THEN Dv(c.rets[1], c.rvals[1], cfg)     \* the single return value IS the document
  ELSE Wrapped(c, cfg)

\* ---- equality of trees: maps are sets of pairs
RECURSIVE TreeEq(_, _)
TreeEq(a, b) ==
  IF b[1] = "raw" THEN (a[1] = "str" /\ a[2] = b[2]) \/ (a[1] = "bin" /\ a[3] = b[2])       \* (a: observed, b: expected)
  ELSE IF a[1] # b[1] THEN FALSE
  ELSE IF a[1] = "map" THEN Len(a[2]) = Len(b[2]) /\ \A i \in 1..Len(a[2]) : \E j \in 1..Len(b[2]) : a[2][i][1] = b[2][j][1] /\ TreeEq(a[2][i][2], b[2][j][2])
  ELSE IF a[1] = "list" THEN Len(a[2]) = Len(b[2]) /\ \A i \in 1..Len(a[2]) : TreeEq(a[2][i], b[2][i])
  \* observed bin leaves come as <<"bin", base64, the text the bytes are UTF-8 for (or "?")>>
  ELSE IF a[1] = "bin" THEN (b[1] = "bin" /\ a[2] = b[2])
  ELSE a = b
\* what of a value travels: the members that are not excluded
RECURSIVE Vis(_, _)
Vis(t, v) == IF v = Nil THEN Nil
             ELSE IF v[1] = "seq" THEN <<"seq", [k \in 1..Len(v[2]) |-> Vis(IF t.k = "arr" THEN t.of ELSE t, v[2][k])]>>
             ELSE IF t.k = "obj" /\ v[1] = "obj" THEN LET fl == FlatFields(Runtime(t, v)) IN
                  <<"obj", v[2], [k \in 1..Len(v[3]) |-> IF k <= Len(fl) THEN (IF Exc(fl[k]) THEN Nil ELSE Vis(fl[k].t, v[3][k])) ELSE v[3][k]]>>
             ELSE v
\* objects all of whose members have a value (the positional form is defined for these)
RECURSIVE Full(_, _)
Full(t, v) == IF v = Nil THEN FALSE
              ELSE IF v[1] = "seq" THEN \A k \in 1..Len(v[2]) : Full(IF t.k = "arr" THEN t.of ELSE t, v[2][k])
              ELSE IF t.k = "obj" THEN \A k \in 1..Len(FlatFields(t)) : Exc(FlatFields(t)[k]) \/ Full(FlatFields(t)[k].t, v[3][k])
              ELSE TRUE
=============================================================================
