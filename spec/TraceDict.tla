------------------------------- MODULE TraceDict -------------------------------
(* M3/M4 for the dict documents: each record is one real exchange for one case under one
   configuration:
     req    tree of the request document the independent encoder sent (form: args by name / positional)
     ncalls, args   what the user function received
     resp   tree of the response document Spyne produced for the value the function returned
     dec    the values an independent reader of the conventions decoded from that response
   TLC computes the expected trees with SpyneDictDoc and compares.                       *)
EXTENDS SpyneDictDoc, Json, IOUtils
TraceLog == ndJsonDeserialize(IOEnv.TRACE_FILE)
VARIABLE tid
R(t) == TraceLog[t]
C(t) == R(t).c
Cfg(t) == R(t).cfg
ReqIsSpec(t)  == TreeEq(R(t).obs.req, DRequest(C(t), Cfg(t), R(t).form))
Sent(t, k, v) == Vis(C(t).args[k].t, IF Cfg(t).poly THEN v ELSE Proj(C(t).args[k].t, v))
Back(t, k, v) == Vis(C(t).rets[k], IF Cfg(t).poly THEN v ELSE Proj(C(t).rets[k], v))
Delivered(t)  == R(t).obs.ncalls = 1 /\ NormArgs(C(t), R(t).obs.args) = NormArgs(C(t), [k \in 1..Len(C(t).vals) |-> Sent(t, k, C(t).vals[k])])
RespIsSpec(t) == "resp" \notin DOMAIN R(t).obs \/ TreeEq(R(t).obs.resp, DResponse(C(t), Cfg(t)))
RetNorm(c, vs) == [k \in 1..Len(c.rets) |-> Norm(c.rets[k], vs[k])]
Decodes(t)    == "dec" \notin DOMAIN R(t).obs \/ RetNorm(C(t), R(t).obs.dec) = RetNorm(C(t), [k \in 1..Len(C(t).rets) |-> Back(t, k, C(t).rvals[k])])
Fails(t) == (IF ReqIsSpec(t) THEN {} ELSE {"ReqIsSpec"}) \cup (IF Delivered(t) THEN {} ELSE {"Delivered"})
            \cup (IF RespIsSpec(t) THEN {} ELSE {"RespIsSpec"}) \cup (IF Decodes(t) THEN {} ELSE {"Decodes"})
Init == tid \in 1..Len(TraceLog)
Next == UNCHANGED tid
Report == PrintT(<<"V", tid, Fails(tid)>>)
=============================================================================
