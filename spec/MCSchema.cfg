SPECIFICATION Spec
CONSTANT Deviations = {}
INVARIANT TypeOK
INVARIANT Closed
INVARIANT WalkIsClosedForm
INVARIANT NoSpuriousImport
CHECK_DEADLOCK FALSE
