------------------------------ MODULE SpyneModel ------------------------------
(* Deriving and evolving models (spyne/model/_base.py, spyne/model/complex.py).

   A pool of models evolves by the public derivation operations.  Every operation
   has an explicit frame condition; the action property Frame says that no
   operation changes the observable projection of any model other than the ones
   the documentation says it changes:

     CustPrim / Customize / ChildAttrs / ChildAttrsAll / ArrayOf / Mandatory /
     Subclass                      -> add exactly one model, change none
     AppendField / InsertField on a class
                                   -> the class, its customized variants, and
                                      (through inheritance) its descendants
     AppendField on a variant      -> that variant only

   The observable projection of a model (what the replay driver reads from the
   real class after EVERY step and TLC compares) is value-based: its kind, its
   attributes, and its flat field list - ancestors' fields first, then own, each
   with the attributes of the field's type after child_attrs were applied.

   C15: "returns a new type carrying exactly the requested constraints and leaves
   the original, its other derivatives and every type that references them
   observably unchanged ... Fields added to a class afterwards appear in all of
   its customized variants ... declaration order, parents first".              *)
EXTENDS Naturals, Sequences, FiniteSets, TLC
CONSTANTS MaxOps

\* ---- attributes
NoGe == 0 - 999   NoLen == 999   Inf == 99
\* pk: the persistence argument primary_key (-1 = not stated); vals: the enumeration of allowed values ("none" = open)
\* pa: what the type says FOR ONE PROTOCOL (prot_attrs / pa = {JsonDocument: {...}}): nothing, exc=True, or sub_name - stating it at a
\* derivation REPLACES what the type derived from says (and never touches that type's own table)
Attrs0 == [ge |-> NoGe, minlen |-> 0, maxlen |-> NoLen, mino |-> 0, maxo |-> 1, nil |-> TRUE, pk |-> 0 - 1, vals |-> "none", pa |-> "none"]
KW == {"min1", "nil0", "ge5", "len3", "pk1", "pk0", "v03", "v36", "paexc", "pasub"}
Apply(a, kw) == CASE kw = "min1" -> [a EXCEPT !.mino = 1]
                  [] kw = "nil0" -> [a EXCEPT !.nil = FALSE]
                  [] kw = "ge5"  -> [a EXCEPT !.ge = 5]
                  [] kw = "len3" -> [a EXCEPT !.maxlen = 3]
                  [] kw = "pk1"  -> [a EXCEPT !.pk = 1]
                  [] kw = "pk0"  -> [a EXCEPT !.pk = 0]
                  [] kw = "v03"  -> [a EXCEPT !.vals = "v03"]      \* values = the probe texts of length 0 and 3
                  [] kw = "v36"  -> [a EXCEPT !.vals = "v36"]      \* values = the probe texts of length 3 and 6
                  [] kw = "paexc" -> [a EXCEPT !.pa = "exc"]
                  [] kw = "pasub" -> [a EXCEPT !.pa = "sub"]
RECURSIVE ApplyAll(_, _)
ApplyAll(a, kws) == IF kws = <<>> THEN a ELSE ApplyAll(Apply(a, Head(kws)), Tail(kws))
KwFor(base) == CASE base = "int" -> {"min1", "nil0", "ge5", "pk1", "pk0", "paexc", "pasub"}
                 [] base = "str" -> {"min1", "nil0", "len3", "pk1", "pk0", "v03", "v36", "paexc", "pasub"}
                 [] OTHER        -> {"min1", "nil0"}
\* Mandatory(): min_occurs=1, nillable=False, and min_len=1 for text
Mand(a, base) == IF base = "str" THEN [a EXCEPT !.mino = 1, !.nil = FALSE, !.minlen = 1]
                 ELSE [a EXCEPT !.mino = 1, !.nil = FALSE]

\* ---- models.  own: <<[n, t]>> declared fields (t = id in the pool); ext: parent id or 0;
\* orig: root class this is a variant of, or 0; ca: <<[f, kw]>> child_attrs; caa: <<kw>> child_attrs_all;
\* of: member type (arrays); ofa: attributes of the array member
Mk(kind, base, attrs, own, ext, orig, ca, caa, of, ofa) ==
  [kind |-> kind, base |-> base, attrs |-> attrs, own |-> own, ext |-> ext, orig |-> orig,
   ca |-> ca, caa |-> caa, of |-> of, ofa |-> ofa]
Prim(base)       == Mk("prim", base, Attrs0, <<>>, 0, 0, <<>>, <<>>, 0, Attrs0)
Cls(own, ext)    == Mk("cls", "cls", Attrs0, own, ext, 0, <<>>, <<>>, 0, Attrs0)
F(n, t) == [n |-> n, t |-> t]

VARIABLES pool, nops, last, view
vars == <<pool, nops, last, view>>
Ids == 1..Len(pool)
IsCls(i) == pool[i].kind = "cls"
Root(i)  == IF pool[i].orig = 0 THEN i ELSE pool[i].orig
FieldNames == {"a", "s", "b", "x", "y", "m1", "m2", "n1", "d", "t", "q", "r", "p"}

\* ---- the observable projection
RECURSIVE Flat(_, _)
\* flat declared fields of model i in pool p: parents first
Flat(p, i) == (IF p[i].ext = 0 THEN <<>> ELSE Flat(p, p[i].ext)) \o p[i].own
\* child attrs that apply to field f of model i (own and inherited chains of variants)
\* the child attributes in force for field f of model i: what was requested for f by name
\* (child_attrs, or child_attrs_all materialised when it was given), plus - for an INHERITED
\* field - the remembered child_attrs_all (the parent link of such a variant is itself a variant
\* of the parent carrying it)
IsOwn(p, i, f) == \E k \in 1..Len(p[i].own) : p[i].own[k].n = f
CaOf(p, i, f) == LET mine == SelectSeq(p[i].ca, LAMBDA c : c.f = f)
                 IN [k \in 1..Len(mine) |-> mine[k].kw] \o (IF IsOwn(p, i, f) THEN <<>> ELSE p[i].caa)
\* validation verdicts on probe values, as the attributes imply them:
\* integers -1, 5, 7 (validate_native); texts of length 0, 3, 6 (validate_string)
Verdicts(base, a) ==
  IF base = "int" THEN << a.ge = NoGe \/ (0 - 1) >= a.ge, a.ge = NoGe \/ 5 >= a.ge, a.ge = NoGe \/ 7 >= a.ge >>
  ELSE IF base = "str" THEN << 0 >= a.minlen /\ 0 <= a.maxlen /\ a.vals \in {"none", "v03"},
                               3 >= a.minlen /\ 3 <= a.maxlen,
                               6 >= a.minlen /\ 6 <= a.maxlen /\ a.vals \in {"none", "v36"} >>
  ELSE <<>>
FieldProj(p, i, fld) ==
  LET t == p[fld.t] IN
  LET a == ApplyAll(t.attrs, CaOf(p, i, fld.n)) IN
  [n |-> fld.n, base |-> t.base, attrs |-> a, verd |-> Verdicts(t.base, a)]
Proj(p, i) ==
  [kind |-> p[i].kind, base |-> p[i].base, attrs |-> p[i].attrs, verd |-> Verdicts(p[i].base, p[i].attrs),
   fields |-> IF p[i].kind = "arr"
                THEN << [n |-> "item", base |-> p[p[i].of].base, attrs |-> p[i].ofa,
                         verd |-> Verdicts(p[p[i].of].base, p[i].ofa)] >>
                ELSE LET fl == Flat(p, i) IN [k \in 1..Len(fl) |-> FieldProj(p, i, fl[k])] ]

\* 1: Integer   2: Unicode   3: class A(a: Integer, s: Unicode)   4: class B(A)(b: Integer)
\* 5: class D(Mx1, Mx2)(d: Integer) with mixins Mx1(m1: Integer, m2: Unicode), Mx2(n1: Integer):
\*    mixin fields come first, mixins in base order, each in declaration order
Pool0 == << Prim("int"), Prim("str"), Cls(<<F("a", 1), F("s", 2)>>, 0), Cls(<<F("b", 1)>>, 3),
            Cls(<<F("m1", 1), F("m2", 2), F("n1", 1), F("d", 1)>>, 0),
            \* 6: class O declared as  p: Integer, q: Unicode(order=0), r: Integer(order=1), t: Unicode(order=0): the fields without
            \*    an order keep their places, then each ordered field is inserted at its index IN DECLARATION ORDER: t, q, r, p
            Cls(<<F("t", 2), F("q", 2), F("r", 1), F("p", 1)>>, 0) >>
Init == /\ pool = Pool0 /\ nops = 0 /\ last = <<"init">>
        /\ view = [j \in 1..Len(Pool0) |-> Proj(Pool0, j)]

\* ---- derivation: each adds exactly one model
Add(m, lbl) == /\ pool' = Append(pool, m) /\ nops' = nops + 1 /\ last' = lbl /\ nops < MaxOps
               /\ view' = [j \in 1..(Len(pool) + 1) |-> Proj(pool', j)]
CustPrim(i, kw) ==
  /\ pool[i].kind = "prim" /\ kw \in KwFor(pool[i].base)
  /\ Add([pool[i] EXCEPT !.attrs = Apply(@, kw), !.orig = Root(i)], <<"CustPrim", i, kw>>)
\* the same derivation made FOR A PROTOCOL (prot=<a protocol whose class declares type attributes of its own>): the protocol's
\* attributes are merged into THIS derivation, never kept for the next one - kw = "none" derives with nothing requested
CustProt(i, kw) ==
  /\ pool[i].kind = "prim" /\ (kw = "none" \/ kw \in KwFor(pool[i].base))
  /\ Add([pool[i] EXCEPT !.attrs = IF kw = "none" THEN @ ELSE Apply(@, kw), !.orig = Root(i)], <<"CustProt", i, kw>>)
Customize(i, kw) ==
  /\ IsCls(i) /\ kw \in {"min1", "nil0"}
  /\ Add([pool[i] EXCEPT !.attrs = Apply(@, kw), !.orig = Root(i)], <<"Customize", i, kw>>)
\* child_attrs may also name a field that does not exist yet ("y"): the request is
\* kept and applied when the field is added later (delayed child attrs)
ChildAttrs(i, f, kw) ==
  /\ IsCls(i)
  /\ \/ \E k \in 1..Len(Flat(pool, i)) :
           Flat(pool, i)[k].n = f /\ kw \in KwFor(pool[Flat(pool, i)[k].t].base)
     \/ (f = "y" /\ kw \in {"min1", "nil0"} /\ \A k \in 1..Len(Flat(pool, i)) : Flat(pool, i)[k].n # "y")
  \* a request for a field that does not exist yet is kept in a dict keyed by field name
  \* (Attributes._delayed_child_attrs): a later request for the same future field replaces it
  /\ LET future == \A k \in 1..Len(Flat(pool, i)) : Flat(pool, i)[k].n # f
         base == IF future THEN SelectSeq(pool[i].ca, LAMBDA c : c.f # f) ELSE pool[i].ca
     IN Add([pool[i] EXCEPT !.ca = Append(base, [f |-> f, kw |-> kw]), !.orig = Root(i)], <<"ChildAttrs", i, f, kw>>)
\* child_attrs_all: every field the class has NOW gets the attribute; for fields added LATER the
\* request is remembered in caa - as the code does it (Attributes._delayed_child_attrs_all is
\* assigned, not merged), a second child_attrs_all REPLACES what is remembered for future fields
ChildAttrsAll(i, kw) ==
  /\ IsCls(i) /\ kw \in {"min1", "nil0"}
  /\ LET fl == Flat(pool, i)
         \* everything in force now is written down per field, then kw is added for each
         RECURSIVE Mat(_)
         Mat(k) == IF k > Len(fl) THEN <<>>
                   ELSE LET cur == CaOf(pool, i, fl[k].n)
                        IN [m \in 1..Len(cur) |-> [f |-> fl[k].n, kw |-> cur[m]]] \o << [f |-> fl[k].n, kw |-> kw] >> \o Mat(k + 1)
         keep == SelectSeq(pool[i].ca, LAMBDA c : \A k \in 1..Len(fl) : fl[k].n # c.f)    \* requests for future fields
     IN Add([pool[i] EXCEPT !.ca = keep \o Mat(1), !.caa = <<kw>>, !.orig = Root(i)], <<"ChildAttrsAll", i, kw>>)
ArrayOf(i) ==
  /\ pool[i].kind \in {"prim", "cls"}
  /\ Add(Mk("arr", "arr", Attrs0, <<>>, 0, 0, <<>>, <<>>, i, [pool[i].attrs EXCEPT !.maxo = Inf]), <<"ArrayOf", i>>)
Mandatory(i) ==
  /\ Add(IF pool[i].kind = "arr"
           THEN [pool[i] EXCEPT !.attrs = Mand(@, "arr"), !.orig = Root(i),
                                !.ofa = IF @.mino = 0 THEN Mand(@, pool[pool[i].of].base) ELSE @]
           ELSE [pool[i] EXCEPT !.attrs = Mand(@, pool[i].base), !.orig = Root(i)], <<"Mandatory", i>>)
Subclass(i, n, t) ==
  /\ IsCls(i) /\ pool[i].orig = 0 /\ pool[t].kind = "prim" /\ pool[t].orig = 0
  /\ \A k \in 1..Len(Flat(pool, i)) : Flat(pool, i)[k].n # n
  /\ Add(Cls(<<F(n, t)>>, i), <<"Subclass", i, n, t>>)

\* ---- evolution: mutates existing models
\* who receives a field added to class i: i itself and, when i is a root class, its variants
Receivers(i) == IF pool[i].orig = 0 THEN {j \in Ids : j = i \/ pool[j].orig = i} ELSE {i}
Fresh(i, n) == \A j \in Ids : (IsCls(j)) => \A k \in 1..Len(Flat(pool, j)) : Flat(pool, j)[k].n # n
InsertAt(s, k, x) == SubSeq(s, 1, k) \o <<x>> \o SubSeq(s, k + 1, Len(s))
AppendField(i, n, t) ==
  /\ nops < MaxOps /\ IsCls(i) /\ pool[t].kind = "prim" /\ pool[t].orig = 0 /\ Fresh(i, n)
  /\ pool' = [j \in Ids |-> IF j \in Receivers(i)
                               THEN [pool[j] EXCEPT !.own = Append(@, F(n, t)),
                                                    !.ca = @ \o [k \in 1..Len(pool[j].caa) |-> [f |-> n, kw |-> pool[j].caa[k]]]]
                               ELSE pool[j]]
  /\ nops' = nops + 1 /\ last' = <<"AppendField", i, n, t>>
  /\ view' = [j \in Ids |-> Proj(pool', j)]
InsertField(i, n, t) ==         \* at position 0 of the own fields
  /\ nops < MaxOps /\ IsCls(i) /\ pool[t].kind = "prim" /\ pool[t].orig = 0 /\ Fresh(i, n)
  /\ pool' = [j \in Ids |-> IF j \in Receivers(i)
                               THEN [pool[j] EXCEPT !.own = InsertAt(@, 0, F(n, t)),
                                                    !.ca = @ \o [k \in 1..Len(pool[j].caa) |-> [f |-> n, kw |-> pool[j].caa[k]]]]
                               ELSE pool[j]]
  /\ nops' = nops + 1 /\ last' = <<"InsertField", i, n, t>>
  /\ view' = [j \in Ids |-> Proj(pool', j)]

\* ---- publication: the model is used in the signature of a service of a NEW application.  Building the interface gives
\* names to anonymous types in place; it derives nothing and changes no projection.  What it may rename is the
\* published model's own anonymous parts - never a part of a model it does not contain (NamesFrame in TraceModel)
Publish(i) == /\ nops < MaxOps /\ nops' = nops + 1 /\ last' = <<"Publish", i>> /\ UNCHANGED <<pool, view>>

Next == \E i \in Ids :
          \/ \E kw \in KW : CustPrim(i, kw) \/ Customize(i, kw) \/ ChildAttrsAll(i, kw)
          \/ \E kw \in KW \cup {"none"} : CustProt(i, kw)
          \/ \E kw \in {"min1", "nil0", "ge5", "len3"}, f \in FieldNames : ChildAttrs(i, f, kw)
          \/ ArrayOf(i) \/ Mandatory(i) \/ Publish(i)
          \/ \E t \in {1, 2} : Subclass(i, "x", t) \/ AppendField(i, "y", t) \/ InsertField(i, "y", t)
Spec == Init /\ [][Next]_vars

\* ---------------------------------------------------------------- properties
\* descendants of a changed class (through ext chains), and variants of descendants that
\* extend a variant of it, legitimately see an added field
RECURSIVE Ancestors(_, _)
Ancestors(p, i) == IF p[i].ext = 0 THEN {} ELSE {p[i].ext} \cup Ancestors(p, p[i].ext)
MayChange(i) == {j \in Ids : j \in Receivers(i) \/ (Ancestors(pool, j) \cap Receivers(i)) # {}}
\* Frame: a step changes the projection of an existing model only where the operation says so
Frame == [][\A j \in Ids :
              Proj(pool', j) # Proj(pool, j) =>
                 /\ last'[1] \in {"AppendField", "InsertField"}
                 /\ j \in MayChange(last'[2])]_vars
\* the models publishing model i may give names to: i itself, the type an array was built over, and - since a variant
\* shares its anonymous ancestry with the other variants of its root - the models of the same family as those
\* (all classes; primitives / arrays with the same root).  NOT: another array over the same type, an unrelated class.
RootIn(p, j) == IF p[j].orig = 0 THEN j ELSE p[j].orig
SameFamily(p, a, b) == a = b \/ (p[a].kind = "cls" /\ p[b].kind = "cls")
                       \/ (p[a].kind = p[b].kind /\ p[a].kind \in {"prim", "arr"} /\ RootIn(p, a) = RootIn(p, b))
PartsOf(p, i) == IF p[i].of = 0 THEN {} ELSE {p[i].of}
Lineage(p, i) == {j \in 1..Len(p) : SameFamily(p, i, j) \/ \E q \in PartsOf(p, i) : SameFamily(p, q, j)}
\* a derivation adds one model carrying exactly the requested constraint
DerivesOne == [][last'[1] \notin {"AppendField", "InsertField", "Publish"} => Len(pool') = Len(pool) + 1]_vars
Requested == [][last'[1] \in {"CustPrim", "Customize"} =>
                 pool'[Len(pool')].attrs = Apply(pool[last'[2]].attrs, last'[3])]_vars
\* parents first, declaration order: the flat list of a subclass starts with its parent's
ParentsFirst == \A j \in Ids : pool[j].ext # 0 =>
                   LET pf == Flat(pool, pool[j].ext) IN SubSeq(Flat(pool, j), 1, Len(pf)) = pf
\* fields added to a class appear in all of its customized variants
VariantsFollow == \A j \in Ids : (IsCls(j) /\ pool[j].orig # 0 /\ pool[pool[j].orig].kind = "cls") =>
                   \A k \in 1..Len(pool[pool[j].orig].own) :
                      \E m \in 1..Len(pool[j].own) : pool[j].own[m].n = pool[pool[j].orig].own[k].n
=============================================================================
