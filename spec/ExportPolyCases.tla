---- MODULE ExportPolyCases ----
EXTENDS SpynePolyCases, Json, IOUtils, SequencesExt
ASSUME JsonSerialize(IOEnv.OUT_FILE, SetToSeq(PolyCases))
VARIABLE x
Init == x = 0
Next == UNCHANGED x
====
