SPECIFICATION Spec
CONSTANT Deviations = {"AuxBeforeResponse"}
INVARIANT InvAfterResponse
CHECK_DEADLOCK FALSE
