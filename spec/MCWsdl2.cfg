SPECIFICATION Spec
CONSTANT Threads = {1, 2}
CONSTANT Deviations = {}
CONSTANT MayFail = TRUE
INVARIANT BuiltOnce
INVARIANT WholeDoc
INVARIANT OnlyFailerGets500
INVARIANT CacheSound
INVARIANT LockHolder
INVARIANT LockFreeAtEnd
PROPERTY AllRespond
CHECK_DEADLOCK FALSE
