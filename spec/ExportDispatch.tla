---- MODULE ExportDispatch ----
(* M2/M4: for every application (duplicate-free service list) the expected outcome of
   construction and the routing table, for the replay driver. *)
EXTENDS SpyneDispatch, Json, IOUtils, SequencesExt
Row(a) == [app |-> a, refused |-> Conflict(a),
           table |-> IF Conflict(a) THEN [n \in Names |-> <<>>] ELSE Table(a)]
ASSUME JsonSerialize(IOEnv.OUT_FILE, [names |-> SetToSeq(Names), rows |-> SetToSeq({Row(a) : a \in Apps})])
Stop == phase = "none"
====
