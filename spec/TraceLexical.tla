---- MODULE TraceLexical ----
(* M4: the clauses of SpyneLexical evaluated on (row, observation) records *)
EXTENDS Naturals, Sequences, TLC, Json, IOUtils
TraceLog == ndJsonDeserialize(IOEnv.TRACE_FILE)
VARIABLE tid
InSeq(x, s) == \E i \in 1..Len(s) : s[i] = x
R(t) == TraceLog[t]
\* read: the literal must be accepted and denote the row's value
ReadOk(t)  == R(t).obs.ok /\ R(t).obs.val = R(t).row.val
\* write: the printed text must be one of the literals that denote the value, and an XML Schema
\* processor must accept it as a literal of the advertised xs: type
WriteOk(t) == R(t).obs.ok /\ InSeq(R(t).obs.text, R(t).row.lits) /\ R(t).obs.xsd
Fails(t) == IF R(t).dir = "in" THEN (IF ReadOk(t) THEN {} ELSE {"ReadOk"})
            ELSE (IF R(t).obs.ok /\ InSeq(R(t).obs.text, R(t).row.lits) THEN {} ELSE {"WriteDenotes"})
                 \cup (IF R(t).obs.ok /\ ~R(t).obs.xsd THEN {"WriteInLexicalSpace"} ELSE {})
Init == tid \in 1..Len(TraceLog)
Next == UNCHANGED tid
Report == PrintT(<<"V", tid, Fails(tid)>>)
====
