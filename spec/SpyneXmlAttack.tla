---------------------------- MODULE SpyneXmlAttack ----------------------------
(* C17: XML input is parsed with safe defaults.

   Part 1 - isolation of parser settings (state machine).  A process creates protocol
   instances, each with its own parser settings (default = hardened, or relaxed by the
   integrator for some other endpoint), and serves requests.  The settings that parse a
   request are the ones its endpoint's protocol was CONSTRUCTED with - whatever was
   constructed before or after.  `Isolated` is the invariant; the deviation SharedSettings
   (one settings dictionary shared by all instances, last writer wins) violates it.

   Part 2 - the attack corpus (closed family): attack kind x position of a valid request x
   protocol x transport x framing; Resolves(settings, kind) says which attacks WOULD succeed
   under given settings - none under the defaults (DefaultsAreSafe, checked by TLC) - and
   Safe(observation) is what the driver's observation of the real server must satisfy.     *)
EXTENDS Naturals, Sequences, FiniteSets, TLC

CONSTANTS Deviations, MaxInst

Default == [resolve_entities |-> FALSE, load_dtd |-> FALSE, dtd_validation |-> FALSE, attribute_defaults |-> FALSE, no_network |-> TRUE, huge_tree |-> FALSE]
Relaxed == [resolve_entities |-> TRUE, load_dtd |-> TRUE, dtd_validation |-> FALSE, attribute_defaults |-> TRUE, no_network |-> FALSE, huge_tree |-> TRUE]

\* ---- attack kinds
External == {"ext_general_file", "ext_general_http", "ext_general_ftp", "ext_param_file", "ext_param_http", "ext_dtd_file", "ext_dtd_http", "xinclude_file"}
Internal == {"internal_entity"}
Bombs    == {"laughs_3x4", "laughs_10x6", "laughs_10x9", "quadratic_200k", "nest_300", "nest_5000", "attrs_50000", "entity_depth_50"}
\* the thorough tier adds a grid of sizes around libxml2's limits; for these the requirement is the weaker one:
\* nothing expanded, nothing escapes, bounded time and memory (refused OR harmless)
BombsMore == {"laughs_2x12", "laughs_5x5", "laughs_5x8", "laughs_20x3", "laughs_20x5", "laughs_40x4", "quadratic_20k", "quadratic_1000k",
              "nest_200", "nest_255", "nest_256", "nest_257", "nest_1000", "nest_20000", "attrs_1000", "attrs_200000", "entity_depth_200"}
\* SOAP multi-reference encoding as an amplifier: a chain of id'd elements each referring TWICE to the next one; resolving the
\* references must not hand user code a tree that grows with 2^depth (the references of one target share it, they are not copies)
HrefBombs == {"href_fanout_2x14"}
Kinds    == External \cup Internal \cup Bombs \cup HrefBombs
KindsMore == Kinds \cup BombsMore
\* would the attack get through with these parser settings?
Resolves(s, k) == CASE k \in {"ext_general_file"} -> s.resolve_entities
                    [] k \in {"ext_general_http", "ext_general_ftp"} -> s.resolve_entities /\ ~s.no_network
                    [] k = "ext_param_file" -> s.load_dtd \/ s.dtd_validation \/ s.attribute_defaults
                    [] k = "ext_param_http" -> (s.load_dtd \/ s.dtd_validation \/ s.attribute_defaults) /\ ~s.no_network
                    [] k = "ext_dtd_file" -> s.load_dtd \/ s.dtd_validation \/ s.attribute_defaults
                    [] k = "ext_dtd_http" -> (s.load_dtd \/ s.dtd_validation \/ s.attribute_defaults) /\ ~s.no_network
                    [] k = "xinclude_file" -> FALSE                      \* nothing ever runs XInclude processing
                    [] k = "internal_entity" -> s.resolve_entities
                    [] OTHER -> s.huge_tree                              \* the bombs are stopped by libxml2's limits unless lifted
DefaultsAreSafe == \A k \in Kinds : ~Resolves(Default, k)
RelaxedIsNot == \E k \in Kinds : Resolves(Relaxed, k)

\* ---- Part 1: the state machine
VARIABLES insts,       \* sequence of [relaxed, own]: what each instance was constructed with
          shared,      \* the settings every instance sees under the SharedSettings deviation
          served       \* set of [inst, kind, used]: requests served so far and the settings that parsed them
vars == <<insts, shared, served>>
Init == insts = <<>> /\ shared = Default /\ served = {}
Create(r) == /\ Len(insts) < MaxInst
             /\ insts' = Append(insts, [relaxed |-> r, own |-> IF r THEN Relaxed ELSE Default])
             /\ shared' = (IF r THEN Relaxed ELSE Default)
             /\ UNCHANGED served
Effective(i) == IF "SharedSettings" \in Deviations THEN shared ELSE insts[i].own
Serve(i, k) == /\ i \in 1..Len(insts)
               /\ served' = served \cup {[inst |-> i, kind |-> k, used |-> Effective(i)]}
               /\ UNCHANGED <<insts, shared>>
Next == (\E r \in BOOLEAN : Create(r)) \/ (\E i \in 1..MaxInst, k \in {"ext_general_file", "ext_dtd_file", "nest_300"} : Serve(i, k))
Spec == Init /\ [][Next]_vars
Isolated == \A e \in served : e.used = insts[e.inst].own
DefaultEndpointsSafe == \A e \in served : ~insts[e.inst].relaxed => ~Resolves(e.used, e.kind)

\* ---- Part 2: the corpus
\* anyxml_text: the request has an argument of type AnyXml (user code gets a tree); the attack is a whole DOCUMENT, DOCTYPE and
\* all, sent as the character data of that argument (escaped): character data is not markup, nothing may parse it again
\* anydict_leaf: the request has an argument of type AnyDict (user code gets a dictionary built from the elements); the reference
\* stands in a leaf of it, with character data before and after
Positions  == {"text_unicode", "text_integer", "text_nested", "text_item", "attr_value", "anyxml_text", "anydict_leaf"}
\* "schema": not a request at all - an XML Schema DOCUMENT given to the schema reader (spyne.util.xml.parse_schema_string, the
\* interface's XmlSchemaParser): reading a document never makes the process open a file or a connection the document names
Protocols  == {"xml", "soap11", "soap12", "schema"}
Transports == {"wsgi", "base"}
\* how the request is framed: plain; transport charset + encoding declaration; as the root part of a multipart/related body
\* the validator the endpoint was configured with: none, or schema validation by lxml (the parser is the same: validation happens
\* AFTER parsing and must not change what the parser may load)
Validators == {"none", "lxml"}
\* multipart_att: a SOAP-with-attachments message: the root part AND an attachment with a Content-ID (the envelope is then taken
\* apart and put together again before it is read)
\* options the integrator gives the protocol that are NOT about what the parser may load (whitespace, comments, namespaces, the
\* shape of the tree, polymorphism) - alone ("blank": remove_blank_text=True) or next to an explicit security option that repeats
\* the default ("blank_nodtd": remove_blank_text=True, load_dtd=False): none of them makes the parser load anything more
Opts == {"none", "blank", "blank_nodtd", "nsclean", "keep_pis_cdata", "poly_nocleanup"}
\* the security options an option set gives EXPLICITLY (all others keep their defaults whatever else is given)
Given(o) == IF o = "blank_nodtd" THEN [k \in {"load_dtd"} |-> FALSE] ELSE [k \in {} |-> FALSE]
SettingsOf(g) == [k \in DOMAIN Default |-> IF k \in DOMAIN g THEN g[k] ELSE Default[k]]
OptsAreBenign == \A o \in Opts : SettingsOf(Given(o)) = Default      \* so every attack of the corpus must fail under each of them
Framings   == {"plain", "charset_decl", "multipart", "multipart_att", "ctrl_char"}     \* ctrl_char: a C0 control character (never legal in XML 1.0) in front of the payload
Applies(a) == /\ (a.framing \in {"multipart", "multipart_att"} => a.transport = "wsgi" /\ a.prot \in {"soap11", "soap12"})
              /\ (a.kind \in Bombs \ {"attrs_50000"} => a.pos \in {"text_unicode", "text_nested", "anyxml_text", "anydict_leaf"})       \* one bomb is enough per document
              /\ (a.kind = "attrs_50000" => a.pos = "attr_value")
              /\ (a.kind \in {"ext_dtd_file", "ext_dtd_http", "ext_param_file", "ext_param_http"} => a.pos \in {"text_unicode", "attr_value"})   \* these live in the prolog (what they declare may show in a text or in an attribute)
              /\ (a.prot = "schema" => a.kind \in {"ext_dtd_file", "ext_dtd_http", "ext_param_file", "ext_param_http", "ext_general_file", "ext_general_http"}
                                         /\ a.pos = "text_unicode" /\ a.transport = "base" /\ a.framing = "plain" /\ a.validator = "none")
              /\ (a.pos = "anyxml_text" => a.kind \in {"internal_entity", "ext_general_file", "ext_general_http", "laughs_3x4"} /\ a.framing = "plain")
              /\ (a.pos = "anydict_leaf" => a.kind \in {"internal_entity", "ext_general_file", "ext_general_http", "laughs_3x4", "entity_depth_50"}
                                              /\ a.framing = "plain" /\ a.validator = "none" /\ a.opts = "none")
              /\ (a.kind \in HrefBombs => a.prot # "xml" /\ a.pos = "text_nested" /\ a.framing = "plain")
              /\ (a.validator = "lxml" => a.kind \in External \cup Internal /\ a.framing = "plain")
              /\ (a.opts # "none" => a.kind \in External \cup Internal /\ a.framing = "plain" /\ a.validator = "none" /\ a.transport = "wsgi"
                                      /\ a.prot # "schema" /\ a.pos \in {"text_unicode", "attr_value", "text_nested"})
              /\ (a.prot = "schema" => a.pos = "text_unicode")
Attacks == {a \in [kind : Kinds, pos : Positions, prot : Protocols, transport : Transports, framing : Framings, validator : Validators, opts : Opts] : Applies(a)}
AppliesMore(a) == /\ (a.framing \in {"multipart", "multipart_att"} => a.transport = "wsgi" /\ a.prot \in {"soap11", "soap12"})
                  /\ (IF a.kind \in {"attrs_1000", "attrs_200000"} THEN a.pos = "attr_value" ELSE a.pos \in {"text_unicode", "text_nested"})
AttacksMore == Attacks \cup {a \in [kind : BombsMore, pos : Positions, prot : Protocols, transport : Transports, framing : Framings, validator : {"none"}, opts : {"none"}] : AppliesMore(a)}

\* what the driver observes for one attack against a DEFAULT-configured endpoint:
\*   [called, fault, client, escape, canary (its content seen by user code or in the response), expanded (an internal entity's
\*    replacement text seen by user code or in the response), file_opened, net_contact, seconds10 (tenths), mb (resident growth)]
\* bombs that must be REFUSED; the small chains and the attribute flood are harmless as long as nothing is expanded and
\* the request is handled in bounded time (unknown attributes are ignored)
Refusable == Bombs \ {"laughs_3x4", "entity_depth_50", "attrs_50000"}
Safe(a, o) ==
  /\ ~o.canary /\ ~o.file_opened /\ ~o.net_contact /\ ~o.escape
  /\ (a.kind \in Internal /\ a.pos # "attr_value" => ~o.expanded)     \* (attribute values: libxml2 substitutes internal entities while normalizing them)
  /\ (a.kind \in Refusable => ~o.called /\ o.fault /\ o.client)
  /\ (a.kind \in Bombs \cup BombsMore => ~o.expanded)
  /\ (a.framing = "ctrl_char" => ~o.called /\ o.fault /\ o.client)      \* an ill-formed document is never repaired and served
  /\ (a.kind \in HrefBombs => o.nodes <= 4 * o.reqnodes)      \* (nodes: elements of the request as user code gets it; reqnodes: as sent)
  /\ o.seconds10 <= 50 /\ o.mb <= 300
Fails(a, o) == (IF o.canary THEN {"CanaryLeaked"} ELSE {}) \cup (IF o.file_opened THEN {"FileOpened"} ELSE {})
               \cup (IF o.net_contact THEN {"NetworkContacted"} ELSE {}) \cup (IF o.escape THEN {"Escape"} ELSE {})
               \cup (IF o.expanded /\ (a.kind \in Bombs \cup BombsMore \/ (a.kind \in Internal /\ a.pos # "attr_value")) THEN {"EntityExpanded"} ELSE {})
               \cup (IF a.kind \in Refusable /\ ~(~o.called /\ o.fault /\ o.client) THEN {"BombNotRefused"} ELSE {})
               \cup (IF o.seconds10 > 50 \/ o.mb > 300 THEN {"Unbounded"} ELSE {})
               \cup (IF a.kind \in HrefBombs /\ o.nodes > 4 * o.reqnodes THEN {"ReferencesAmplified"} ELSE {})
               \cup (IF a.framing = "ctrl_char" /\ ~(~o.called /\ o.fault /\ o.client) THEN {"IllFormedServed"} ELSE {})
ASSUME DefaultsAreSafe /\ RelaxedIsNot /\ OptsAreBenign
=============================================================================
