---- MODULE ExportHttpPattern ----
EXTENDS SpyneHttpPattern, Json, IOUtils, SequencesExt
ASSUME Unambiguous
ASSUME JsonSerialize(IOEnv.OUT_FILE, [rows |-> SetToSeq({[verb |-> r[1], host |-> r[2], path |-> r[3], route |-> Route(r[1], r[2], r[3])] : r \in Requests}),
                                      mounts |-> SetToSeq(Mounts), mountrows |-> SetToSeq({[frag |-> f, route |-> MountRoute(f)] : f \in MountFragments})])
VARIABLE x
Init == x = 0
Next == UNCHANGED x
====
