---- MODULE TraceMutate ----
(* C04: Fails(observation) of SpyneMutate evaluated by TLC for every mutant request sent *)
EXTENDS SpyneMutate, Json, IOUtils
TraceLog == ndJsonDeserialize(IOEnv.TRACE_FILE)
VARIABLE tid
Init == tid \in 1..Len(TraceLog)
Next == UNCHANGED tid
Report == PrintT(<<"V", tid, Fails(TraceLog[tid].obs)>>)
====
