---- MODULE TraceUtil ----
(* X03 (beyond the listed properties): the object-level helpers of spyne.util.xml / spyne.util.dictdoc
   (get_object_as_xml, get_xml_as_object, get_object_as_json / json_loads, get_object_as_yaml / yaml_loads)
   write the documents SpyneXmlDoc / SpyneDictDoc define for (type, value) and read them back to the value. *)
EXTENDS SpyneDictDoc, Json, IOUtils
TraceLog == ndJsonDeserialize(IOEnv.TRACE_FILE)
VARIABLE tid
R(t) == TraceLog[t]
T(t) == R(t).t
\* (the helpers are not polymorphic: what travels is the declared part of the value)
V(t) == Proj(R(t).t, R(t).v)
Cfg(fam) == [fam |-> fam, iw |-> TRUE, ca |-> "dict", poly |-> FALSE]
XmlIsSpec(t)  == "xml" \notin DOMAIN R(t).obs \/ SameDoc(R(t).obs.xml, EncElem(T(t), V(t), T(t).ns, T(t).name, T(t).ns, FALSE))
XmlReadsBack(t) == "xmlback" \notin DOMAIN R(t).obs \/ Norm(T(t), R(t).obs.xmlback) = Norm(T(t), V(t))
JsonIsSpec(t) == "json" \notin DOMAIN R(t).obs \/ TreeEq(R(t).obs.json, Dv(T(t), V(t), Cfg("json")))
JsonReadsBack(t) == "jsonback" \notin DOMAIN R(t).obs \/ Norm(T(t), R(t).obs.jsonback) = Norm(T(t), V(t))
YamlIsSpec(t) == "yaml" \notin DOMAIN R(t).obs \/ TreeEq(R(t).obs.yaml, Dv(T(t), V(t), Cfg("yaml")))
YamlReadsBack(t) == "yamlback" \notin DOMAIN R(t).obs \/ Norm(T(t), R(t).obs.yamlback) = Norm(T(t), V(t))
Fails(t) == (IF XmlIsSpec(t) THEN {} ELSE {"XmlIsSpec"}) \cup (IF XmlReadsBack(t) THEN {} ELSE {"XmlReadsBack"})
            \cup (IF JsonIsSpec(t) THEN {} ELSE {"JsonIsSpec"}) \cup (IF JsonReadsBack(t) THEN {} ELSE {"JsonReadsBack"})
            \cup (IF YamlIsSpec(t) THEN {} ELSE {"YamlIsSpec"}) \cup (IF YamlReadsBack(t) THEN {} ELSE {"YamlReadsBack"})
Init == tid \in 1..Len(TraceLog)
Next == UNCHANGED tid
Report == PrintT(<<"V", tid, Fails(tid)>>)
====
