---- MODULE TraceWsdlDoc ----
(* C07: the structure extracted from real WSDL documents, judged against SpyneWsdl *)
EXTENDS SpyneWsdl, Json, IOUtils
TraceLog == ndJsonDeserialize(IOEnv.TRACE_FILE)
VARIABLE tid
R(t) == TraceLog[t]
\* a record is either one method of one application or the document of one application (the application as serialised: methods as sequences)
AppMethods(a) == UNION {Set(a.services[k].methods) : k \in 1..Len(a.services)}
Verdict(t) == IF R(t).what = "method" THEN MFails(R(t).m, R(t).o)
              ELSE (IF Closed(R(t).d) THEN {} ELSE {"Closed"}) \cup (IF Deterministic(R(t).d) THEN {} ELSE {"Deterministic"})
                   \cup (IF R(t).d.nops = Cardinality(AppMethods(R(t).a)) THEN {} ELSE {"NoStrayOps"})
Init == tid \in 1..Len(TraceLog)
Next == UNCHANGED tid
Report == PrintT(<<"V", tid, Verdict(tid)>>)
====
