---- MODULE ExportWsdl ----
EXTENDS SpyneWsdl, Json, IOUtils, SequencesExt
Ser(a) == [name |-> a.name, tns |-> a.tns, services |-> [k \in 1..Len(a.services) |->
             [cls |-> a.services[k].cls, pts |-> a.services[k].pts, methods |-> SetToSeq(a.services[k].methods)]]]
ASSUME JsonSerialize(IOEnv.OUT_FILE, SetToSeq({Ser(a) : a \in (IF IOEnv.FAMILY = "thorough" THEN AppsThorough ELSE Apps)}))
VARIABLE x
Init == x = 0
Next == UNCHANGED x
====
