SPECIFICATION Spec
CONSTANT Handlers = {"h1", "h2"}
CONSTANT Events = {"ea", "eb"}
CONSTANT MaxOps = 4
INVARIANT NoDup
PROPERTY OrderKept
PROPERTY Inherits
PROPERTY Frame
CHECK_DEADLOCK FALSE
