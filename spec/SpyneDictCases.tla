---------------------------- MODULE SpyneDictCases ----------------------------
(* C02: what the dict-document checks add to the SpyneSignatures family - magnitudes, Unicode
   scalars, empty containers, and response values that are DAGs (one instance reachable twice) *)
EXTENDS SpyneSignatures

\* integers at and around the 64-bit boundaries, decimals of large magnitude and precision
BigInts == {"9223372036854775807", "9223372036854775808", "-9223372036854775808", "-9223372036854775809",
            "18446744073709551615", "18446744073709551616", "-18446744073709551615", "123456789012345678901234567890", "0", "-1"}
BigDecs == {"123456789012345678901234567890.123456789", "-0.000001", "0.1", "79228162514264337593543950336"}
\* Unicode texts by identifier (the driver holds the table): astral plane, the last BMP code point,
\* a C0 control, quotes and backslashes, line breaks and tabs, the empty string, 12 KB of two-byte characters
Texts == {"u_astral", "u_ffff", "u_ctrl1", "u_quote_backslash", "u_nl_tab", "u_empty", "u_nbsp_space", "u_long_odd", "u_long_even"}
Echo(p, v) == Case("D1", "wrapped", <<F("a", Prim(p), 0, 1)>>, <<Leaf(v)>>, <<Prim(p)>>, <<Leaf(v)>>)
D1 == {Echo("Integer", v) : v \in BigInts} \cup {Echo("Decimal", v) : v \in BigDecs} \cup {Echo("Unicode", v) : v \in Texts}
      \cup {Case("D1", "wrapped", <<F("a", Arr(Prim("Integer")), 0, 1)>>, <<SeqV(<<Leaf(x), Leaf(y)>>)>>, <<Arr(Prim("Integer"))>>, <<SeqV(<<Leaf(x), Leaf(y)>>)>>) :
              x \in {"-9223372036854775809", "5"}, y \in {"18446744073709551616", "-18446744073709551615"}}
\* D2: the same instance twice in one response (share = TRUE: the driver returns ONE object for equal object values)
P2 == Obj("P", "tns", <<F("x", Prim("Integer"), 0, 1), F("y", Prim("Integer"), 0, 1)>>)
Seg == Obj("Seg", "tns", <<F("start", P2, 0, 1), F("end", P2, 0, 1), F("via", Arr(P2), 0, 1)>>)
Pv(x, y) == ObjV("P", <<Leaf(x), Leaf(y)>>)
Share(c, sh) == [x \in DOMAIN c \cup {"share"} |-> IF x = "share" THEN sh ELSE c[x]]
D2 == {Share(Case("D2", "wrapped", <<F("a", Prim("Integer"), 0, 1)>>, <<Leaf("5")>>, <<Seg>>, <<ObjV("Seg", <<Pv("1", "2"), e, via>>)>>), sh) :
          e \in {Pv("1", "2"), Pv("3", "4")}, via \in {Nil, SeqV(<<Pv("1", "2"), Pv("3", "4"), Pv("1", "2")>>), SeqV(<<Pv("3", "4"), Pv("3", "4")>>)}, sh \in BOOLEAN}
      \cup {Share(Case("D2", "wrapped", <<F("a", Prim("Integer"), 0, 1)>>, <<Leaf("5")>>, <<Arr(P2)>>, <<SeqV(<<Pv("1", "2"), Pv("3", "4"), Pv("1", "2")>>)>>), sh) : sh \in BOOLEAN}
\* D3: a class with a member that is EXCLUDED from the documents (exc=True: a secret kept server-side) between members that travel;
\* the client sends the others (by name, or positionally: the list of the others), user code returns an instance with the secret set
Fx(n, t, min, max) == [n |-> n, t |-> t, min |-> min, max |-> max, exc |-> TRUE]
Acct == Obj("Account", "tns", <<F("user", Prim("Unicode"), 0, 1), Fx("secret", Prim("Unicode"), 0, 1), F("level", Prim("Integer"), 0, 1), F("note", Prim("Unicode"), 0, 1)>>)
AcctIn(u, l, n) == ObjV("Account", <<u, Nil, l, n>>)
AcctOut(u, l, n) == ObjV("Account", <<u, Leaf("opensesame"), l, n>>)
D3 == {Case("D3", "wrapped", <<F("a", Acct, 0, 1)>>, <<AcctIn(Leaf(u), Leaf("5"), n)>>, <<Acct>>, <<AcctOut(Leaf(u), Leaf("5"), n)>>) : u \in {"ann", "bob"}, n \in {Leaf("hello"), Nil}}
      \cup {Case("D3", "wrapped", <<F("xs", Arr(Acct), 0, 1), F("k", Prim("Integer"), 0, 1)>>, <<SeqV(<<AcctIn(Leaf("ann"), Leaf("5"), Leaf("hello")), AcctIn(Leaf("bob"), Leaf("7"), Leaf("x"))>>), Leaf("5")>>,
                  <<Arr(Acct)>>, <<SeqV(<<AcctOut(Leaf("bob"), Leaf("7"), Leaf("x"))>>)>>)}
\* D5: an enumeration (the value travels as its name, a string) as argument, return value, member and array item
Color == [k |-> "enum", name |-> "Color", values |-> <<"red", "green">>]
Paint == Obj("Paint", "tns", <<F("c", Color, 0, 1), F("n", Prim("Integer"), 0, 1)>>)
D5 == {Case("D5", "wrapped", <<F("c", Color, 0, 1)>>, <<Leaf(x)>>, <<Color>>, <<Leaf(y)>>) : x \in {"red", "green"}, y \in {"red", "green"}}
      \cup {Case("D5", "wrapped", <<F("p", Paint, 0, 1)>>, <<ObjV("Paint", <<Leaf("green"), Leaf("5")>>)>>, <<Paint, Arr(Color)>>,
                  <<ObjV("Paint", <<Leaf("red"), Nil>>), SeqV(<<Leaf("red"), Leaf("green"), Leaf("red")>>)>>)}
\* (bare styles and SOAP headers have no counterpart in dict documents)
DictCases == {Share(c, FALSE) : c \in T1 \cup T2 \cup T3 \cup T4 \cup T5 \cup T6 \cup T6b \cup T7 \cup D1 \cup D3 \cup D5} \cup D2
=============================================================================
