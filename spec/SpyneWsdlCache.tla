--------------------------- MODULE SpyneWsdlCache ---------------------------
(* WsgiApplication.handle_wsdl_request: the WSDL is built lazily, on the first
   ?wsdl request, behind a double-checked lock, and cached on the transport.
   One action per SHARED ACCESS, in program order (line numbers of wsgi.py):

     if self._wsdl is None:                               Peek
         wsdl = wsdl11.get_interface_document()           GetDoc1
         if wsdl is not None: self._wsdl = wsdl           Store1    (design)
         self._wsdl = wsdl                                Store1    (deviation StaleStore)
     ctx.transport.wsdl = self._wsdl                      Read1
     if ctx.transport.wsdl is None:
         mtx.acquire()                                    Acquire
         ctx.transport.wsdl = self._wsdl                  Read2
         if ctx.transport.wsdl is None:
             wsdl11.build_interface_document(url)         Build  (or BuildFail)
             ... = self._wsdl = wsdl11.get_interface_document()   GetDoc2 ; Store2
         mtx.release()                                    Release  (finally: also after BuildFail, where
                                                                   start_response(500) precedes it: RespondFail)
     start_response(...); return [wsdl]                   Respond

   The builder publishes its document with one assignment at the very end of
   build_interface_document (deviation PublishEarly: before it is complete).

   C12: "When the first WSDL requests race, every requester receives the same
   complete document, identical to the one a sequential build produces", and
   the lazily built document is built once.                                  *)
EXTENDS Naturals, FiniteSets, Sequences, TLC
CONSTANTS Threads,        \* e.g. {1, 2}
          Deviations,     \* subset of {"StaleStore", "NoLock", "NoSecondCheck", "PublishEarly"}
          MayFail         \* TRUE: the first build attempt may raise

VARIABLES pc, loc, cached, doc, lock, builds, resp, failed
vars == <<pc, loc, cached, doc, lock, builds, resp, failed>>

None == "none"   Whole == "whole"   Partial == "partial"   Err == "500"   Free == 0
Dev(d) == d \in Deviations

Init == /\ pc = [t \in Threads |-> "peek"] /\ loc = [t \in Threads |-> None]
        /\ cached = None /\ doc = None /\ lock = Free /\ builds = 0
        /\ resp = [t \in Threads |-> None] /\ failed = FALSE

Go(t, a, to) == pc[t] = a /\ pc' = [pc EXCEPT ![t] = to]

Peek(t)    == /\ Go(t, "peek", IF cached = None THEN "getdoc1" ELSE "read1")
              /\ UNCHANGED <<loc, cached, doc, lock, builds, resp, failed>>
GetDoc1(t) == /\ Go(t, "getdoc1", IF doc = None /\ ~Dev("StaleStore") THEN "read1" ELSE "store1")
              /\ loc' = [loc EXCEPT ![t] = doc]
              /\ UNCHANGED <<cached, doc, lock, builds, resp, failed>>
Store1(t)  == /\ Go(t, "store1", "read1") /\ cached' = loc[t]
              /\ UNCHANGED <<loc, doc, lock, builds, resp, failed>>
Read1(t)   == /\ Go(t, "read1", IF cached = None THEN "acquire" ELSE "respond")
              /\ loc' = [loc EXCEPT ![t] = cached]
              /\ UNCHANGED <<cached, doc, lock, builds, resp, failed>>
Acquire(t) == /\ (Dev("NoLock") \/ lock = Free) /\ Go(t, "acquire", "read2")
              /\ lock' = (IF Dev("NoLock") THEN lock ELSE t)
              /\ UNCHANGED <<loc, cached, doc, builds, resp, failed>>
Read2(t)   == /\ Go(t, "read2", IF cached = None \/ Dev("NoSecondCheck") THEN "build" ELSE "release")
              /\ loc' = [loc EXCEPT ![t] = cached]
              /\ UNCHANGED <<cached, doc, lock, builds, resp, failed>>
\* the builder's tables are filled, then the document is published in one step
BuildBegin(t) == /\ Go(t, "build", "buildend") /\ builds' = builds + 1
                 /\ doc' = (IF Dev("PublishEarly") THEN Partial ELSE doc)
                 /\ UNCHANGED <<loc, cached, lock, resp, failed>>
BuildEnd(t) == /\ Go(t, "buildend", "getdoc2") /\ doc' = Whole
               /\ UNCHANGED <<loc, cached, lock, builds, resp, failed>>
\* the except arm: wsdl_exception, 500, and the finally releases the lock
BuildFail(t) == /\ MayFail /\ ~failed /\ Go(t, "buildend", "respondfail") /\ failed' = TRUE
                /\ UNCHANGED <<loc, cached, doc, lock, builds, resp>>
GetDoc2(t) == /\ Go(t, "getdoc2", "store2") /\ loc' = [loc EXCEPT ![t] = doc]
              /\ UNCHANGED <<cached, doc, lock, builds, resp, failed>>
Store2(t)  == /\ Go(t, "store2", "release") /\ cached' = loc[t]
              /\ UNCHANGED <<loc, doc, lock, builds, resp, failed>>
Release(t) == /\ Go(t, "release", "respond") /\ lock' = (IF Dev("NoLock") THEN lock ELSE Free)
              /\ UNCHANGED <<loc, cached, doc, builds, resp, failed>>
\* start_response(500) is called inside the except block, i.e. before the finally
RespondFail(t) == /\ Go(t, "respondfail", "releasefail") /\ resp' = [resp EXCEPT ![t] = Err]
                  /\ UNCHANGED <<loc, cached, doc, lock, builds, failed>>
ReleaseFail(t) == /\ Go(t, "releasefail", "done") /\ lock' = (IF Dev("NoLock") THEN lock ELSE Free)
                  /\ UNCHANGED <<loc, cached, doc, builds, resp, failed>>
Respond(t) == /\ Go(t, "respond", "done") /\ resp' = [resp EXCEPT ![t] = loc[t]]
              /\ UNCHANGED <<loc, cached, doc, lock, builds, failed>>

Step(t) == Peek(t) \/ GetDoc1(t) \/ Store1(t) \/ Read1(t) \/ Acquire(t) \/ Read2(t)
           \/ BuildBegin(t) \/ BuildEnd(t) \/ BuildFail(t) \/ GetDoc2(t) \/ Store2(t)
           \/ Release(t) \/ RespondFail(t) \/ ReleaseFail(t) \/ Respond(t)
Next == \E t \in Threads : Step(t)
Spec == Init /\ [][Next]_vars /\ \A t \in Threads : WF_vars(Step(t))

\* ----------------------------------------------------------------- properties
\* successful builds: a failed attempt does not count as "the" build
BuiltOnce   == builds <= (IF failed THEN 2 ELSE 1)
WholeDoc    == \A t \in Threads : pc[t] = "done" => resp[t] \in {Whole, Err}
OnlyFailerGets500 == Cardinality({t \in Threads : resp[t] = Err}) <= 1
CacheSound  == cached \in {None, Whole}
LockHolder  == lock # Free => pc[lock] \in {"read2", "build", "buildend", "getdoc2", "store2", "release", "respondfail", "releasefail"}
LockFreeAtEnd == (\A t \in Threads : pc[t] = "done") => lock = Free
AllRespond  == <>(\A t \in Threads : pc[t] = "done")
\* the state the harness projects from the real objects after every imposed step
View == <<cached # None, builds, lock>>
=============================================================================
