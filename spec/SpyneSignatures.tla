---------------------------- MODULE SpyneSignatures ----------------------------
(* The closed, deterministic family of service signatures and conformant values
   used by the wire-fidelity checks (C01, C02, C03, C06, C16).

   Families are built from TEMPLATES WITH HOLES: a base signature in which one or
   two positions vary over all alternatives (pairwise, not the full product).
   TLC, not the driver, decides what is in the family: the driver instantiates
   each exported case as real Spyne classes and real values.

   Leaf values are given as their canonical XSD text (one spelling per value, see
   SpyneLexical for the lexical layer); the driver builds natives from the text
   with the standard library.                                                  *)
EXTENDS Naturals, Sequences, FiniteSets, TLC

Nil == <<"nil">>
Leaves == {"Integer", "Unicode", "Boolean", "Date", "DateTime", "Double", "Decimal", "Uuid", "ByteArray", "Integer8", "UnsignedInteger16",
           "Time", "Duration"}
TypeName(p) == CASE p = "Integer" -> "integer" [] p = "Unicode" -> "string" [] p = "Boolean" -> "boolean" [] p = "Date" -> "date"
                 [] p = "DateTime" -> "dateTime" [] p = "Double" -> "double" [] p = "Decimal" -> "decimal" [] p = "Uuid" -> "uuid"
                 [] p = "ByteArray" -> "base64Binary" [] p = "Integer8" -> "byte" [] p = "UnsignedInteger16" -> "unsignedShort"
                 [] p = "Time" -> "time" [] p = "Duration" -> "duration"
\* two conformant values per leaf type (boundary-flavoured), as canonical text
LeafVals(p) ==
  CASE p = "Integer" -> {"5", "-123456789012345678901234567890"} [] p = "Unicode" -> {"hello", "x < y & z"}
    [] p = "Boolean" -> {"true", "false"} [] p = "Date" -> {"2020-02-29", "1999-12-31"}
    [] p = "DateTime" -> {"2020-02-29T23:59:58+00:00", "1999-12-31T00:00:00.500000-04:30"}
    [] p = "Double" -> {"1.5", "-0.25"} [] p = "Decimal" -> {"1.5", "-100.25"}
    [] p = "Uuid" -> {"12345678-1234-1234-1234-123456789abc", "00000000-0000-0000-0000-000000000000"}
    [] p = "ByteArray" -> {"AAEC", "SGVsbG8="} [] p = "Integer8" -> {"-128", "127"} [] p = "UnsignedInteger16" -> {"0", "65535"}
    [] p = "Time" -> {"23:59:58", "00:00:00.500000"} [] p = "Duration" -> {"P1DT2S", "PT2H3M"}
Prim(p) == [k |-> "prim", p |-> p]
NoBase == [k |-> "none"]
Obj(name, ns, fields) == [k |-> "obj", name |-> name, ns |-> ns, fields |-> fields, hasbase |-> FALSE, base |-> NoBase, subs |-> <<>>]
Sub(name, ns, fields, base) == [k |-> "obj", name |-> name, ns |-> ns, fields |-> fields, hasbase |-> TRUE, base |-> base, subs |-> <<>>]
\* the PUBLIC type name of a class (two classes in different namespaces may share it; `name` identifies the class in this model)
TN(t) == IF "tname" \in DOMAIN t THEN t.tname ELSE t.name
WithTN(t, tn) == [k \in DOMAIN t \cup {"tname"} |-> IF k = "tname" THEN tn ELSE t[k]]
ItemOf(t) == IF t.k = "prim" THEN TypeName(t.p) ELSE TN(t)
Arr(t) == [k |-> "arr", of |-> t, item |-> ItemOf(t), itemns |-> IF t.k = "prim" /\ t.p = "Uuid" THEN "http://spyne.io/schema" ELSE ""]
Attr(t) == [k |-> "attr", of |-> t]
F(n, t, min, max) == [n |-> n, t |-> t, min |-> min, max |-> max]
Occ == {<<0, 1>>, <<1, 1>>, <<0, 99>>, <<1, 2>>, <<2, 3>>}       \* <<min_occurs, max_occurs>> (99 = unbounded)

Leaf(x) == <<"leaf", x>>
SeqV(s) == <<"seq", s>>
ObjV(cls, vals) == <<"obj", cls, vals>>
\* conformant values of a member with type t and occurrence o
LeafChoices(p, o) == {Leaf(x) : x \in LeafVals(p)} \cup (IF o[1] = 0 THEN {Nil} ELSE {})
PairOf(S) == {<<a, b>> : a \in S, b \in S}
SeqChoices(p, o) ==     \* repeated member: 0 (only if min = 0), 1 or 2 items
  LET xs == {Leaf(x) : x \in LeafVals(p)} IN
  (IF o[1] = 0 THEN {Nil} ELSE {}) \cup (IF o[1] <= 1 THEN {SeqV(<<a>>) : a \in xs} ELSE {}) \cup {SeqV(<<p2[1], p2[2]>>) : p2 \in PairOf(xs)}
  \cup (IF o[2] >= 3 /\ o[1] >= 2 THEN {SeqV(<<a, a, a>>) : a \in xs} ELSE {})
MemberChoices(p, o) == IF o[2] > 1 THEN SeqChoices(p, o) ELSE LeafChoices(p, o)

\* a REQUEST may spell a leaf in any way the lexical space allows (SpyneLexical): the cases send
\* these variants; what the function receives and what the response carries is the value itself
ReqLit(p, x) ==
  CASE p = "DateTime" /\ x = "2020-02-29T23:59:58+00:00" -> "2020-02-29T23:59:58Z"
    [] p = "DateTime" /\ x = "1999-12-31T00:00:00.500000-04:30" -> "1999-12-31T00:00:00.5-04:30"
    [] p = "Double" /\ x = "1.5" -> "1.5E0" [] p = "Double" /\ x = "-0.25" -> "-.25"
    [] p = "Decimal" /\ x = "1.5" -> "+1.50" [] p = "Integer" /\ x = "5" -> "+5" [] p = "Integer8" /\ x = "127" -> "+0127"
    [] p = "Boolean" /\ x = "true" -> "1" [] p = "Boolean" /\ x = "false" -> "0"
    [] p = "Uuid" /\ x = "12345678-1234-1234-1234-123456789abc" -> "12345678-1234-1234-1234-123456789ABC"
    [] OTHER -> x
RECURSIVE SpellV(_, _), FlatF(_), FindSub(_, _)
FlatF(t) == (IF t.hasbase THEN FlatF(t.base) ELSE <<>>) \o t.fields
\* the class of an object value: the declared one or a registered subclass of it (SpynePolyCases)
FindSub(subs, name) == IF subs = <<>> THEN [k |-> "none"] ELSE IF Head(subs).name = name THEN Head(subs) ELSE FindSub(Tail(subs), name)
RuntimeT(t, v) == IF v[2] = t.name THEN t ELSE LET r == FindSub(t.subs, v[2]) IN IF r.k = "none" THEN t ELSE r
SpellV(t, v) ==
  IF v = Nil THEN Nil
  ELSE IF v[1] = "seq" THEN <<"seq", [k \in 1..Len(v[2]) |-> SpellV(IF t.k = "arr" THEN t.of ELSE t, v[2][k])]>>
  ELSE IF t.k = "prim" THEN <<"leaf", ReqLit(t.p, v[2])>>
  ELSE IF t.k = "attr" THEN <<"leaf", ReqLit(t.of.p, v[2])>>
  ELSE IF t.k = "obj" THEN <<"obj", v[2], [k \in 1..Len(v[3]) |-> SpellV(FlatF(RuntimeT(t, v))[k].t, v[3][k])]>>
  ELSE v
Case(id, style, args, vals, rets, rvals) ==
  [id |-> id, tns |-> "tns", method |-> "f", style |-> style, args |-> args, vals |-> vals,
   reqvals |-> [k \in 1..Len(vals) |-> SpellV(args[k].t, vals[k])],
   inh |-> <<>>, inhvals |-> <<>>, outh |-> <<>>, outhvals |-> <<>>,        \* SOAP headers (T9)
   rets |-> rets, rmin |-> [i \in 1..Len(rets) |-> 0], rmax |-> [i \in 1..Len(rets) |-> 1], rvals |-> rvals, poly |-> FALSE]

\* T1: one leaf argument with every occurrence choice; the value is echoed back (single occurrence)
T1 == UNION {UNION {{Case("T1", "wrapped", <<F("a", Prim(p), o[1], o[2])>>, <<v>>,
                          <<Prim(p)>>, <<IF v = Nil THEN Nil ELSE IF v[1] = "seq" THEN v[2][1] ELSE v>>) :
                       v \in MemberChoices(p, o)} : o \in Occ} : p \in Leaves}
\* T2: a complex argument C{x: p1 (o), y: p2 (1,1), z: Integer (0,1)} in the target / a foreign namespace, echoed
C2(p1, o, p2, ns) == Obj("C", ns, <<F("x", Prim(p1), o[1], o[2]), F("y", Prim(p2), 1, 1), F("z", Prim("Integer"), 0, 1)>>)
Pairs2 == {<<p, "Unicode">> : p \in Leaves} \cup {<<"Integer", p>> : p \in Leaves}
T2 == UNION {UNION {UNION {{Case("T2", "wrapped", <<F("c", C2(pp[1], o, pp[2], ns), 0, 1)>>,
                                 <<ObjV("C", <<vx, Leaf(CHOOSE y \in LeafVals(pp[2]) : TRUE), vz>>)>>,
                                 <<C2(pp[1], o, pp[2], ns)>>,
                                 <<ObjV("C", <<vx, Leaf(CHOOSE y \in LeafVals(pp[2]) : TRUE), vz>>)>>) :
                               vx \in MemberChoices(pp[1], o), vz \in {Nil, Leaf("7")}} : ns \in {"tns", "urn:other"}} : o \in Occ} : pp \in Pairs2}
\* T3: wrapped arrays of leaves, of length 0..2, as argument and as return value
ArrVals(p) == LET xs == {Leaf(x) : x \in LeafVals(p)} IN
              {SeqV(<<>>)} \cup {SeqV(<<a>>) : a \in xs} \cup {SeqV(<<q[1], q[2]>>) : q \in PairOf(xs)}
T3 == UNION {{Case("T3", "wrapped", <<F("a", Arr(Prim(p)), 0, 1)>>, <<v>>, <<Arr(Prim(p))>>, <<v>>) : v \in ArrVals(p) \cup {Nil}} : p \in Leaves}
\* T3b: an array ITEM that is nil: it keeps its place (an xsi:nil item), the items after it keep their indexes
T3bV(p) == LET x == CHOOSE y \in LeafVals(p) : TRUE IN {SeqV(<<Leaf(x), Nil, Leaf(x), Nil>>), SeqV(<<Nil>>)}
T3b == UNION {{Case("T3", "wrapped", <<F("a", Arr(Prim(p)), 0, 1)>>, <<v>>, <<Arr(Prim(p))>>, <<v>>) : v \in T3bV(p)} : p \in {"Integer", "Unicode"}}
\* T4: arrays of objects, objects holding arrays, nesting across two namespaces
D4 == Obj("D", "urn:other", <<F("i", Prim("Integer"), 0, 1), F("s", Prim("Unicode"), 1, 1)>>)
C4 == Obj("C", "tns", <<F("d", D4, 0, 1), F("ds", Arr(D4), 0, 1), F("m", D4, 0, 99), F("n", Prim("Integer"), 0, 1)>>)
Dv(i, s) == ObjV("D", <<i, Leaf(s)>>)
DVals == {Dv(Nil, "p"), Dv(Leaf("1"), "q")}
C4Vals == {ObjV("C", <<d, ds, m, n>>) : d \in DVals \cup {Nil},
                                        ds \in {Nil, SeqV(<<>>), SeqV(<<Dv(Leaf("1"), "q")>>), SeqV(<<Dv(Nil, "p"), Dv(Leaf("1"), "q")>>)},
                                        m \in {Nil, SeqV(<<Dv(Leaf("1"), "q")>>), SeqV(<<Dv(Nil, "p"), Dv(Leaf("1"), "q")>>)},
                                        n \in {Nil, Leaf("9")}}
T4 == {Case("T4", "wrapped", <<F("c", C4, 0, 1)>>, <<v>>, <<C4>>, <<v>>) : v \in C4Vals}
      \cup {Case("T4", "wrapped", <<F("a", Arr(C4), 0, 1)>>, <<SeqV(<<v>>)>>, <<Arr(C4)>>, <<SeqV(<<v>>)>>) :
               v \in {ObjV("C", <<Dv(Leaf("1"), "q"), Nil, Nil, Leaf("9")>>), ObjV("C", <<Nil, SeqV(<<Dv(Nil, "p")>>), SeqV(<<Dv(Nil, "p")>>), Nil>>)}}
      \cup {Case("T4", "wrapped", <<F("a", Arr(D4), 0, 1)>>, <<SeqV(<<Dv(Leaf("1"), "q"), Nil, Dv(Nil, "p")>>)>>, <<Arr(D4)>>, <<SeqV(<<Dv(Nil, "p"), Nil, Dv(Leaf("1"), "q")>>)>>)}
\* T5: inheritance - B(A) writes A's fields first, each in the namespace of its declaring class
A5 == Obj("A", "tns", <<F("a1", Prim("Integer"), 0, 1), F("a2", Prim("Unicode"), 0, 1)>>)
B5 == Sub("B", "urn:other", <<F("b1", Prim("Boolean"), 0, 1)>>, A5)
G5 == Sub("G", "tns", <<F("g1", Prim("Date"), 0, 1)>>, B5)
T5 == {Case("T5", "wrapped", <<F("o", t, 0, 1)>>, <<v>>, <<t>>, <<v>>) :
         t \in {B5}, v \in {ObjV("B", <<a1, a2, b1>>) : a1 \in {Nil, Leaf("5")}, a2 \in {Nil, Leaf("hello")}, b1 \in {Nil, Leaf("true")}}}
      \cup {Case("T5", "wrapped", <<F("o", G5, 0, 1)>>, <<v>>, <<G5>>, <<v>>) :
         v \in {ObjV("G", <<a1, Leaf("hello"), b1, g1>>) : a1 \in {Nil, Leaf("5")}, b1 \in {Nil, Leaf("false")}, g1 \in {Nil, Leaf("2020-02-29")}}}
\* T6: XML attributes next to elements
C6(p) == Obj("C", "tns", <<F("x", Attr(Prim(p)), 0, 1), F("y", Prim("Unicode"), 0, 1), F("w", Attr(Prim("Integer")), 0, 1)>>)
T6 == UNION {{Case("T6", "wrapped", <<F("c", C6(p), 0, 1)>>, <<v>>, <<C6(p)>>, <<v>>) :
                 v \in {ObjV("C", <<x, y, w>>) : x \in LeafChoices(p, <<0, 1>>), y \in {Nil, Leaf("hello")}, w \in {Nil, Leaf("7")}}} :
                   p \in {"Integer", "Unicode", "Boolean", "Date", "Double", "Uuid"}}
\* ... an attribute that happens to be called href (SOAP 1.1 multi-reference encoding gives that name a meaning only
\* when the envelope also carries id attributes) next to a child element
L6 == Obj("Link", "tns", <<F("href", Attr(Prim("Unicode")), 0, 1), F("title", Prim("Unicode"), 0, 1)>>)
T6b == {Case("T6", "wrapped", <<F("l", L6, 0, 1)>>, <<v>>, <<L6>>, <<v>>) :
          v \in {ObjV("Link", <<h, t>>) : h \in {Nil, Leaf("hello"), Leaf("x < y & z")}, t \in {Nil, Leaf("hello")}}}
\* T6d: a parent and its child element BOTH declare an attribute of the same name: each element's attributes are its own
Leaf6 == Obj("Leaf", "tns", <<F("id", Attr(Prim("Unicode")), 0, 1), F("v", Prim("Unicode"), 0, 1)>>)
Node6 == Obj("Node", "tns", <<F("id", Attr(Prim("Unicode")), 0, 1), F("leaf", Leaf6, 0, 1), F("n", Prim("Integer"), 0, 1)>>)
T6d == {Case("T6", "wrapped", <<F("c", Node6, 0, 1)>>, <<v>>, <<Node6>>, <<v>>) :
          v \in {ObjV("Node", <<pid, ObjV("Leaf", <<lid, Leaf("hello")>>), Leaf("5")>>) : pid \in {Nil, Leaf("P1")}, lid \in {Nil, Leaf("L1")}}}
\* T6c: members whose TYPE declares a default value, holding values that are falsy in the implementation language (false, 0, the
\* empty string) and ordinary ones: a value that is present is written as it is - the default stands in for absent values only
PrimD(p, d) == [k |-> "prim", p |-> p, dflt |-> d]
C6c == Obj("Defaults", "tns", <<F("b", PrimD("Boolean", "true"), 0, 1), F("i", PrimD("Integer", "3"), 0, 1), F("s", PrimD("Unicode", "untitled"), 0, 1)>>)
T6c == {Case("T6", "wrapped", <<F("c", C6c, 0, 1)>>, <<v>>, <<C6c>>, <<v>>) :
          v \in {ObjV("Defaults", <<Leaf(b), Leaf(i), Leaf(st)>>) : b \in {"true", "false"}, i \in {"0", "5"}, st \in {"hello", ""}}}
         \cup {Case("T6", "out_bare", <<F("a", Prim("Integer"), 0, 1)>>, <<Leaf("5")>>, <<PrimD("Integer", "3")>>, <<Leaf(x)>>) : x \in {"0", "5"}}
\* T7: several arguments, several return values, no return value, no argument
T7 == {Case("T7", "wrapped", <<F("a", Prim("Integer"), 0, 1), F("b", Prim("Unicode"), 0, 1), F("c", Prim("Boolean"), 0, 1)>>, <<a, b, c>>,
            <<Prim("Unicode"), Prim("Integer")>>, <<b, a>>) :
          a \in {Nil, Leaf("5")}, b \in {Nil, Leaf("hello")}, c \in {Nil, Leaf("true")}}
      \cup {Case("T7", "wrapped", <<F("a", Prim("Integer"), 0, 1)>>, <<Leaf("5")>>, <<Prim("Integer"), Prim("Integer"), Prim("Unicode")>>,
                 <<Leaf("5"), Nil, Leaf("hello")>>),
            Case("T7", "wrapped", <<>>, <<>>, <<Prim("Integer")>>, <<Leaf("5")>>),
            Case("T7", "wrapped", <<F("a", Prim("Integer"), 0, 1)>>, <<Leaf("5")>>, <<>>, <<>>)}
\* T8: bare styles - the single complex argument / return value IS the message
C8 == Obj("C8", "tns", <<F("i", Prim("Integer"), 0, 1), F("s", Prim("Unicode"), 0, 1)>>)
T8 == {Case("T8", "bare", <<F("c", C8, 1, 1)>>, <<v>>, <<C8>>, <<v>>) : v \in {ObjV("C8", <<i, s>>) : i \in {Nil, Leaf("5")}, s \in {Nil, Leaf("hello")}}}
      \cup {Case("T8", "out_bare", <<F("a", Prim("Integer"), 0, 1), F("b", Prim("Unicode"), 0, 1)>>, <<Leaf("5"), Leaf("hello")>>, <<Prim(p)>>,
                  <<Leaf(CHOOSE y \in LeafVals(p) : TRUE)>>) : p \in {"Integer", "Unicode", "Double", "Date"}}
      \cup {Case("T8", "out_bare", <<F("a", Prim("Integer"), 0, 1)>>, <<Leaf("5")>>, <<C8>>, <<ObjV("C8", <<Leaf("5"), Leaf("hello")>>)>>)}

\* T9: SOAP headers - two declared request headers and two declared response headers, each of
\* which may be absent; headers are written in declaration order, absent ones are skipped
H1 == Obj("Session", "tns", <<F("id", Prim("Unicode"), 0, 1)>>)
H2 == Obj("Quota", "urn:other", <<F("left", Prim("Integer"), 0, 1), F("unit", Prim("Unicode"), 0, 1)>>)
H1Vals == {Nil, ObjV("Session", <<Leaf("s-1")>>)}
H2Vals == {Nil, ObjV("Quota", <<Leaf("5"), Leaf("MB")>>), ObjV("Quota", <<Nil, Leaf("MB")>>)}
T9 == {[Case("T9", "wrapped", <<F("a", Prim("Integer"), 0, 1)>>, <<Leaf("5")>>, <<Prim("Integer")>>, <<Leaf("5")>>)
          EXCEPT !.inh = <<H1, H2>>, !.inhvals = <<i1, i2>>, !.outh = <<H1, H2>>, !.outhvals = <<o1, o2>>] :
             i1 \in H1Vals, i2 \in H2Vals, o1 \in H1Vals, o2 \in H2Vals}

\* T10: members of type AnyXml: the value is an XML TREE of the application's own making, carried as it is (named trees, spelled
\* out in SpyneXmlDoc.TreeToks): elements in a namespace of their own, and - the usual way property bags type their values - xsi:type
\* markers naming XML Schema types through a prefix that NOTHING ELSE in the document uses.  What a marker denotes (the namespace
\* its prefix is bound to) is part of the value.  Not part of Cases (the dict protocols and the schema-driven client have no tree
\* type): exported as the family "any".
AnyT == [k |-> "any", name |-> "anyType"]
XmlV(n) == <<"xml", n>>
\* typed_xsd: the marker's prefix (xsd) is bound to a namespace that a SOAP envelope declares under ANOTHER prefix
TreeNames == {"plain", "typed_int", "typed_bag", "typed_xsd"}
\* shared: user code returns ONE tree object wherever the value occurs (twice in one array)
SharedTrees(c) == [x \in DOMAIN c \cup {"shared"} |-> IF x = "shared" THEN TRUE ELSE c[x]]
Bag10 == Obj("Bag", "tns", <<F("label", Prim("Unicode"), 0, 1), F("x", AnyT, 0, 1)>>)
T10 == {Case("T10", "wrapped", <<F("x", AnyT, 0, 1), F("n", Prim("Integer"), 0, 1)>>, <<XmlV(a), Leaf("5")>>, <<AnyT>>, <<XmlV(r)>>) : a \in TreeNames, r \in TreeNames}
       \cup {Case("T10", "wrapped", <<F("b", Bag10, 0, 1)>>, <<ObjV("Bag", <<Leaf("hello"), XmlV(a)>>)>>, <<Bag10>>, <<ObjV("Bag", <<Nil, XmlV(a)>>)>>) : a \in TreeNames}
       \cup {Case("T10", "wrapped", <<F("n", Prim("Integer"), 0, 1)>>, <<Leaf("5")>>, <<Prim("Integer"), AnyT>>, <<Leaf("5"), XmlV(r)>>) : r \in TreeNames}
T10b == {SharedTrees(Case("T10", "wrapped", <<F("n", Prim("Integer"), 0, 1)>>, <<Leaf("5")>>, <<Arr(AnyT)>>, <<SeqV(<<XmlV(r), XmlV(r), XmlV("plain")>>)>>)) : r \in {"typed_bag", "plain"}}
AnyCases == T10 \cup T10b

Cases == T9 \cup T1 \cup T2 \cup T3 \cup T3b \cup T4 \cup T5 \cup T6 \cup T6b \cup T6c \cup T6d \cup T7 \cup T8
=============================================================================
