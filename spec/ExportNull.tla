---- MODULE ExportNull ----
EXTENDS SpyneNull, Json, IOUtils, SequencesExt
ASSUME TableLaw
ASSUME JsonSerialize(IOEnv.OUT_FILE, [cases |-> SetToSeq({[style |-> c.style, ret |-> c.ret, modes |-> c.modes, rename |-> c.rename, dflt |-> c.dflt, aux |-> c.aux, narrow |-> c.narrow, ostr |-> c.ostr] : c \in (IF IOEnv.FAMILY = "thorough" THEN CasesThorough ELSE Cases)}),
                                      histories |-> SetToSeq(Histories)])
VARIABLE x
Init == x = 0
Next == UNCHANGED x
====
