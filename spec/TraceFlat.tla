---- MODULE TraceFlat ----
(* C03, M3/M4: each record is one real HttpRpc exchange: the pairs sent (in sending order), what the
   function received; or (kind = "ret") the body and headers of a primitive response; or (kind = "o2d")
   the flat form Spyne itself produced for the value and what it read back from it. *)
EXTENDS SpyneFlat, Json, IOUtils
X == INSTANCE SpyneXmlDoc
TraceLog == ndJsonDeserialize(IOEnv.TRACE_FILE)
VARIABLE tid
R(t) == TraceLog[t]
C(t) == R(t).c
AsTuples(s) == [k \in 1..Len(s) |-> <<s[k][1], s[k][2]>>]
ReqIsSpec(t) == AsTuples(R(t).obs.pairs) = Pairs(C(t), R(t).cfg)
OrderIsPerm(t) == IsPerm(Pairs(C(t), R(t).cfg), Canon(C(t), R(t).cfg))
Delivered(t) == R(t).obs.ncalls = 1 /\ X!NormArgs(C(t), R(t).obs.args) = X!NormArgs(C(t), C(t).vals)
\* Spyne's own flat form of the value: the canonical pairs with contiguous indexes, as a bag
OwnFlatIsSpec(t) == IsPerm(AsTuples(R(t).obs.own), Canon(C(t), [R(t).cfg EXCEPT !.idx = "contig"]))
OwnFlatReadsBack(t) == X!NormArgs(C(t), R(t).obs.back) = X!NormArgs(C(t), C(t).vals)
ExactText(t) == R(t).obs.status = 200 /\ R(t).obs.body = C(t).rvals[1][2]
HeadersSent(t) == \A k \in 1..Len(R(t).obs.want_headers) : \E j \in 1..Len(R(t).obs.headers) :
                      R(t).obs.headers[j][1] = R(t).obs.want_headers[k][1] /\ R(t).obs.headers[j][2] = R(t).obs.want_headers[k][2]
Fails(t) == IF R(t).kind = "req" THEN (IF ReqIsSpec(t) THEN {} ELSE {"ReqIsSpec"}) \cup (IF OrderIsPerm(t) THEN {} ELSE {"OrderIsPerm"})
                                        \cup (IF Delivered(t) THEN {} ELSE {"Delivered"})
            ELSE IF R(t).kind = "o2d" THEN (IF OwnFlatIsSpec(t) THEN {} ELSE {"OwnFlatIsSpec"}) \cup (IF OwnFlatReadsBack(t) THEN {} ELSE {"OwnFlatReadsBack"})
            ELSE (IF ExactText(t) THEN {} ELSE {"ExactText"}) \cup (IF HeadersSent(t) THEN {} ELSE {"HeadersSent"})
Init == tid \in 1..Len(TraceLog)
Next == UNCHANGED tid
Report == PrintT(<<"V", tid, Fails(tid)>>)
====
