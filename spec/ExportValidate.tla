---- MODULE ExportValidate ----
EXTENDS SpyneValidate, Json, IOUtils, SequencesExt
ASSUME Effective
ASSUME OffsetFree
ASSUME JsonSerialize(IOEnv.OUT_FILE, [cases |-> SetToSeq(IF IOEnv.FAMILY = "thorough" THEN Cases \cup CasesMore ELSE Cases), outcases |-> SetToSeq(OutCases), positions |-> SetToSeq(Positions),
                                       families |-> SetToSeq(Families), textfamilies |-> SetToSeq(TextFamilies)])
VARIABLE x
Init == x = 0
Next == UNCHANGED x
====
