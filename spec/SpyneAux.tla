-------------------------------- MODULE SpyneAux --------------------------------
(* X02 (beyond the listed properties): auxiliary methods (spyne/auxproc, SyncAuxProc).

   A request names a method; besides the PRIMARY service, auxiliary services that define a
   function of the same name run it too - after the primary response has been produced
   and handed to the transport (start_response), in the order the services are listed,
   each in a context of its own; when the primary call ended in a fault only the auxiliary
   services created with process_exceptions = TRUE run; whatever an auxiliary function does
   (returns, raises a Fault, raises anything else) the primary response is what it would be
   without auxiliary services; and every auxiliary context that was processed is closed
   exactly once.

   The machine: one action per step of WsgiApplication.handle_rpc / handle_error and
   auxproc.process_contexts; the history variable `ev` is what listeners and the recording
   start_response observe.                                                             *)
EXTENDS Naturals, Sequences, FiniteSets, TLC

CONSTANTS Deviations        \* {"AuxBeforeResponse"}: auxiliary contexts processed before start_response
AuxOut == {"ok", "fault", "exc"}
Aux(px, out) == [px |-> px, out |-> out]
AuxLists == {<<>>} \cup {<<a>> : a \in [px : BOOLEAN, out : AuxOut]} \cup {<<a, b>> : a \in [px : BOOLEAN, out : AuxOut], b \in [px : BOOLEAN, out : AuxOut]}
Scenarios == [po : {"ok", "fault"}, aux : AuxLists]

VARIABLES sc, pc, k, ev
vars == <<sc, pc, k, ev>>
Emit(e) == ev' = Append(ev, e)
Init == sc \in Scenarios /\ pc = "primary" /\ k = 1 /\ ev = <<>>
Primary == /\ pc = "primary" /\ Emit(<<"fn", "primary">>)
           /\ pc' = (IF "AuxBeforeResponse" \in Deviations THEN "aux" ELSE "respond") /\ UNCHANGED <<sc, k>>
Respond == /\ pc = "respond" /\ Emit(<<"sr", IF sc.po = "ok" THEN 200 ELSE 500>>)
           /\ pc' = (IF "AuxBeforeResponse" \in Deviations THEN "body" ELSE "aux") /\ UNCHANGED <<sc, k>>
Runs(a) == sc.po = "ok" \/ a.px
AuxStep == /\ pc = "aux" /\ k <= Len(sc.aux)
           /\ IF Runs(sc.aux[k])
                THEN ev' = ev \o << <<"fn", "aux", k>>, <<"closed", "aux", k>> >>       \* closed whatever the outcome
                ELSE UNCHANGED ev
           /\ k' = k + 1 /\ UNCHANGED <<sc, pc>>
AuxDone == /\ pc = "aux" /\ k > Len(sc.aux)
           /\ pc' = (IF "AuxBeforeResponse" \in Deviations THEN "respond" ELSE "body") /\ UNCHANGED <<sc, k, ev>>
Body == /\ pc = "body" /\ ev' = ev \o << <<"body">>, <<"closed", "primary">> >> /\ pc' = "done" /\ UNCHANGED <<sc, k>>
Done == pc = "done" /\ UNCHANGED vars
Next == Primary \/ Respond \/ AuxStep \/ AuxDone \/ Body \/ Done
Spec == Init /\ [][Next]_vars

\* ---- properties (over the history; also evaluated by TLC on histories recorded from the real code)
Idx(h) == 1..Len(h)
Pos(h, e) == CHOOSE i \in Idx(h) : h[i] = e
Has(h, e) == \E i \in Idx(h) : h[i] = e
AuxAfterResponse(h) == \A i \in Idx(h) : (h[i][1] = "fn" /\ h[i][2] = "aux") => \E j \in 1..(i - 1) : h[j][1] = "sr"
AuxInOrder(h) == \A i, j \in Idx(h) : (i < j /\ h[i][1] = "fn" /\ h[i][2] = "aux" /\ h[j][1] = "fn" /\ h[j][2] = "aux") => h[i][3] < h[j][3]
AuxRunsIffDue(s, h) == \A n \in 1..Len(s.aux) : Has(h, <<"fn", "aux", n>>) <=> (s.po = "ok" \/ s.aux[n].px)
AuxAtMostOnce(h) == \A i, j \in Idx(h) : (h[i] = h[j] /\ h[i][1] = "fn") => i = j
PrimaryUnaffected(s, h) == /\ Has(h, <<"sr", IF s.po = "ok" THEN 200 ELSE 500>>) /\ Has(h, <<"body">>)
                           /\ Cardinality({i \in Idx(h) : h[i][1] = "sr"}) = 1
                           /\ Cardinality({i \in Idx(h) : h[i] = <<"closed", "primary">>}) = 1
\* every auxiliary context that was processed is closed exactly once
AuxClosedOnce(h) == \A n \in 1..2 : Cardinality({i \in Idx(h) : h[i] = <<"closed", "aux", n>>}) <= 1
AuxClosedIfRan(s, h) == \A n \in 1..Len(s.aux) : Has(h, <<"fn", "aux", n>>) => Has(h, <<"closed", "aux", n>>)
InvAll == pc = "done" => /\ AuxAfterResponse(ev) /\ AuxInOrder(ev) /\ AuxRunsIffDue(sc, ev) /\ AuxAtMostOnce(ev)
                         /\ PrimaryUnaffected(sc, ev) /\ AuxClosedOnce(ev) /\ AuxClosedIfRan(sc, ev)
InvAfterResponse == AuxAfterResponse(ev)
=============================================================================
