SPECIFICATION Spec
CONSTANT Idx = {0, 1, 2, 10, 11}
CONSTANT Deviations = {}
INVARIANT RankInv
INVARIANT OrderInv
INVARIANT MapInv
CHECK_DEADLOCK FALSE
