---- MODULE ExportXmlAttack ----
EXTENDS SpyneXmlAttack, Json, IOUtils, SequencesExt
\* behaviours of part 1 as scripts: every order of up to MaxInst constructions, then one request to each instance
Scripts == UNION {{[creates |-> cs, serve |-> [inst |-> i, kind |-> k]] : i \in 1..n, k \in {"ext_general_file", "ext_dtd_file", "nest_300"}, cs \in [1..n -> BOOLEAN]} : n \in 1..MaxInst}
Expect(s) == [relaxed |-> s.creates[s.serve.inst], succeeds |-> Resolves(IF s.creates[s.serve.inst] THEN Relaxed ELSE Default, s.serve.kind)]
ASSUME JsonSerialize(IOEnv.OUT_FILE, [attacks |-> SetToSeq(IF IOEnv.FAMILY = "thorough" THEN AttacksMore ELSE Attacks), scripts |-> SetToSeq({[s |-> x, expect |-> Expect(x)] : x \in Scripts})])
Init0 == insts = <<>> /\ shared = Default /\ served = {}
Next0 == UNCHANGED vars
====
