---------------------------- MODULE TracePipeline ----------------------------
(* M3, exact conformance: is the recorded merged history of a call a behaviour of
   SpynePipeline for the scenario the driver built?  Reuses the module's actions;
   every step must extend a prefix of the observation.                          *)
EXTENDS SpynePipeline, Json, IOUtils, SequencesExt
TraceLog == ndJsonDeserialize(IOEnv.TRACE_FILE)
VARIABLE tid
Obs(t) == TraceLog[t].obs
TInit ==
  /\ \E t \in 1..Len(TraceLog) :
       /\ tid = t
       /\ LET s == TraceLog[t].scen IN
            cfg = s.cfg /\ req = s.req /\ inj = s.inj /\ abort = s.abort
  /\ pc = "new" /\ ev = <<>> /\ fnRuns = 0 /\ fnOk = FALSE
  /\ inErr = NoFault /\ outErr = NoFault /\ bound = FALSE
  /\ sr = 0 /\ status = 0 /\ clen = Absent /\ handed = FALSE /\ chunks = 0
  /\ closed = 0 /\ wclosed = 0 /\ nread = 0
TNext == Next /\ UNCHANGED tid /\ IsPrefix(ev', Obs(tid))
TSpec == TInit /\ [][TNext]_<<vars, tid>>
\* evaluated on every reachable state: a trace is accepted when the model can
\* reach a final state having produced exactly the observation
Report == (pc \in {"done", "crashed"} /\ ev = Obs(tid)
           /\ (pc = "done" => status = TraceLog[tid].k.status \/ cfg.tr = "base")
           \* fault codes of transport/protocol-raised faults are compared by family only
           /\ (outErr = NoFault) = (TraceLog[tid].k.code = <<>>)
           /\ IsClient(outErr) = IsClient(TraceLog[tid].k.code))
             => PrintT(<<"ACCEPT", tid>>)
\* diagnostics for a rejected trace: longest matched prefix
Progress == PrintT(<<"AT", tid, Len(ev), pc>>)
=============================================================================
