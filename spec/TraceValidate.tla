---- MODULE TraceValidate ----
(* M4: Verdict(case, observation) evaluated by TLC for every request sent *)
EXTENDS Naturals, Sequences, TLC, Json, IOUtils
TraceLog == ndJsonDeserialize(IOEnv.TRACE_FILE)
VARIABLE tid
R(t) == TraceLog[t]
\* accepted <=> the user function ran; rejected => a Client-family fault and no user code
Verdict(t) == IF R(t).valid THEN R(t).obs.ran /\ ~R(t).obs.fault
              ELSE ~R(t).obs.ran /\ R(t).obs.fault /\ R(t).obs.client
\* C06: the schema validator reaches the same verdict as the soft validator (and as Valid)
SchemaAgrees(t) == "lxml" \notin DOMAIN R(t).obs \/ R(t).obs.lxml = R(t).valid
Fails(t) == (IF Verdict(t) THEN {} ELSE {IF R(t).valid THEN "RejectedValid" ELSE "AcceptedInvalid"})
            \cup (IF SchemaAgrees(t) THEN {} ELSE {"SchemaDisagrees"})
Init == tid \in 1..Len(TraceLog)
Next == UNCHANGED tid
Report == PrintT(<<"V", tid, Fails(tid)>>)
====
