---- MODULE TraceValidate ----
(* M4: Verdict(case, observation) evaluated by TLC for every request sent *)
EXTENDS Naturals, Sequences, TLC, Json, IOUtils
TraceLog == ndJsonDeserialize(IOEnv.TRACE_FILE)
VARIABLE tid
R(t) == TraceLog[t]
\* accepted <=> the user function ran; rejected => a Client-family fault and no user code
Verdict(t) == IF "ran" \notin DOMAIN R(t).obs THEN TRUE ELSE IF R(t).valid THEN R(t).obs.ran /\ ~R(t).obs.fault
              ELSE ~R(t).obs.ran /\ R(t).obs.fault /\ R(t).obs.client
\* C06: the schema validator reaches the same verdict as the soft validator (and as Valid)
SchemaAgrees(t) == "lxml" \notin DOMAIN R(t).obs \/ R(t).obs.lxml = R(t).valid
\* ... and as the soft validator on the same request (for every constraint both implement)
ValidatorsAgree(t) == "lxml" \notin DOMAIN R(t).obs \/ R(t).obs.lxml = R(t).obs.ran
\* C06: what Spyne wrote for a conformant value is valid against the schema it publishes
EmittedOk(t) == "emitted" \notin DOMAIN R(t).obs \/ R(t).obs.emitted
Fails(t) == (IF Verdict(t) THEN {} ELSE {IF R(t).valid THEN "RejectedValid" ELSE "AcceptedInvalid"})
            \cup (IF SchemaAgrees(t) THEN {} ELSE {"SchemaDisagrees"}) \cup (IF EmittedOk(t) THEN {} ELSE {"EmittedInvalid"})
            \cup (IF ValidatorsAgree(t) THEN {} ELSE {"ValidatorsDisagree"})
Init == tid \in 1..Len(TraceLog)
Next == UNCHANGED tid
Report == PrintT(<<"V", tid, Fails(tid)>>)
====
