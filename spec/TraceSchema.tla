---- MODULE TraceSchema ----
(* C06: the schemas a real application publishes for universe R(t).u, judged with the closed
   forms of SpyneSchema (proved equal to the add_class walk by TLC, MCSchema.cfg) *)
EXTENDS Naturals, Sequences, FiniteSets, TLC, Json, IOUtils
CONSTANTS Deviations
VARIABLES u, stack, reg, imports
S == INSTANCE SpyneSchema
TraceLog == ndJsonDeserialize(IOEnv.TRACE_FILE)
VARIABLE tid
R(t) == TraceLog[t]
Set(s) == {s[k] : k \in 1..Len(s)}
Docs(t) == R(t).obs.docs
DocOf(t, ns) == LET ks == {k \in 1..Len(Docs(t)) : Docs(t)[k].ns = ns} IN IF ks = {} THEN [ns |-> "-", imports |-> <<>>, types |-> <<>>, refs |-> <<>>] ELSE Docs(t)[CHOOSE k \in ks : TRUE]
U(t) == R(t).u
\* one schema document per namespace in use
OneDocPerNs(t)  == {Docs(t)[k].ns : k \in 1..Len(Docs(t))} = S!Namespaces(U(t)) /\ Len(Docs(t)) = Cardinality(S!Namespaces(U(t)))
\* every namespace a document must refer to is imported
ImportsSuffice(t) == \A ns \in S!Namespaces(U(t)) : S!Imports(U(t), ns) \subseteq Set(DocOf(t, ns).imports)
\* what the document actually mentions is its own namespace, XSD or imported
Closed(t) == \A k \in 1..Len(Docs(t)) : Set(Docs(t)[k].refs) \subseteq ({Docs(t)[k].ns, "xs"} \cup Set(Docs(t)[k].imports))
\* every reachable class is declared in the document of its namespace
TypesDeclared(t) == \A ns \in S!Namespaces(U(t)) : (S!Types(U(t), ns) \ {"int"}) \subseteq Set(DocOf(t, ns).types)
Compiles(t) == R(t).obs.compiled
EmittedValid(t) == \A k \in 1..Len(R(t).obs.emitted) : R(t).obs.emitted[k].ok
\* note, not a verdict: imports beyond the closed form
ExactImports(t) == \A ns \in S!Namespaces(U(t)) : S!Imports(U(t), ns) = Set(DocOf(t, ns).imports)
Fails(t) == (IF OneDocPerNs(t) THEN {} ELSE {"OneDocPerNs"}) \cup (IF ImportsSuffice(t) THEN {} ELSE {"ImportsSuffice"})
            \cup (IF Closed(t) THEN {} ELSE {"Closed"}) \cup (IF TypesDeclared(t) THEN {} ELSE {"TypesDeclared"})
            \cup (IF Compiles(t) THEN {} ELSE {"Compiles"}) \cup (IF EmittedValid(t) THEN {} ELSE {"EmittedValid"})
Init == tid \in 1..Len(TraceLog) /\ u = R(tid).u /\ stack = <<>> /\ reg = {} /\ imports = [ns \in S!Ns |-> {}]
Next == UNCHANGED <<tid, u, stack, reg, imports>>
Report == PrintT(<<"V", tid, Fails(tid), ExactImports(tid)>>)
====
