INIT Init
NEXT Next
CONSTRAINT Stop
CONSTANT Deviations = {}
CONSTANT ScenSet = "wsgi"
CHECK_DEADLOCK FALSE
