SPECIFICATION Spec
CONSTANT Deviations = {}
INVARIANT InvAll
INVARIANT InvAfterResponse
CHECK_DEADLOCK FALSE
