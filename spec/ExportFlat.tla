---- MODULE ExportFlat ----
EXTENDS SpyneFlat, Json, IOUtils, SequencesExt
ASSUME JsonSerialize(IOEnv.OUT_FILE, [cases |-> SetToSeq(FlatCases), retcases |-> SetToSeq(RetCasesAll), orders |-> SetToSeq(Orders)])
VARIABLE x
Init == x = 0
Next == UNCHANGED x
====
