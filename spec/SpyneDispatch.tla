---------------------------- MODULE SpyneDispatch ----------------------------
(* How a request finds the function it names.

   Interface.populate_interface walks the application's service list in order and
   calls process_method(s, m) for every public method; that builds

       service_method_map : '{tns}public-name' -> [primary, aux, aux, ...]

   ProtocolBase.get_call_handles(ctx) looks the request's method_request_string
   up in it (prefixing '{tns}' when the string is not qualified) and
   generate_method_contexts raises ResourceNotFound for an empty answer.

   One action per process_method call; the three arms of its if/elif chain are
   the three ways a key's list grows.  Deviation InsertArgsSwapped is the pinned
   code's `val.insert(method, 0)`: registering a primary after an auxiliary method
   of the same name dies with TypeError.

   C11: exact-name routing, near misses route nowhere, the routing table does not
   depend on the order of the service list, two primaries for one name are refused
   at construction.                                                           *)
EXTENDS Naturals, Sequences, FiniteSets, TLC
CONSTANTS Deviations, MaxServices
Dev(d) == d \in Deviations

\* ---- the pool of services an application is assembled from
\* a method: [fn: unique function id, name: public name, aux: BOOLEAN]
M(fn, name, aux) == [fn |-> fn, name |-> name, aux |-> aux]
Pool == [ A |-> << M("A_f", "f", FALSE), M("A_ff", "ff", FALSE) >>,
          B |-> << M("B_F", "F", FALSE), M("B_fu", "f_", FALSE), M("B_h", "g", FALSE) >>,   \* h has in-message name g
          C |-> << M("C_f", "f", TRUE), M("C_xf", "xf", TRUE) >>,                           \* auxiliary service
          D |-> << M("D_q", "f", FALSE) >>,                                                  \* q's in-message name collides with A.f
          E |-> << M("E_k", "f.g", FALSE), M("E_op", "h2", FALSE) >>,                        \* dotted name, custom operation name
          G |-> << M("G_f", "f", TRUE) >>,                                                   \* a second auxiliary f
          H |-> << M("H_p", "f", FALSE) >>,
          \* two methods of ONE service under one name: r's in-message (in another namespace) is named like its sibling k9
          I |-> << M("I_r", "k9", FALSE), M("I_k9", "k9", FALSE) >> ]    \* p's in-message is named f too, but lives in ANOTHER namespace: only the
                                                \* routing-table check (not the class-name check) can refuse it
Services == DOMAIN Pool
Names == UNION {{Pool[s][i].name : i \in 1..Len(Pool[s])} : s \in Services}

\* every duplicate-free sequence of at most MaxServices services
RECURSIVE PermsOf(_)
PermsOf(S) == IF S = {} THEN {<<>>}
              ELSE UNION {{<<x>> \o p : p \in PermsOf(S \ {x})} : x \in S}
Apps == UNION {PermsOf(S) : S \in {T \in SUBSET Services : T # {} /\ Cardinality(T) <= MaxServices}}

VARIABLES app, i, j, smap, phase
vars == <<app, i, j, smap, phase>>

Init == /\ app \in Apps /\ i = 1 /\ j = 1 /\ phase = "building"
        /\ smap = [n \in Names |-> <<>>]

Cur == Pool[app[i]][j]
Advance == IF j < Len(Pool[app[i]]) THEN i' = i /\ j' = j + 1
           ELSE i' = i + 1 /\ j' = 1
IsAux(fn) == \E s \in Services : \E k \in 1..Len(Pool[s]) : Pool[s][k].fn = fn /\ Pool[s][k].aux

\* process_method: first arm / aux arm
Append1 ==
  /\ phase = "building" /\ i <= Len(app)
  /\ (smap[Cur.name] = <<>> \/ Cur.aux)
  /\ smap' = [smap EXCEPT ![Cur.name] = Append(@, Cur.fn)]
  /\ Advance /\ UNCHANGED <<app, phase>>
\* a primary arriving after auxiliary methods goes to the front
InsertFront ==
  /\ phase = "building" /\ i <= Len(app)
  /\ smap[Cur.name] # <<>> /\ ~Cur.aux /\ IsAux(smap[Cur.name][1])
  /\ IF Dev("InsertArgsSwapped")
       THEN phase' = "crashed" /\ UNCHANGED <<app, i, j, smap>>
       ELSE smap' = [smap EXCEPT ![Cur.name] = <<Cur.fn>> \o @] /\ Advance /\ UNCHANGED <<app, phase>>
\* a second primary for the name: construction error
Refuse ==
  /\ phase = "building" /\ i <= Len(app)
  /\ smap[Cur.name] # <<>> /\ ~Cur.aux /\ ~IsAux(smap[Cur.name][1])
  /\ phase' = "refused" /\ UNCHANGED <<app, i, j, smap>>
Ready ==
  /\ phase = "building" /\ i > Len(app) /\ phase' = "ready" /\ UNCHANGED <<app, i, j, smap>>
Next == Append1 \/ InsertFront \/ Refuse \/ Ready
Spec == Init /\ [][Next]_vars /\ WF_vars(Next)

\* ---- the same table as a function of the service list (what the properties talk about)
Methods(a) == LET RECURSIVE Flat(_) 
                  Flat(k) == IF k > Len(a) THEN <<>> ELSE Pool[a[k]] \o Flat(k + 1)
              IN Flat(1)
Primaries(a, n) == SelectSeq(Methods(a), LAMBDA m : m.name = n /\ ~m.aux)
Auxes(a, n)     == SelectSeq(Methods(a), LAMBDA m : m.name = n /\ m.aux)
Conflict(a)     == \E n \in Names : Len(Primaries(a, n)) > 1
Table(a)        == [n \in Names |-> [k \in 1..(Len(Primaries(a, n)) + Len(Auxes(a, n))) |->
                       IF k <= Len(Primaries(a, n)) THEN Primaries(a, n)[k].fn
                       ELSE Auxes(a, n)[k - Len(Primaries(a, n))].fn]]
\* lookup of a wire name: ns is "none" (unqualified), "tns" or "other"
Handles(t, ns, local) == IF ns \in {"none", "tns"} /\ local \in Names THEN t[local] ELSE <<>>

\* ---------------------------------------------------------------- properties
\* the step-wise construction computes the table, and refuses exactly the conflicts
BuildCorrect == /\ (phase = "ready" => (~Conflict(app) /\ smap = Table(app)))
                /\ (phase = "refused" => Conflict(app))
NeverCrashes == phase # "crashed"
\* order independence: same functions for every name whatever the order of the services
OrderFree == phase = "ready" =>
   \A b \in Apps : ({b[k] : k \in 1..Len(b)} = {app[k] : k \in 1..Len(app)}) =>
       /\ ~Conflict(b)
       /\ \A n \in Names : /\ Primaries(b, n) = Primaries(app, n)
                           /\ {Table(b)[n][k] : k \in 1..Len(Table(b)[n])} = {smap[n][k] : k \in 1..Len(smap[n])}
\* exactly one primary runs, and it runs first
PrimaryFirst == phase = "ready" => \A n \in Names : Len(smap[n]) > 0 =>
                   (\A k \in 2..Len(smap[n]) : IsAux(smap[n][k]))
Terminates == <>(phase \in {"ready", "refused", "crashed"})
=============================================================================
