INIT Init
NEXT Next
CONSTRAINT Stop
CONSTANT Deviations = {}
CONSTANT ScenSet = "events"
CHECK_DEADLOCK FALSE
