---- MODULE ExportLexical ----
EXTENDS SpyneLexical, Json, IOUtils, SequencesExt
ASSUME CanonIsLiteral
ASSUME Functional
ASSUME OutNonEmpty
ASSUME AllOffsets
ASSUME JsonSerialize(IOEnv.OUT_FILE, [in |-> SetToSeq(InRows), out |-> SetToSeq({[r EXCEPT !.lits = SetToSeq(@)] : r \in OutRows})])
VARIABLE x
Init == x = 0
Next == UNCHANGED x
====
