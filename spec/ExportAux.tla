---- MODULE ExportAux ----
EXTENDS SpyneAux, Json, IOUtils, SequencesExt
ASSUME JsonSerialize(IOEnv.OUT_FILE, SetToSeq(Scenarios))
Init0 == sc = [po |-> "ok", aux |-> <<>>] /\ pc = "done" /\ k = 1 /\ ev = <<>>
Next0 == UNCHANGED vars
====
