----------------------------- MODULE SpyneLexical -----------------------------
(* C08: the text forms of the primitive models.

   Two tables, both built by construction so that TLC never has to parse text:

     In   rows [t, cust, lit, val] : a literal of the XSD lexical space of type t
          and the value it denotes.  Reading lit must yield val.
     Out  rows [t, cust, val, lits, form] : a value and the set of literals that
          denote it and that Spyne may print (every member is in the lexical space
          of the advertised xs: type).  The printed text must be a member; the
          driver additionally asks an XML Schema processor (lxml) about the text.

   Values are records of small integers and strings (TLC integers are 32 bit):
     integers   [s, d]        sign "+"/"-" and the decimal digits without leading zeros
     decimal    [s, i, f]     sign, integer digits, fraction digits without trailing zeros
     double     [k, r]        k in fin/inf/ninf/nan ; r = shortest round-trip form
     boolean    [b]
     dateTime   [y, mo, d, h, mi, s, us, off]   off = minutes east of UTC, 9999 = no zone
     date       [y, mo, d]        time [h, mi, s, us]
     duration   [neg, days, secs, us]
     uuid       [hex]         bytes [b] = sequence of 0..255        text [id]
   The driver maps records to native objects and back (projection only).        *)
EXTENDS Naturals, Integers, Sequences, FiniteSets, TLC

D2(n) == IF n < 10 THEN "0" \o ToString(n) ELSE ToString(n)
D4(n) == IF n < 10 THEN "000" \o ToString(n) ELSE IF n < 100 THEN "00" \o ToString(n)
         ELSE IF n < 1000 THEN "0" \o ToString(n) ELSE ToString(n)
\* a fraction as a digit string and the microseconds it denotes
Fracs == { [t |-> "", us |-> 0], [t |-> "5", us |-> 500000], [t |-> "000005", us |-> 5],
           [t |-> "123", us |-> 123000], [t |-> "999999", us |-> 999999], [t |-> "050", us |-> 50000],
           [t |-> "500000", us |-> 500000], [t |-> "000000", us |-> 0],
           [t |-> "123000", us |-> 123000], [t |-> "050000", us |-> 50000],
           \* more digits than a microsecond clock has: exactly representable all the same (and a zone may follow them)
           [t |-> "1234560000", us |-> 123456], [t |-> "50000000000000", us |-> 500000] }
Dot(fr) == IF fr.t = "" THEN "" ELSE "." \o fr.t
\* canonical fraction texts accepted on output for a microsecond count
FracOut(us) == { Dot(fr) : fr \in {x \in Fracs : x.us = us} }

\* ------------------------------------------------------------------ integers
I(s, d) == [s |-> s, d |-> d]
IntTypes == {"Integer", "Integer8", "Integer16", "Integer32", "Integer64",
             "UnsignedInteger8", "UnsignedInteger16", "UnsignedInteger32", "UnsignedInteger64"}
\* boundary values, given as digit strings (min, min+1, -1, 0, 1, max-1, max, powers of ten)
IntVals(t) ==
  CASE t = "Integer8"  -> {I("-", "128"), I("-", "127"), I("-", "1"), I("+", "0"), I("+", "1"), I("+", "126"), I("+", "127"), I("+", "100"), I("-", "100"), I("+", "10")}
    [] t = "Integer16" -> {I("-", "32768"), I("-", "32767"), I("-", "1"), I("+", "0"), I("+", "1"), I("+", "32766"), I("+", "32767"), I("+", "10000"), I("-", "10000")}
    [] t = "Integer32" -> {I("-", "2147483648"), I("-", "2147483647"), I("-", "1"), I("+", "0"), I("+", "1"), I("+", "2147483646"), I("+", "2147483647"), I("+", "1000000000"), I("-", "1000000000")}
    [] t = "Integer64" -> {I("-", "9223372036854775808"), I("-", "9223372036854775807"), I("-", "1"), I("+", "0"), I("+", "1"),
                           I("+", "9223372036854775806"), I("+", "9223372036854775807"), I("+", "1000000000000000000"), I("-", "1000000000000000000")}
    [] t = "UnsignedInteger8"  -> {I("+", "0"), I("+", "1"), I("+", "254"), I("+", "255"), I("+", "100")}
    [] t = "UnsignedInteger16" -> {I("+", "0"), I("+", "1"), I("+", "65534"), I("+", "65535"), I("+", "10000")}
    [] t = "UnsignedInteger32" -> {I("+", "0"), I("+", "1"), I("+", "4294967294"), I("+", "4294967295"), I("+", "1000000000")}
    [] t = "UnsignedInteger64" -> {I("+", "0"), I("+", "1"), I("+", "18446744073709551614"), I("+", "18446744073709551615"), I("+", "10000000000000000000")}
    [] t = "Integer"   -> {I("-", "1"), I("+", "0"), I("+", "1"), I("+", "9223372036854775808"), I("-", "9223372036854775809"),
                           I("+", "18446744073709551616"), I("+", "1000000000000000000000000000000"),
                           I("-", "1000000000000000000000000000000"), I("+", "340282366920938463463374607431768211456")}
IntCanon(v) == IF v.s = "-" THEN "-" \o v.d ELSE v.d
\* lexical variants of xs:integer: explicit +, leading zeros, -0
IntLits(v) == {IntCanon(v)} \cup (IF v.s = "+" THEN {"+" \o v.d, "00" \o v.d} ELSE {"-00" \o v.d})
              \cup (IF v.d = "0" THEN {"-0"} ELSE {})
IntInRows == UNION {UNION {{[t |-> t, cust |-> "", lit |-> l, val |-> v] : l \in IntLits(v)} : v \in IntVals(t)} : t \in IntTypes}
IntOutRows == UNION {{[t |-> t, cust |-> "", val |-> v, lits |-> {IntCanon(v)}, form |-> ""] : v \in IntVals(t)} : t \in IntTypes}

\* ------------------------------------------------------------------- decimal
Dc(s, i, f) == [s |-> s, i |-> i, f |-> f]
DecVals == {Dc(s, i, f) : s \in {"+", "-"}, i \in {"0", "1", "12", "123456789012345678901234567890"},
                          f \in {"", "5", "05", "25", "123456789", "0000001"}} \ {Dc("-", "0", "")}
DecCanon(v) == (IF v.s = "-" THEN "-" ELSE "") \o v.i \o (IF v.f = "" THEN "" ELSE "." \o v.f)
DecLits(v) == {DecCanon(v), DecCanon(v) \o (IF v.f = "" THEN ".0" ELSE "0"), DecCanon(v) \o (IF v.f = "" THEN ".000" ELSE "00")}
              \cup (IF v.s = "+" THEN {"+" \o DecCanon(v)} ELSE {})
              \cup (IF v.i = "0" /\ v.f # "" THEN {(IF v.s = "-" THEN "-" ELSE "") \o "." \o v.f} ELSE {})
              \cup (IF v.f = "" THEN {DecCanon(v) \o "."} ELSE {})
DecInRows  == UNION {{[t |-> "Decimal", cust |-> "", lit |-> l, val |-> v] : l \in DecLits(v)} : v \in DecVals}
\* form: how the driver constructs the native Decimal ("plain" from the canonical text,
\* "exp" in scientific notation - same number, different internal exponent)
DecOutRows == {[t |-> "Decimal", cust |-> "", val |-> v, form |-> fm,
                lits |-> {DecCanon(v), DecCanon(v) \o (IF v.f = "" THEN ".0" ELSE "0")}] :
                  v \in DecVals, fm \in {"plain", "exp"}}

\* -------------------------------------------------------------------- double
Db(k, r) == [k |-> k, r |-> r]
DblIn == { <<"1.5", Db("fin", "1.5")>>, <<"-1.5", Db("fin", "-1.5")>>, <<"+1.5", Db("fin", "1.5")>>, <<"1E3", Db("fin", "1000.0")>>,
           <<"1e3", Db("fin", "1000.0")>>, <<"1.5E-3", Db("fin", "0.0015")>>, <<"0", Db("fin", "0.0")>>, <<"-0", Db("fin", "-0.0")>>,
           <<".5", Db("fin", "0.5")>>, <<"5.", Db("fin", "5.0")>>, <<"INF", Db("inf", "inf")>>, <<"-INF", Db("ninf", "-inf")>>,
           <<"NaN", Db("nan", "nan")>>, <<"0.30000000000000004", Db("fin", "0.30000000000000004")>>,
           <<"1.7976931348623157E308", Db("fin", "1.7976931348623157e+308")>>, <<"5E-324", Db("fin", "5e-324")>>,
           <<"1E16", Db("fin", "1e+16")>>, <<"12345678901234567890", Db("fin", "1.2345678901234567e+19")>>,
           <<"4.35", Db("fin", "4.35")>>, <<"100.0", Db("fin", "100.0")>> }
DblInRows == {[t |-> "Double", cust |-> "", lit |-> p[1], val |-> p[2]] : p \in DblIn}
DblOut == { <<Db("fin", "1.5"), {"1.5"}>>, <<Db("fin", "-1.5"), {"-1.5"}>>, <<Db("fin", "1000.0"), {"1000.0", "1000", "1E3", "1.0E3"}>>,
            <<Db("fin", "0.0"), {"0.0", "0", "0.0E0"}>>, <<Db("fin", "-0.0"), {"-0.0", "-0"}>>,
            <<Db("fin", "0.30000000000000004"), {"0.30000000000000004"}>>, <<Db("fin", "434.99999999999994"), {"434.99999999999994"}>>,
            <<Db("fin", "1.7976931348623157e+308"), {"1.7976931348623157e+308", "1.7976931348623157E308", "1.7976931348623157E+308"}>>,
            <<Db("fin", "5e-324"), {"5e-324", "5E-324", "4.9E-324"}>>,
            <<Db("fin", "1e+16"), {"1e+16", "1E16", "1E+16", "1.0E16", "10000000000000000.0", "10000000000000000"}>>,
            <<Db("fin", "0.0015"), {"0.0015", "1.5E-3", "1.5e-3"}>>, <<Db("fin", "1.2345678901234567e+19"), {"1.2345678901234567e+19", "1.2345678901234567E19", "12345678901234567000.0"}>>,
            <<Db("inf", "inf"), {"INF"}>>, <<Db("ninf", "-inf"), {"-INF"}>>, <<Db("nan", "nan"), {"NaN"}>> }
DblOutRows == {[t |-> "Double", cust |-> "", val |-> p[1], lits |-> p[2], form |-> ""] : p \in DblOut}

\* ------------------------------------------------------------------- boolean
BoolInRows  == {[t |-> "Boolean", cust |-> "", lit |-> p[1], val |-> [b |-> p[2]]] :
                   p \in {<<"true", TRUE>>, <<"false", FALSE>>, <<"1", TRUE>>, <<"0", FALSE>>}}
BoolOutRows == {[t |-> "Boolean", cust |-> "", val |-> [b |-> TRUE], lits |-> {"true", "1"}, form |-> ""],
                [t |-> "Boolean", cust |-> "", val |-> [b |-> FALSE], lits |-> {"false", "0"}, form |-> ""]}

\* ------------------------------------------------------- dateTime, date, time
Zones == {[k |-> "none", sg |-> 1, hh |-> 0, mm |-> 0], [k |-> "Z", sg |-> 1, hh |-> 0, mm |-> 0]}
         \cup {[k |-> "off", sg |-> sg, hh |-> hh, mm |-> mm] : sg \in {1, 0 - 1}, hh \in 0..14, mm \in 0..59}
OkZone(z) == z.k # "off" \/ z.hh < 14 \/ z.mm = 0                 \* -14:00 .. +14:00
ZText(z) == CASE z.k = "none" -> "" [] z.k = "Z" -> "Z"
              [] OTHER -> (IF z.sg = 1 THEN "+" ELSE "-") \o D2(z.hh) \o ":" \o D2(z.mm)
ZOff(z) == IF z.k = "none" THEN 9999 ELSE z.sg * (60 * z.hh + z.mm)
Stamp == [y |-> 2020, mo |-> 2, d |-> 29, h |-> 23, mi |-> 59, s |-> 58]
DText(c) == D4(c.y) \o "-" \o D2(c.mo) \o "-" \o D2(c.d)
TText(c) == D2(c.h) \o ":" \o D2(c.mi) \o ":" \o D2(c.s)
DtVal(c, us, off) == [y |-> c.y, mo |-> c.mo, d |-> c.d, h |-> c.h, mi |-> c.mi, s |-> c.s, us |-> us, off |-> off]
\* all 1681 offsets (+ none, Z) x the fraction classes: read direction
DtInRows == {[t |-> "DateTime", cust |-> "", lit |-> DText(Stamp) \o "T" \o TText(Stamp) \o Dot(fr) \o ZText(z),
              val |-> DtVal(Stamp, fr.us, ZOff(z))] : fr \in Fracs, z \in {zz \in Zones : OkZone(zz)}}
\* write direction: a spread of offsets x microsecond classes; accepted zone spellings
ZoneOut(off) == IF off = 9999 THEN {""}
                ELSE IF off = 0 THEN {"Z", "+00:00"}
                ELSE {(IF off > 0 THEN "+" ELSE "-") \o D2((IF off > 0 THEN off ELSE 0 - off) \div 60) \o ":"
                        \o D2((IF off > 0 THEN off ELSE 0 - off) % 60)}
OutOffs == {9999, 0, 330, 0 - 289, 840, 0 - 840, 1, 0 - 1, 0 - 60, 59}
OutUs   == {0, 500000, 5, 123000, 999999, 50000}
DtOutRows == {[t |-> "DateTime", cust |-> "", val |-> DtVal(Stamp, us, off), form |-> "",
               lits |-> {DText(Stamp) \o "T" \o TText(Stamp) \o f \o z : f \in FracOut(us), z \in ZoneOut(off)}] :
                 us \in OutUs, off \in OutOffs}
\* customisation as_timezone=+02:00: a literal with its own zone denotes the same instant, expressed at +02:00
AsTz == { <<"2020-02-29T10:00:00Z", [y |-> 2020, mo |-> 2, d |-> 29, h |-> 12, mi |-> 0, s |-> 0, us |-> 0, off |-> 120]>>,
          <<"2020-02-29T10:00:00+02:00", [y |-> 2020, mo |-> 2, d |-> 29, h |-> 10, mi |-> 0, s |-> 0, us |-> 0, off |-> 120]>>,
          <<"2020-02-29T23:30:00-04:30", [y |-> 2020, mo |-> 3, d |-> 1, h |-> 6, mi |-> 0, s |-> 0, us |-> 0, off |-> 120]>>,
          <<"2020-02-29T10:00:00", [y |-> 2020, mo |-> 2, d |-> 29, h |-> 10, mi |-> 0, s |-> 0, us |-> 0, off |-> 120]>> }
DtCustInRows == {[t |-> "DateTime", cust |-> "as_timezone+02:00", lit |-> p[1], val |-> p[2]] : p \in AsTz}
\* customisation timezone=False: the zone is not printed
DtCustOutRows == {[t |-> "DateTime", cust |-> "timezone=False", val |-> DtVal(Stamp, us, 9999), form |-> "",
                   lits |-> {DText(Stamp) \o "T" \o TText(Stamp) \o f : f \in FracOut(us)}] : us \in {0, 500000}}

Dates == {[y |-> 2020, mo |-> 2, d |-> 29], [y |-> 1, mo |-> 1, d |-> 1], [y |-> 9999, mo |-> 12, d |-> 31], [y |-> 1999, mo |-> 12, d |-> 31]}
DateInRows  == {[t |-> "Date", cust |-> "", lit |-> DText(c) \o z, val |-> c] : c \in Dates, z \in {"", "Z", "+05:30", "-04:49"}}
DateOutRows == {[t |-> "Date", cust |-> "", val |-> c, lits |-> {DText(c)}, form |-> ""] : c \in Dates}
Times == {[h |-> 23, mi |-> 59, s |-> 58], [h |-> 0, mi |-> 0, s |-> 0], [h |-> 12, mi |-> 30, s |-> 1]}
TmVal(c, us) == [h |-> c.h, mi |-> c.mi, s |-> c.s, us |-> us]
TimeInRows  == {[t |-> "Time", cust |-> "", lit |-> TText(c) \o Dot(fr), val |-> TmVal(c, fr.us)] : c \in Times, fr \in Fracs}
TimeOutRows == {[t |-> "Time", cust |-> "", val |-> TmVal(c, us), form |-> "",
                 lits |-> {TText(c) \o f : f \in FracOut(us)}] : c \in Times, us \in OutUs}

\* ------------------------------------------------------------------ duration
Du(neg, days, secs, us) == [neg |-> neg, days |-> days, secs |-> secs, us |-> us]
DurIn == { <<"P1D", Du(FALSE, 1, 0, 0)>>, <<"PT1S", Du(FALSE, 0, 1, 0)>>, <<"PT0.5S", Du(FALSE, 0, 0, 500000)>>,
           <<"PT0.000005S", Du(FALSE, 0, 0, 5)>>, <<"P1DT2H3M4.5S", Du(FALSE, 1, 7384, 500000)>>, <<"-P1D", Du(TRUE, 1, 0, 0)>>,
           <<"PT1M", Du(FALSE, 0, 60, 0)>>, <<"PT1H", Du(FALSE, 0, 3600, 0)>>, <<"P0D", Du(FALSE, 0, 0, 0)>>, <<"PT0S", Du(FALSE, 0, 0, 0)>>,
           <<"PT36H", Du(FALSE, 1, 43200, 0)>>, <<"P1DT0.123S", Du(FALSE, 1, 0, 123000)>>, <<"PT0.999999S", Du(FALSE, 0, 0, 999999)>>,
           <<"-PT1.5S", Du(TRUE, 0, 1, 500000)>>, <<"P400D", Du(FALSE, 400, 0, 0)>>, <<"PT1M0.05S", Du(FALSE, 0, 60, 50000)>>,
           <<"PT86400S", Du(FALSE, 1, 0, 0)>>, <<"P2DT23H59M59S", Du(FALSE, 2, 86399, 0)>>,
           \* fractions that binary floating point does not hold exactly: the microsecond count is the one that is WRITTEN
           <<"PT0.999995S", Du(FALSE, 0, 0, 999995)>>, <<"-PT23H59M59.999995S", Du(TRUE, 0, 86399, 999995)>>, <<"PT0.000029S", Du(FALSE, 0, 0, 29)>>,
           <<"PT1.000001S", Du(FALSE, 0, 1, 1)>>, <<"PT59.000057S", Du(FALSE, 0, 59, 57)>> }
DurInRows == {[t |-> "Duration", cust |-> "", lit |-> p[1], val |-> p[2]] : p \in DurIn}
\* write direction: every literal of DurIn that denotes the value is acceptable, plus fully spelled forms
DurSpell == { <<Du(FALSE, 1, 0, 0), {"P1D", "P1DT0S", "P1DT0H0M0S", "PT24H", "P1DT0H0M0.0S", "P1DT0.0S"}>>,
              <<Du(FALSE, 0, 1, 0), {"PT1S", "PT1.0S", "P0DT1S", "PT0H0M1S", "P0DT0H0M1S", "PT0H0M1.0S"}>>,
              <<Du(FALSE, 0, 0, 500000), {"PT0.5S", "PT0.500000S", "P0DT0H0M0.5S", "PT0H0M0.5S", "P0DT0.5S", "P0DT0H0M0.500000S", "PT0H0M0.500000S"}>>,
              <<Du(FALSE, 0, 0, 5), {"PT0.000005S", "P0DT0H0M0.000005S", "PT0H0M0.000005S", "P0DT0.000005S"}>>,
              <<Du(FALSE, 0, 0, 50000), {"PT0.05S", "PT0.050000S", "P0DT0H0M0.05S", "PT0H0M0.05S", "P0DT0H0M0.050000S"}>>,
              <<Du(FALSE, 1, 7384, 500000), {"P1DT2H3M4.5S", "P1DT2H3M4.500000S", "P1DT7384.5S"}>>,
              <<Du(TRUE, 1, 0, 0), {"-P1D", "-P1DT0S", "-P1DT0H0M0S", "-PT24H", "-P1DT0H0M0.0S"}>>,
              <<Du(TRUE, 0, 1, 500000), {"-PT1.5S", "-PT1.500000S", "-P0DT0H0M1.5S", "-PT0H0M1.5S"}>>,
              <<Du(FALSE, 0, 0, 0), {"P0D", "PT0S", "P0DT0S", "P0DT0H0M0S", "PT0H0M0S", "PT0.0S", "P0DT0H0M0.0S"}>>,
              <<Du(FALSE, 0, 3661, 0), {"PT1H1M1S", "P0DT1H1M1S", "PT3661S", "PT1H1M1.0S", "P0DT1H1M1.0S"}>>,
              <<Du(FALSE, 400, 0, 0), {"P400D", "P400DT0S", "P400DT0H0M0S", "P400DT0H0M0.0S"}>> }
\* ... and a grid of values with the spellings COMPUTED: sign, days, time part in full / compact / total-seconds form,
\* each with every accepted fraction text (days with only a fraction of a second, negative values, 86399 s, ...)
GDays == {0, 1, 2, 400}
GSecs == {0, 1, 59, 3661, 86399}
GUs   == {0, 5, 500000, 999999, 123000}
Hh(x) == x \div 3600
Mm(x) == (x % 3600) \div 60
Ss(x) == x % 60
FracsOf(us) == FracOut(us) \cup (IF us = 0 THEN {".0"} ELSE {})
TimeForms(secs, us) ==
  UNION {{ "T" \o ToString(Hh(secs)) \o "H" \o ToString(Mm(secs)) \o "M" \o ToString(Ss(secs)) \o f \o "S",
           "T" \o ToString(secs) \o f \o "S",
           "T" \o (IF Hh(secs) > 0 THEN ToString(Hh(secs)) \o "H" ELSE "") \o (IF Mm(secs) > 0 THEN ToString(Mm(secs)) \o "M" ELSE "")
               \o (IF Ss(secs) > 0 \/ us > 0 \/ secs = 0 THEN ToString(Ss(secs)) \o f \o "S" ELSE "") } : f \in FracsOf(us)}
DayForms(days, timed) == {"P" \o ToString(days) \o "D"} \cup (IF days = 0 /\ timed THEN {"P"} ELSE {})
GridLits(du) == LET sign == IF du.neg THEN "-" ELSE ""
                    timed == {sign \o d \o t : d \in DayForms(du.days, TRUE), t \in TimeForms(du.secs, du.us)}
                IN timed \cup (IF du.secs = 0 /\ du.us = 0 THEN {sign \o "P" \o ToString(du.days) \o "D"} ELSE {})
DurGrid == {Du(n, d, sc, us) : n \in BOOLEAN, d \in GDays, sc \in GSecs, us \in GUs} \ {Du(TRUE, 0, 0, 0)}
DurOutRows == {[t |-> "Duration", cust |-> "", val |-> p[1], lits |-> p[2], form |-> ""] : p \in DurSpell}
              \cup {[t |-> "Duration", cust |-> "", val |-> du, lits |-> GridLits(du), form |-> ""] : du \in DurGrid}

\* ------------------------------------------------------ uuid, binary, text
UuidInRows == {[t |-> "Uuid", cust |-> "", lit |-> l, val |-> [hex |-> "12345678123412341234123456789abc"]] :
                  l \in {"12345678-1234-1234-1234-123456789abc", "12345678-1234-1234-1234-123456789ABC"}}
UuidOutRows == {[t |-> "Uuid", cust |-> "", val |-> [hex |-> "12345678123412341234123456789abc"],
                 lits |-> {"12345678-1234-1234-1234-123456789abc"}, form |-> ""]}
\* bytes with their base64 / urlsafe / hex spellings (computed by hand, RFC 4648)
Bin == { [b |-> <<0>>, b64 |-> "AA==", url |-> "AA==", hex |-> "00"],
         [b |-> <<0, 1>>, b64 |-> "AAE=", url |-> "AAE=", hex |-> "0001"],
         [b |-> <<0, 1, 2>>, b64 |-> "AAEC", url |-> "AAEC", hex |-> "000102"],
         [b |-> <<251, 255>>, b64 |-> "+/8=", url |-> "-_8=", hex |-> "fbff"],
         [b |-> <<255, 254, 253, 252>>, b64 |-> "//79/A==", url |-> "__79_A==", hex |-> "fffefdfc"],
         [b |-> <<72, 101, 108, 108, 111>>, b64 |-> "SGVsbG8=", url |-> "SGVsbG8=", hex |-> "48656c6c6f"] }
BinInRows == UNION {{[t |-> "ByteArray", cust |-> "base64", lit |-> x.b64, val |-> [b |-> x.b]],
                     [t |-> "ByteArray", cust |-> "urlsafe_base64", lit |-> x.url, val |-> [b |-> x.b]],
                     [t |-> "ByteArray", cust |-> "hex", lit |-> x.hex, val |-> [b |-> x.b]]} : x \in Bin}
\* xs:base64Binary allows white space between and around the groups of four (RFC 2045 line breaks)
BinWsInRows == { [t |-> "ByteArray", cust |-> "base64", lit |-> "//79\n/A==", val |-> [b |-> <<255, 254, 253, 252>>]],
                 [t |-> "ByteArray", cust |-> "base64", lit |-> " SGVs bG8= ", val |-> [b |-> <<72, 101, 108, 108, 111>>]],
                 [t |-> "ByteArray", cust |-> "base64", lit |-> "AAEC\r\n", val |-> [b |-> <<0, 1, 2>>]] }
\* form: one chunk, or the same bytes handed over as two chunks (2 + rest)
BinOutRows == UNION {{[t |-> "ByteArray", cust |-> "base64", val |-> [b |-> x.b], lits |-> {x.b64}, form |-> fm],
                      [t |-> "ByteArray", cust |-> "urlsafe_base64", val |-> [b |-> x.b], lits |-> {x.url}, form |-> fm],
                      [t |-> "ByteArray", cust |-> "hex", val |-> [b |-> x.b], lits |-> {x.hex}, form |-> fm]} :
                         x \in Bin, fm \in {"one", "two"}}
Texts == {"ascii", "spaces", "uni", "markup", "empty1", "digits", "nl"}       \* concrete text: harness/pool.py
Uris == {"uri_http", "uri_urn", "uri_mailto", "uri_rel", "uri_pct"}
TextsOf(ty) == IF ty = "AnyUri" THEN Uris ELSE Texts
TextInRows  == UNION {{[t |-> ty, cust |-> "", lit |-> x, val |-> [id |-> x]] : x \in TextsOf(ty)} : ty \in {"Unicode", "AnyUri"}}
TextOutRows == UNION {{[t |-> ty, cust |-> "", val |-> [id |-> x], lits |-> {x}, form |-> "textid"] : x \in TextsOf(ty)} : ty \in {"Unicode", "AnyUri"}}

InRows  == IntInRows \cup DecInRows \cup DblInRows \cup BoolInRows \cup DtInRows \cup DtCustInRows \cup DateInRows
           \cup TimeInRows \cup DurInRows \cup UuidInRows \cup BinInRows \cup BinWsInRows \cup TextInRows
OutRows == IntOutRows \cup DecOutRows \cup DblOutRows \cup BoolOutRows \cup DtOutRows \cup DtCustOutRows \cup DateOutRows
           \cup TimeOutRows \cup DurOutRows \cup UuidOutRows \cup BinOutRows \cup TextOutRows

\* ---- laws of the tables themselves (checked by TLC when exporting)
\* every value written canonically is also in the read table for integers: Canon is a literal of the value
CanonIsLiteral == \A t \in IntTypes : \A v \in IntVals(t) : IntCanon(v) \in IntLits(v)
\* no literal denotes two values of one type
Functional == \A r1, r2 \in (IntInRows \cup DecInRows \cup DblInRows \cup DurInRows) :
                 (r1.t = r2.t /\ r1.cust = r2.cust /\ r1.lit = r2.lit) => r1.val = r2.val
\* every write row offers at least one literal and offsets cover the whole range
OutNonEmpty == \A r \in OutRows : r.lits # {}
AllOffsets == Cardinality({z \in Zones : OkZone(z) /\ z.k = "off"}) = 2 * (14 * 60 + 1)

\* ---- clauses evaluated on observations
ReadOk(row, o)  == o.ok /\ o.val = row.val
WriteOk(row, o) == o.ok /\ o.text \in row.lits /\ o.xsd
=============================================================================
