-------------------------------- MODULE SpyneFlat --------------------------------
(* C03: the flattened key/value notation of HttpRpc (SimpleDictDocument).

   A request is a BAG of (key, text) pairs in any order:
     a            primitive argument a (a repeated primitive / an array of primitives repeats the key)
     a.b.c        member c of member b of object a           (the delimiter is configurable)
     a[i].b       member b of element i of an array of objects (or of a repeated object member);
                  the indexes only have to be distinct: the elements are delivered in INDEX order
                  whatever the order of the pairs
   Values are the leaf texts of SpyneLexical; percent-encoding is the transport's business.
   cfg = [delim, idx ("contig" | "sparse"), order]                                          *)
EXTENDS SpyneSignatures

\* a member published under another name (sub_name): the keys spell the PUBLIC name wherever the member sits
Fs(n, sub, t, min, max) == [n |-> n, t |-> t, min |-> min, max |-> max, sub |-> sub]
Pub(f) == IF "sub" \in DOMAIN f THEN f.sub ELSE f.n
\* wire index of the k-th element ("sparse": distinct, increasing, and not in string order)
Ix(cfg, k) == IF cfg.idx = "contig" THEN k - 1 ELSE <<2, 10, 11, 25, 100, 101, 102, 103, 200, 201, 1000, 1001>>[k]
RECURSIVE FlatV(_, _, _, _), FlatItems(_, _, _, _, _), FlatFields(_, _, _, _, _)
FlatSeqOf(t, items, key, cfg) == FlatItems(t, items, key, cfg, 1)
FlatItems(t, items, key, cfg, k) ==
  IF k > Len(items) THEN <<>>
  ELSE (IF t.k = "obj" THEN FlatV(t, items[k], key \o "[" \o ToString(Ix(cfg, k)) \o "]", cfg) ELSE FlatV(t, items[k], key, cfg))
       \o FlatItems(t, items, key, cfg, k + 1)
FlatMember(f, x, key, cfg) == IF x = Nil THEN <<>> ELSE IF f.max > 1 THEN FlatSeqOf(f.t, x[2], key, cfg) ELSE FlatV(f.t, x, key, cfg)
FlatFields(fl, vals, key, cfg, k) ==
  IF k > Len(fl) THEN <<>> ELSE FlatMember(fl[k], vals[k], key \o cfg.delim \o Pub(fl[k]), cfg) \o FlatFields(fl, vals, key, cfg, k + 1)
FlatV(t, v, key, cfg) ==
  IF v = Nil THEN <<>>
  ELSE IF t.k = "prim" THEN << <<key, v[2]>> >>
  ELSE IF t.k = "attr" THEN << <<key, v[2]>> >>
  ELSE IF t.k = "arr" THEN FlatSeqOf(t.of, v[2], key, cfg)
  ELSE FlatFields(FlatF(t), v[3], key, cfg, 1)
RECURSIVE FlatArgs(_, _, _)
FlatArgs(c, cfg, k) == IF k > Len(c.args) THEN <<>> ELSE FlatMember(c.args[k], c.vals[k], Pub(c.args[k]), cfg) \o FlatArgs(c, cfg, k + 1)
Canon(c, cfg) == FlatArgs(c, cfg, 1)
\* the order in which the pairs are sent
Rev(s) == [k \in 1..Len(s) |-> s[Len(s) + 1 - k]]
Rot(s) == LET h == Len(s) \div 2 IN SubSeq(s, h + 1, Len(s)) \o SubSeq(s, 1, h)
Zip(s) == LET odd == {k \in 1..Len(s) : k % 2 = 1}  even == {k \in 1..Len(s) : k % 2 = 0}
              no == Cardinality(odd)
          IN [k \in 1..Len(s) |-> IF k <= no THEN s[2 * k - 1] ELSE s[2 * (k - no)]]
Ordered(s, o) == CASE o = "asc" -> s [] o = "desc" -> Rev(s) [] o = "rot" -> Rot(s) [] o = "zip" -> Zip(s)
\* a repeated primitive has no indexes: its values are in the order of ITS pairs; so the KEYS are permuted and the
\* pairs of one key stay together, in their order
RECURSIVE KeysOf(_, _)
KeysOf(s, seen) == IF s = <<>> THEN <<>> ELSE IF Head(s)[1] \in seen THEN KeysOf(Tail(s), seen) ELSE <<Head(s)[1]>> \o KeysOf(Tail(s), seen \cup {Head(s)[1]})
GroupOf(s, key) == SelectSeq(s, LAMBDA p : p[1] = key)
RECURSIVE Gather(_, _)
Gather(s, keys) == IF keys = <<>> THEN <<>> ELSE GroupOf(s, Head(keys)) \o Gather(s, Tail(keys))
Pairs(c, cfg) == Gather(Canon(c, cfg), Ordered(KeysOf(Canon(c, cfg), {}), cfg.order))
Orders == {"asc", "desc", "rot", "zip"}
\* every order is a permutation of the canonical sequence
IsPerm(a, b) == Len(a) = Len(b) /\ \A x \in {a[k] : k \in 1..Len(a)} : Cardinality({k \in 1..Len(a) : a[k] = x}) = Cardinality({k \in 1..Len(b) : b[k] = x})

\* ---- cases: the signature templates a flat request can express + deep shapes of its own
E3 == Obj("E", "tns", <<Fs("v", "val", Prim("Integer"), 0, 1), F("ws", Arr(Prim("Unicode")), 0, 1)>>)
D3 == Obj("D", "tns", <<F("i", Prim("Integer"), 0, 1), F("es", Arr(E3), 0, 1), Fs("e", "elem", E3, 0, 1)>>)
C3 == Obj("C", "tns", <<F("d", D3, 0, 1), F("ds", Arr(D3), 0, 1), F("m", D3, 0, 99), F("n", Prim("Integer"), 0, 1), F("tags", Prim("Unicode"), 0, 99)>>)
Ev(v, ws) == ObjV("E", <<v, ws>>)
E1 == Ev(Leaf("1"), SeqV(<<Leaf("a"), Leaf("b c")>>))
E2 == Ev(Leaf("2"), Nil)
E9 == Ev(Nil, SeqV(<<Leaf("x&y=z")>>))
Dv3(i, es, e) == ObjV("D", <<i, es, e>>)
Da == Dv3(Leaf("10"), SeqV(<<E1, E2, E9>>), E2)
Db == Dv3(Leaf("20"), Nil, E1)
Dc == Dv3(Nil, SeqV(<<E2>>), Nil)
ManyD == [k \in 1..6 |-> Dv3(Leaf(ToString(100 + k)), Nil, Nil)]
C3Vals == {ObjV("C", <<d, ds, m, n, tags>>) :
              d \in {Nil, Da}, ds \in {Nil, SeqV(<<Da, Db, Dc>>), SeqV(ManyD)}, m \in {Nil, SeqV(<<Db, Dc>>)},
              n \in {Nil, Leaf("9")}, tags \in {Nil, SeqV(<<Leaf("t1"), Leaf("t 2"), Leaf("t1")>>)}}
F3 == {Case("F3", "wrapped", <<F("c", C3, 0, 1), F("k", Prim("Integer"), 0, 1)>>, <<v, Leaf("5")>>, <<Prim("Integer")>>, <<Leaf("5")>>) : v \in C3Vals}
      \cup {Case("F3", "wrapped", <<F("a", Arr(D3), 0, 1)>>, <<SeqV(<<Da, Db, Dc>>)>>, <<Prim("Integer")>>, <<Leaf("5")>>),
            Case("F3", "wrapped", <<F("a", Arr(D3), 0, 1)>>, <<SeqV(ManyD)>>, <<Prim("Integer")>>, <<Leaf("5")>>),
            \* twelve elements: as strings, index 10 sorts before index 2
            Case("F3", "wrapped", <<F("a", Arr(D3), 0, 1)>>, <<SeqV([k \in 1..12 |-> Dv3(Leaf(ToString(100 + k)), Nil, Nil)])>>, <<Prim("Integer")>>, <<Leaf("5")>>),
            Case("F3", "wrapped", <<F("m", D3, 0, 99), F("z", Prim("Unicode"), 0, 1)>>, <<SeqV(<<Dc, Da>>), Leaf("end")>>, <<Prim("Integer")>>, <<Leaf("5")>>),
            \* elements that do not carry the same members: the member whose key sorts first (elem) appears in the LATER elements only -
            \* the elements are still a contiguous run, whatever member each of them happens to have
            Case("F3", "wrapped", <<F("a", Arr(D3), 0, 1)>>, <<SeqV(<<Dv3(Leaf("1"), Nil, Nil), Dv3(Leaf("2"), Nil, Nil), Dv3(Nil, Nil, E2), Dv3(Nil, SeqV(<<E2>>), Nil)>>)>>,
                 <<Prim("Integer")>>, <<Leaf("5")>>),
            Case("F3", "wrapped", <<F("m", D3, 0, 99)>>, <<SeqV(<<Dv3(Leaf("1"), Nil, Nil), Dv3(Nil, SeqV(<<E2>>), Nil), Dv3(Nil, Nil, E1)>>)>>, <<Prim("Integer")>>, <<Leaf("5")>>)}
\* (empty arrays have no spelling of their own in this notation: cases whose values hold one are left to the other protocols)
\* (nor has an object none of whose members has a value)
RECURSIVE NoEmpty(_)
\* (the flat notation cannot spell an empty array, an object without members, or a nil ITEM of an array)
NoEmpty(v) == IF v = Nil THEN TRUE ELSE IF v[1] = "seq" THEN v[2] # <<>> /\ \A k \in 1..Len(v[2]) : (v[2][k] # Nil /\ NoEmpty(v[2][k]))
              ELSE IF v[1] = "obj" THEN (\A k \in 1..Len(v[3]) : NoEmpty(v[3][k])) /\ (\E k \in 1..Len(v[3]) : v[3][k] # Nil) ELSE TRUE
FlatCases == {c \in T1 \cup T2 \cup T3 \cup T4 \cup T5 \cup T7 \cup F3 : \A k \in 1..Len(c.vals) : NoEmpty(c.vals[k])}

\* ---- a single primitive return value travels as its exact text (bytes for binary data)
Falsy == {<<"Integer", "0">>, <<"Boolean", "false">>, <<"Double", "0.0">>, <<"Decimal", "0">>, <<"Unicode", "">>, <<"Integer", "-0">>}
RetCasesAll == UNION {{Case("R1", "wrapped", <<F("a", Prim("Integer"), 0, 1)>>, <<Leaf("5")>>, <<Prim(p)>>, <<Leaf(x)>>) : x \in LeafVals(p)} : p \in Leaves}
               \cup {Case("R1", "wrapped", <<F("a", Prim("Integer"), 0, 1)>>, <<Leaf("5")>>, <<Prim(q[1])>>, <<Leaf(q[2])>>) : q \in Falsy \ {<<"Integer", "-0">>}}
=============================================================================
