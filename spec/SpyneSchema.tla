------------------------------ MODULE SpyneSchema ------------------------------
(* C06 (and C07): how the interface document is assembled for a multi-namespace type universe,
   and what the published XML Schema must therefore contain.

   Universe: three classes P, Q, R declared in that order (references only go forward, so the
   universe is acyclic), each in one of three namespaces; every forward pair is related by
       none | member | array (wrapped array member) | base (inheritance) | choice (the member sits
       in an xs:choice group with an integer alternative)
   and one service method  f(p: P [, r: R]) -> P  whose messages live in the target namespace.

   Interface.add_class is modelled operationally, one action per block of the code
   (spyne/interface/_base.py): a class is registered the first time it is reached, its parent
   and its members are visited depth-first, and after each visit the namespace of what was
   visited is recorded as an import of the visiting class' namespace.  The schema of a
   namespace compiles only if every namespace it refers to is its own, the XSD one, or
   imported - `Closed` - and that must hold when the walk ends whatever the order in which
   classes were first reached.                                                          *)
EXTENDS Naturals, Sequences, FiniteSets, TLC

CONSTANTS Deviations        \* {} = the code as it is; {"SkipRegistered"}: a member type that is already
                            \* registered is skipped BEFORE its namespace is recorded as an import

Tns == "tns"
Ns  == {Tns, "nsb", "nsc"}
Xs  == "xs"
Rel == {"none", "member", "array", "base", "choice"}
Universes == {u \in [ns : [{"P", "Q", "R"} -> Ns], pq : Rel, pr : Rel, qr : Rel, direct : BOOLEAN] :
                 ~(u.pq = "base" /\ u.pr = "base")}

Nodes == {"f", "fResponse", "P", "Q", "R", "QArray", "RArray", "int"}
Arr(x) == IF x = "Q" THEN "QArray" ELSE "RArray"
\* members as <<name, node, choice group ("" = none)>>, in declaration order (every class also has an integer member of its own)
\* (member names carry owner and target, so that a subclass never redeclares a member of its parent)
Link(o, rel, x) == CASE rel = "member" -> << <<"m" \o o \o x, x, "">> >> [] rel = "array" -> << <<"a" \o o \o x, Arr(x), "">> >>
                  [] rel = "choice" -> << <<"c" \o o \o x, x, "g" \o o \o x>>, <<"alt" \o o \o x, "int", "g" \o o \o x>> >> [] OTHER -> <<>>
FieldSpec(u, n) == CASE n = "f"    -> << <<"p", "P", "">> >> \o (IF u.direct THEN << <<"r", "R", "">> >> ELSE <<>>)
                  [] n = "fResponse" -> << <<"fResult", "P", "">> >>
                  [] n = "P"         -> << <<"i", "int", "">> >> \o Link("P", u.pq, "Q") \o Link("P", u.pr, "R")
                  [] n = "Q"         -> << <<"j", "int", "">> >> \o Link("Q", u.qr, "R")
                  [] n = "R"         -> << <<"k", "int", "">> >>
                  [] n = "QArray"    -> << <<"Q", "Q", "">> >>
                  [] n = "RArray"    -> << <<"R", "R", "">> >>
                  [] OTHER           -> <<>>
\* the same without the names (what the walk needs; ExportSchema checks that the two agree)
LinkN(rel, x) == CASE rel = "member" -> <<x>> [] rel = "array" -> <<Arr(x)>> [] rel = "choice" -> <<x, "int">> [] OTHER -> <<>>
Fields(u, n) == CASE n = "f"         -> <<"P">> \o (IF u.direct THEN <<"R">> ELSE <<>>)
                  [] n = "fResponse" -> <<"P">>
                  [] n = "P"         -> <<"int">> \o LinkN(u.pq, "Q") \o LinkN(u.pr, "R")
                  [] n = "Q"         -> <<"int">> \o LinkN(u.qr, "R")
                  [] n = "R"         -> <<"int">>
                  [] n = "QArray"    -> <<"Q">>
                  [] n = "RArray"    -> <<"R">>
                  [] OTHER           -> <<>>
FieldsAgree == \A w \in Universes, n \in Nodes : Fields(w, n) = [k \in 1..Len(FieldSpec(w, n)) |-> FieldSpec(w, n)[k][2]]
Base(u, n) == CASE n = "P" /\ u.pq = "base" -> "Q" [] n = "P" /\ u.pr = "base" -> "R" [] n = "Q" /\ u.qr = "base" -> "R" [] OTHER -> "-"
NsOf(u, n) == CASE n \in {"f", "fResponse"} -> Tns [] n \in {"P", "Q", "R"} -> u.ns[n]
                [] n = "QArray" -> u.ns["Q"] [] n = "RArray" -> u.ns["R"] [] OTHER -> Xs
Refs(u, n) == {Fields(u, n)[k] : k \in 1..Len(Fields(u, n))} \cup (IF Base(u, n) = "-" THEN {} ELSE {Base(u, n)})

\* ---- declarative: what is reachable from the messages, what each namespace must import
RECURSIVE ReachFrom(_, _, _)
ReachFrom(u, todo, seen) == IF todo = {} THEN seen
                            ELSE LET n == CHOOSE n \in todo : TRUE IN ReachFrom(u, (todo \cup Refs(u, n)) \ (seen \cup {n}), seen \cup {n})
Reach(u) == ReachFrom(u, {"f", "fResponse"}, {})
Namespaces(u) == {NsOf(u, n) : n \in Reach(u)} \ {Xs}
Imports(u, ns) == {NsOf(u, d) : d \in UNION {Refs(u, n) : n \in {m \in Reach(u) : NsOf(u, m) = ns}}} \ {ns, Xs}
Types(u, ns) == {n \in Reach(u) : NsOf(u, n) = ns}

\* ---- operational: Interface.add_class as a walk with an explicit stack
VARIABLES u, stack, reg, imports
vars == <<u, stack, reg, imports>>
Frame(n, pc, k) == [n |-> n, pc |-> pc, k |-> k]
Top == stack[Len(stack)]
Pop == SubSeq(stack, 1, Len(stack) - 1)
Replace(f) == [stack EXCEPT ![Len(stack)] = f]
Import(ns, child) == IF child # ns /\ child # Xs THEN [imports EXCEPT ![ns] = @ \cup {child}] ELSE imports

Init == /\ u \in Universes
        \* add_method: the request message, then the response message
        /\ stack = <<Frame("fResponse", "enter", 0), Frame("f", "enter", 0)>>
        /\ reg = {} /\ imports = [ns \in Ns |-> {}]

\* add_class(cls): already known -> return; otherwise register and go on with the parent
Enter == /\ stack # <<>> /\ Top.pc = "enter"
         /\ IF Top.n \in reg \/ Top.n = "int"
              THEN stack' = Pop /\ UNCHANGED reg
              ELSE reg' = reg \cup {Top.n} /\ stack' = Replace(Frame(Top.n, "parent", 0))
         /\ UNCHANGED <<u, imports>>
\* the parent class is added first, then imported
Parent == /\ stack # <<>> /\ Top.pc = "parent"
          /\ IF Base(u, Top.n) = "-" THEN stack' = Replace(Frame(Top.n, "field", 1))
             ELSE stack' = Replace(Frame(Top.n, "parent_ret", 0)) \o <<Frame(Base(u, Top.n), "enter", 0)>>
          /\ UNCHANGED <<u, reg, imports>>
ParentRet == /\ stack # <<>> /\ Top.pc = "parent_ret"
             /\ imports' = Import(NsOf(u, Top.n), NsOf(u, Base(u, Top.n)))
             /\ stack' = Replace(Frame(Top.n, "field", 1))
             /\ UNCHANGED <<u, reg>>
\* each member: add its class, then import its namespace
Field == /\ stack # <<>> /\ Top.pc = "field"
         /\ IF Top.k > Len(Fields(u, Top.n)) THEN stack' = Pop
            ELSE LET v == Fields(u, Top.n)[Top.k] IN
                 IF "SkipRegistered" \in Deviations /\ v \in reg
                   THEN stack' = Replace(Frame(Top.n, "field", Top.k + 1))
                   ELSE stack' = Replace(Frame(Top.n, "field_ret", Top.k)) \o <<Frame(v, "enter", 0)>>
         /\ UNCHANGED <<u, reg, imports>>
FieldRet == /\ stack # <<>> /\ Top.pc = "field_ret"
            /\ imports' = Import(NsOf(u, Top.n), NsOf(u, Fields(u, Top.n)[Top.k]))
            /\ stack' = Replace(Frame(Top.n, "field", Top.k + 1))
            /\ UNCHANGED <<u, reg>>
Done == stack = <<>> /\ UNCHANGED vars
Next == Enter \/ Parent \/ ParentRet \/ Field \/ FieldRet \/ Done
Spec == Init /\ [][Next]_vars

\* ---- properties
TypeOK == reg \subseteq Nodes /\ \A ns \in Ns : imports[ns] \subseteq Ns
\* the schema of every namespace can resolve everything it mentions
Closed == stack = <<>> => \A n \in reg : \A d \in Refs(u, n) : NsOf(u, d) \in {NsOf(u, n), Xs} \cup imports[NsOf(u, n)]
\* the walk computes exactly the declarative sets (so the closed forms can be used to judge real schemas)
WalkIsClosedForm == stack = <<>> => /\ reg = Reach(u) \ {"int"}
                                    /\ \A ns \in Ns : imports[ns] = Imports(u, ns)
\* nothing is imported that is not referred to
NoSpuriousImport == \A ns \in Ns : imports[ns] \subseteq Imports(u, ns)
=============================================================================
