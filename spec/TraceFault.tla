---- MODULE TraceFault ----
(* M3/M4: clauses of SpyneFault evaluated by TLC on (case, observation) records *)
EXTENDS SpyneFault, Json, IOUtils
TraceLog == ndJsonDeserialize(IOEnv.TRACE_FILE)
VARIABLE tid
Fails(t) == {n \in ClauseNames : ~Holds(n, TraceLog[t].case, TraceLog[t].obs)}
Init == tid \in 1..Len(TraceLog)
Next == UNCHANGED tid
Report == PrintT(<<"V", tid, Fails(tid)>>)
====
