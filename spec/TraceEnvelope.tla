----------------------------- MODULE TraceEnvelope -----------------------------
(* X04 (beyond the listed properties): the JSON protocols that put an ENVELOPE around what JsonDocument reads and writes.

     JsonP(cb)               response text  =  cb "(" <the JsonDocument response> ");"        requests as JsonDocument
     HybridHttpJsonDocument  request        =  the ARGUMENT document alone, the method is the last fragment of the URL path
     JsonRpc('spyne')        request        =  {"ver": 1, "body": <the JsonDocument request>}
                             response       =  {"ver": 1, "body": <the JsonDocument response>}

   One record per (case, envelope): what was sent, what user code received, the envelope of the reply taken apart by the driver.
   The documents inside are the ones SpyneDictDoc defines (configuration: ignore_wrappers, complex_as = dict).             *)
EXTENDS SpyneDictDoc, Json, IOUtils
TraceLog == ndJsonDeserialize(IOEnv.TRACE_FILE)
VARIABLE tid
R(t) == TraceLog[t]
C(t) == R(t).c
Cfg == [fam |-> "json", iw |-> TRUE, ca |-> "dict", poly |-> FALSE]
Sent(t, k, v) == Proj(C(t).args[k].t, v)
Delivered(t)  == R(t).obs.ncalls = 1 /\ NormArgs(C(t), R(t).obs.args) = NormArgs(C(t), [k \in 1..Len(C(t).vals) |-> Sent(t, k, C(t).vals[k])])
\* the envelope itself
EnvelopeOk(t) == CASE R(t).env = "jsonp"   -> R(t).obs.callback = "cb" /\ R(t).obs.tail = ");"
                   [] R(t).env = "jsonrpc" -> R(t).obs.ver = 1 /\ \A k \in 1..Len(R(t).obs.keys) : R(t).obs.keys[k] \in {"ver", "body"}
                   [] OTHER -> TRUE
\* what is inside: the JsonDocument response
Inside(t) == R(t).obs.inner
InsideIsSpec(t) == Len(C(t).rets) = 0 \/ TreeEq(Inside(t), DResponse(C(t), Cfg))
Fails(t) == (IF Delivered(t) THEN {} ELSE {"Delivered"}) \cup (IF EnvelopeOk(t) THEN {} ELSE {"EnvelopeOk"})
            \cup (IF InsideIsSpec(t) THEN {} ELSE {"InsideIsSpec"})
Init == tid \in 1..Len(TraceLog)
Next == UNCHANGED tid
Report == PrintT(<<"V", tid, Fails(tid)>>)
=============================================================================
