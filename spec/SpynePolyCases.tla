---------------------------- MODULE SpynePolyCases ----------------------------
(* C16: class trees and the places a subclass instance can stand where its base is declared.

        Base{b1: Integer, b2: Unicode}  <-  Mid{m1: Boolean}  <-  Leaf{l1: Date}
                                        <-  Other{o1: Double}
   all in one namespace (the placement the interface registers for substitution).
   Declared type D in {Base, Mid}, as argument and return value (plain or customized to be
   mandatory), as a member of a holder object, and as the item type of an array holding mixed
   subclasses.  The value's runtime class ranges over D and its descendants.
   c.poly says whether the protocols are polymorphic; c.vals is what a conformant client sends
   (the runtime instance when polymorphic, its declared part otherwise), c.rvals what user code
   returns (always the runtime instance).                                                   *)
EXTENDS SpyneSignatures

PB(ns) == Obj("Base", ns, <<F("b1", Prim("Integer"), 0, 1), F("b2", Prim("Unicode"), 0, 1)>>)
PM(ns) == Sub("Mid", ns, <<F("m1", Prim("Boolean"), 0, 1)>>, PB(ns))
PL(ns) == Sub("Leaf", ns, <<F("l1", Prim("Date"), 0, 1)>>, PM(ns))
PO(ns) == Sub("Other", ns, <<F("o1", Prim("Double"), 0, 1)>>, PB(ns))
DeclBase(ns) == [PB(ns) EXCEPT !.subs = <<PM(ns), PL(ns), PO(ns)>>]
DeclMid(ns)  == [PM(ns) EXCEPT !.subs = <<PL(ns)>>]

BaseVs  == {ObjV("Base", <<Leaf("5"), Leaf("hello")>>), ObjV("Base", <<Nil, Leaf("x < y & z")>>)}
\* (the last Mid value has no member set at all: its element is empty and carries nothing but the type marker)
MidVs   == {ObjV("Mid", <<Leaf("5"), Leaf("hello"), Leaf("true")>>), ObjV("Mid", <<Leaf("5"), Nil, Nil>>), ObjV("Mid", <<Nil, Nil, Nil>>)}
LeafVs  == {ObjV("Leaf", <<Leaf("5"), Leaf("hello"), Leaf("false"), Leaf("2020-02-29")>>), ObjV("Leaf", <<Nil, Leaf("hello"), Nil, Leaf("1999-12-31")>>)}
OtherVs == {ObjV("Other", <<Leaf("5"), Leaf("hello"), Leaf("1.5")>>)}
ValuesOf(d) == IF d = "Base" THEN BaseVs \cup MidVs \cup LeafVs \cup OtherVs ELSE MidVs \cup LeafVs
Decl(d, ns) == IF d = "Base" THEN DeclBase(ns) ELSE DeclMid(ns)
\* the declared part of a value
RECURSIVE FlatP(_)
FlatP(t) == (IF t.hasbase THEN FlatP(t.base) ELSE <<>>) \o t.fields
Cut(t, v) == IF v = Nil THEN Nil ELSE ObjV(t.name, [k \in 1..Len(FlatP(t)) |-> v[3][k]])
Send(t, v, poly) == IF poly THEN v ELSE Cut(t, v)

PCase(id, args, vals, rets, rvals, poly) == [Case(id, "wrapped", args, vals, rets, rvals) EXCEPT !.poly = poly]
\* P1: argument and return value of the declared type (optional, and customized to be mandatory)
P1 == UNION {{PCase("P1", <<F("o", Decl(d, ns), occ[1], occ[2])>>, <<Send(Decl(d, ns), v, poly)>>, <<Decl(d, ns)>>, <<v>>, poly) :
         ns \in {"tns", "urn:other"}, occ \in {<<0, 1>>, <<1, 1>>}, v \in ValuesOf(d), poly \in BOOLEAN} : d \in {"Base", "Mid"}}
\* P2: member of a holder
Holder(d, ns) == Obj("Holder", "tns", <<F("h", Decl(d, ns), 0, 1), F("n", Prim("Integer"), 0, 1)>>)
P2 == UNION {{PCase("P2", <<F("c", Holder(d, ns), 0, 1)>>, <<ObjV("Holder", <<Send(Decl(d, ns), v, poly), Leaf("7")>>)>>,
                   <<Holder(d, ns)>>, <<ObjV("Holder", <<v, Leaf("7")>>)>>, poly) :
         ns \in {"tns", "urn:other"}, v \in ValuesOf(d), poly \in BOOLEAN} : d \in {"Base", "Mid"}}
\* P3: an array of the base type holding mixed subclasses (and a repeated member doing the same)
Mixed == {<<ObjV("Base", <<Leaf("5"), Leaf("hello")>>), ObjV("Mid", <<Leaf("5"), Leaf("hello"), Leaf("true")>>),
            ObjV("Leaf", <<Leaf("5"), Leaf("hello"), Leaf("false"), Leaf("2020-02-29")>>), ObjV("Other", <<Leaf("5"), Leaf("hello"), Leaf("1.5")>>)>>,
          <<ObjV("Leaf", <<Nil, Leaf("hello"), Nil, Leaf("1999-12-31")>>)>>,
          <<ObjV("Other", <<Leaf("5"), Leaf("hello"), Leaf("1.5")>>), ObjV("Base", <<Nil, Leaf("x < y & z")>>)>>, <<>>}
SendSeq(t, s, poly) == [k \in 1..Len(s) |-> Send(t, s[k], poly)]
P3 == {PCase("P3", <<F("a", Arr(DeclBase(ns)), 0, 1)>>, <<SeqV(SendSeq(DeclBase(ns), m, poly))>>, <<Arr(DeclBase(ns))>>, <<SeqV(m)>>, poly) :
         ns \in {"tns", "urn:other"}, m \in Mixed, poly \in BOOLEAN}
      \cup {PCase("P3", <<F("m", DeclBase(ns), 0, 99)>>, <<SeqV(SendSeq(DeclBase(ns), m, poly))>>, <<Arr(DeclBase(ns))>>, <<SeqV(m)>>, poly) :
         ns \in {"tns"}, m \in Mixed \ {<<>>}, poly \in BOOLEAN}
\* P4: the deepest class declared itself - its own flat layout: grandparent's, parent's, own fields
P4 == {PCase("P4", <<F("o", PL(ns), 0, 1)>>, <<v>>, <<PL(ns)>>, <<v>>, FALSE) : ns \in {"tns", "urn:other"}, v \in LeafVs}
      \cup {PCase("P4", <<F("a", Arr(PL("tns")), 0, 1)>>, <<SeqV(<<v, v>>)>>, <<Arr(PL("tns"))>>, <<SeqV(<<v>>)>>, FALSE) : v \in LeafVs}
\* P5: two subclasses of one base that share their TYPE NAME and live in different namespaces (versions of a schema): what a
\* type marker denotes is the (namespace, name) pair its prefix resolves to IN THE DOCUMENT AT THAT ELEMENT - the driver spells
\* every marker with the same prefix literal, bound locally, so equal marker texts denote different classes within one request
\* and across the requests of one server.  (XML family only: dict documents name classes without a namespace.)
PB5 == Obj("Base5", "tns", <<F("b1", Prim("Integer"), 0, 1)>>)
V1 == WithTN(Sub("Ver1", "urn:v1", <<F("r", Prim("Decimal"), 0, 1)>>, PB5), "Ver")
V2 == WithTN(Sub("Ver2", "urn:v2", <<F("r", Prim("Decimal"), 0, 1), F("u", Prim("Unicode"), 0, 1), F("d", Prim("Date"), 0, 1)>>, PB5), "Ver")
Decl5 == [PB5 EXCEPT !.subs = <<V1, V2>>]
Ver1V == ObjV("Ver1", <<Leaf("5"), Leaf("1.5")>>)
Ver2V == ObjV("Ver2", <<Leaf("5"), Leaf("-100.25"), Leaf("hello"), Leaf("2020-02-29")>>)
Base5V == ObjV("Base5", <<Leaf("5")>>)
P5 == {PCase("P5", <<F("a", Decl5, 0, 1), F("b", Decl5, 0, 1), F("c", V1, 0, 1), F("d", V2, 0, 1)>>, <<va, vb, Nil, Nil>>, <<Prim("Integer")>>, <<Leaf("5")>>, TRUE) :
         va \in {Ver1V, Ver2V, Base5V}, vb \in {Ver1V, Ver2V}}
      \cup {PCase("P5", <<F("xs", Arr(Decl5), 0, 1), F("c", V1, 0, 1), F("d", V2, 0, 1)>>, <<SeqV(m), Nil, Nil>>, <<Prim("Integer")>>, <<Leaf("5")>>, TRUE) :
               m \in {<<Ver1V, Ver2V, Ver1V>>, <<Ver2V, Base5V, Ver1V>>}}
\* P6: SOAP headers: a subclass instance where the header is declared as its base, in the request and in the response - the
\* header element keeps the DECLARED name (that is how the receiver finds it) and carries the type marker
P6 == {[PCase("P6", <<F("a", Prim("Integer"), 0, 1)>>, <<Leaf("5")>>, <<Prim("Integer")>>, <<Leaf("5")>>, TRUE)
          EXCEPT !.inh = <<DeclBase(ns)>>, !.inhvals = <<iv>>, !.outh = <<DeclBase(ns)>>, !.outhvals = <<ov>>] :
             ns \in {"tns", "urn:other"}, iv \in {Nil} \cup ValuesOf("Base"), ov \in {Nil} \cup ValuesOf("Base")}
\* P7 (dict family, wrapper documents): a subclass declared AFTER the server has answered its first request (a plug-in module
\* imported late): the wrapper key naming it is accepted like any other subclass' - what the subclasses of a class are is asked
\* when a request is read, not remembered from an earlier one.  `prime` is the value of the first, earlier request.
WithField(t, k0, x) == [k \in DOMAIN t \cup {k0} |-> IF k = k0 THEN x ELSE t[k]]
PLate(ns) == WithField(Sub("Late", ns, <<F("l2", Prim("Integer"), 0, 1)>>, PM(ns)), "late", TRUE)
DeclBaseLate(ns) == [PB(ns) EXCEPT !.subs = <<PM(ns), PL(ns), PO(ns), PLate(ns)>>]
LateV == ObjV("Late", <<Leaf("5"), Leaf("hello"), Leaf("true"), Leaf("7")>>)
P7 == {WithField(PCase("P7", <<F("o", DeclBaseLate(ns), 0, 1)>>, <<LateV>>, <<DeclBaseLate(ns)>>, <<LateV>>, TRUE),
                 "prime", <<ObjV("Base", <<Leaf("5"), Leaf("hello")>>)>>) : ns \in {"tns", "urn:other"}}
      \cup {WithField(PCase("P7", <<F("a", Arr(DeclBaseLate(ns)), 0, 1)>>, <<SeqV(<<ObjV("Base", <<Leaf("5"), Leaf("hello")>>), LateV>>)>>,
                              <<Arr(DeclBaseLate(ns))>>, <<SeqV(<<LateV>>)>>, TRUE),
                 "prime", <<SeqV(<<ObjV("Mid", <<Leaf("5"), Leaf("hello"), Leaf("true")>>)>>)>>) : ns \in {"tns"}}
\* P8 (XML family): subclasses that declare an XML ATTRIBUTE member whose name is the local name of the type marker (`type`),
\* textual (Tagged) and numeric (Coded), set and unset: the marker is the attribute {xsi}type - an attribute called `type` in no
\* namespace is another attribute, and an unset member stays unset
PB8 == Obj("Base8", "tns", <<F("b1", Prim("Integer"), 0, 1)>>)
Tagged == Sub("Tagged", "tns", <<F("type", Attr(Prim("Unicode")), 0, 1), F("t", Prim("Unicode"), 0, 1)>>, PB8)
Coded  == Sub("Coded", "tns", <<F("type", Attr(Prim("Integer")), 0, 1), F("id", Attr(Prim("Unicode")), 0, 1)>>, PB8)
Decl8 == [PB8 EXCEPT !.subs = <<Tagged, Coded>>]
Vals8 == {ObjV("Tagged", <<Leaf("5"), Nil, Leaf("hello")>>), ObjV("Tagged", <<Leaf("5"), Leaf("kind"), Nil>>), ObjV("Tagged", <<Nil, Nil, Nil>>),
          ObjV("Coded", <<Leaf("5"), Leaf("7"), Leaf("k1")>>), ObjV("Coded", <<Nil, Nil, Leaf("k1")>>), ObjV("Base8", <<Leaf("5")>>)}
P8 == {PCase("P8", <<F("o", Decl8, 0, 1)>>, <<v>>, <<Decl8>>, <<v>>, TRUE) : v \in Vals8}
      \cup {PCase("P8", <<F("a", Arr(Decl8), 0, 1)>>, <<SeqV(m)>>, <<Arr(Decl8)>>, <<SeqV(m)>>, TRUE) :
               m \in {<<ObjV("Tagged", <<Leaf("5"), Nil, Leaf("hello")>>), ObjV("Coded", <<Nil, Nil, Leaf("k1")>>), ObjV("Base8", <<Leaf("5")>>)>>,
                       <<ObjV("Coded", <<Leaf("5"), Leaf("7"), Leaf("k1")>>), ObjV("Tagged", <<Nil, Leaf("kind"), Nil>>)>>}}
\* P9: a class in the MIDDLE of the chain that adds no member of its own (a marker class): Base9{b1} <- Mark9{} <- Deep9{z}.
\* It is a class like any other: what is declared as Mark9 (or Base9) may hold a Deep9, which keeps its class and its member.
PB9 == Obj("Base9", "tns", <<F("b1", Prim("Integer"), 0, 1)>>)
PMk9 == Sub("Mark9", "tns", <<>>, PB9)
PDp9 == Sub("Deep9", "tns", <<F("z", Prim("Integer"), 0, 1)>>, PMk9)
DeclBase9 == [PB9 EXCEPT !.subs = <<PMk9, PDp9>>]
DeclMark9 == [PMk9 EXCEPT !.subs = <<PDp9>>]
Vals9 == {ObjV("Deep9", <<Leaf("5"), Leaf("7")>>), ObjV("Mark9", <<Leaf("5")>>), ObjV("Deep9", <<Nil, Leaf("7")>>)}
P9 == {PCase("P9", <<F("o", d, 0, 1)>>, <<Send(d, v, poly)>>, <<d>>, <<v>>, poly) : d \in {DeclBase9, DeclMark9}, v \in Vals9, poly \in BOOLEAN}
      \cup {PCase("P9", <<F("a", Arr(DeclMark9), 0, 1)>>, <<SeqV(<<ObjV("Mark9", <<Leaf("5")>>), ObjV("Deep9", <<Leaf("5"), Leaf("7")>>)>>)>>, <<Arr(DeclMark9)>>,
                   <<SeqV(<<ObjV("Deep9", <<Nil, Leaf("7")>>)>>)>>, TRUE)}
\* P10: members published under another name (sub_name) declared by the ANCESTORS of the runtime class: Base10{b1, label as "Label"}
\* <- Mid10{m} <- Leaf10{l as "L"}: a Leaf10 carries "Label" like a Base10 does
FsP(n, sub, t) == [n |-> n, t |-> t, min |-> 0, max |-> 1, sub |-> sub]
PB10 == Obj("Base10", "tns", <<F("b1", Prim("Integer"), 0, 1), FsP("label", "Label", Prim("Unicode"))>>)
PM10 == Sub("Mid10", "tns", <<F("m", Prim("Integer"), 0, 1)>>, PB10)
PL10 == Sub("Leaf10", "tns", <<FsP("l", "L", Prim("Unicode"))>>, PM10)
Decl10 == [PB10 EXCEPT !.subs = <<PM10, PL10>>]
Vals10 == {ObjV("Leaf10", <<Leaf("3"), Leaf("three"), Leaf("30"), Leaf("t3")>>), ObjV("Mid10", <<Leaf("2"), Leaf("two"), Leaf("20")>>),
           ObjV("Base10", <<Leaf("1"), Leaf("one")>>)}
P10 == {PCase("P10", <<F("o", d, 0, 1)>>, <<Send(d, v, poly)>>, <<d>>, <<v>>, poly) : d \in {Decl10}, v \in Vals10, poly \in BOOLEAN}
       \cup {PCase("P10", <<F("o", PL10, 0, 1)>>, <<v>>, <<PL10>>, <<v>>, FALSE) : v \in {ObjV("Leaf10", <<Leaf("3"), Leaf("three"), Leaf("30"), Leaf("t3")>>)}}
       \cup {PCase("P10", <<F("a", Arr(Decl10), 0, 1)>>, <<SeqV(<<ObjV("Base10", <<Leaf("1"), Leaf("one")>>), ObjV("Leaf10", <<Leaf("3"), Leaf("three"), Leaf("30"), Leaf("t3")>>)>>)>>,
                    <<Arr(Decl10)>>, <<SeqV(<<ObjV("Mid10", <<Leaf("2"), Leaf("two"), Leaf("20")>>)>>)>>, TRUE)}
PolyCases == P10 \cup P1 \cup P2 \cup P3 \cup P4 \cup P5 \cup P6 \cup P7 \cup P8 \cup P9
=============================================================================
