------------------------------- MODULE SpyneNull -------------------------------
(* Calling a method through the in-process NullServer (spyne/server/null.py) versus
   calling it over the wire (C18).

   NullServer, per call:
     NullPack    in_object = [None] * n ; positional arguments fill from the left ;
                 every keyword argument that is not None overwrites its slot ;
                 bare style: the slots become the fields of ONE message instance
     (Application.process_request - shared with every transport)
     NullUnwrap  out_error            -> raised to the caller
                 Ignored              -> the Ignored object itself is returned
                 out-bare / one value -> out_object[0]
                 empty style / no declared return -> None
                 several values       -> the sequence of values
   Wire, per call: the client sends the packed arguments; the reply is decoded by
   the protocol's conventions; an Ignored return is sent as an empty response.

   The case family and the expected observation of BOTH paths are defined here;
   the replay driver runs both paths on the same application object and TLC
   evaluates the clauses on (case, direct observation, wire observation).      *)
EXTENDS Naturals, Sequences, FiniteSets, TLC

\* bare_rec: bare style over a RECURSIVE class Node{a1: Node, a2: Integer}: the first field of the one argument is itself a Node, so a
\* single positional Node is the FIELD a1 (arguments are passed field-wise), never the argument object itself
\* bare_inh: bare style over a class with a parent: C(Base{a1}){a2} - the fields are the FLAT fields, parent's first
Styles == {"wrapped", "out_bare", "empty", "bare", "bare_rec", "bare_inh"}
Rets   == {"none", "one", "two", "three", "gen", "ignored", "fault", "exc",
           "cplx", "ignored_cplx", "ignored_two"}     \* ignored_two: Ignored where TWO values are declared     \* one return value of a two-member complex type / Ignored where such a type is declared
Nil == 0 - 1                         \* None
Val(i) == 10 * i                      \* the value the caller means for argument i
Alt(i) == 10 * i + 5                  \* a different value, used to show who wins

\* how argument i is passed: "pos" positional, "kw" keyword, "both" positional Alt(i) and
\* keyword Val(i) (keyword must win), "kwnil" positional Val(i) and keyword None (positional
\* must survive), "absent" not passed at all
\* "kwzero"/"poszero": the FALSY but valid value 0, by keyword / positionally
Modes == {"pos", "kw", "both", "kwnil", "absent", "kwzero", "poszero"}
\* positional arguments must form a prefix
Positional == {"pos", "both", "kwnil", "poszero"}
PrefixOk(ms) == \A i \in 1..Len(ms) : ms[i] \in Positional =>
                   \A j \in 1..(i - 1) : ms[j] \in Positional
\* rename: the FIRST argument is published under another name than its Python parameter (_in_variable_names);
\* members stay in parameter order, keyword callers and the wire use the public name
CasesN(N) ==
  \* dflt: every argument's TYPE declares a default value (Dflt(i)): an argument that is not passed is that value, on both paths
  \* aux: a second service declares the same method as an AUXILIARY one (SyncAuxProc) returning something else: it runs on the side,
  \*      the caller gets the PRIMARY method's result on both paths
  \* ostr: NullServer(ostr=True) - the direct caller gets the serialized response; the (lazily produced) result is serialized
  \*      while the context is still open, as over the wire
  { c \in [style : Styles, ret : Rets, modes : UNION {[1..n -> Modes] : n \in 0..N}, rename : BOOLEAN, dflt : BOOLEAN, aux : BOOLEAN, narrow : BOOLEAN, ostr : BOOLEAN] :
      /\ (c.aux => (c.style = "wrapped" /\ ~c.rename /\ ~c.dflt /\ ~c.ostr /\ c.ret \in {"one", "two", "none", "fault"}
                     /\ \A i \in 1..Len(c.modes) : c.modes[i] \in {"pos", "kw", "absent"}))
      \* narrow: the auxiliary twin declares only the FIRST parameter of the primary method (it picks what it knows, on both paths)
      /\ (c.narrow => c.aux /\ Len(c.modes) >= 2)
      /\ (c.ostr => (c.style = "wrapped" /\ ~c.rename /\ ~c.dflt /\ c.ret \in {"gen", "one", "two"}
                      /\ \A i \in 1..Len(c.modes) : c.modes[i] \in {"pos", "kw"}))
      /\ (c.dflt => (c.style = "wrapped" /\ ~c.rename /\ c.ret \in {"one", "none"} /\ Len(c.modes) >= 1
                      /\ \A i \in 1..Len(c.modes) : c.modes[i] \in {"pos", "kw", "absent", "kwzero"}))
      /\ (c.rename => (c.style = "wrapped" /\ Len(c.modes) >= 2 /\ c.ret \in {"one", "none"}))
      /\ (c.ret = "ignored_two" => c.style = "wrapped")
      /\ PrefixOk(c.modes)
      /\ (c.style = "empty" => Len(c.modes) = 0)
      /\ (c.style \in {"bare", "bare_inh"} => (Len(c.modes) = 2 /\ c.ret \in {"one", "fault", "none"}))   \* one complex argument, passed field-wise
      /\ (c.style = "bare_rec" => (Len(c.modes) \in {1, 2} /\ c.ret \in {"one", "none"} /\ \A i \in 1..Len(c.modes) : c.modes[i] \in {"pos", "kw", "absent"}))
      /\ (c.style = "out_bare" => c.ret \in {"one", "fault", "exc", "gen", "cplx", "ignored_cplx"})
      /\ (c.ret \in {"cplx", "ignored_cplx"} => Len(c.modes) <= 1)
      /\ (c.ret \in {"two", "three"} => c.style = "wrapped")
      \* pairwise: the richer modes only with the plain outcomes
      /\ ((\E i \in 1..Len(c.modes) : c.modes[i] \in {"both", "kwnil", "kwzero", "poszero"}) => c.ret \in {"one", "none"}) }
Cases == CasesN(3)
CasesThorough == CasesN(4)          \* the thorough tier: up to four arguments

\* NullPack / what the client sends: the value that must reach the function in slot i
Dflt(i) == 70 + i
Packed(c) == [i \in 1..Len(c.modes) |->
                CASE c.modes[i] \in {"pos", "kw", "both", "kwnil"} -> Val(i)
                  [] c.modes[i] \in {"kwzero", "poszero"} -> 0
                  [] OTHER -> IF c.dflt THEN Dflt(i) ELSE Nil]
\* the native result both paths must deliver (generators are compared as lists)
R1 == 7   R2 == 8   R3 == 9
Result(c) == CASE c.ret = "none"    -> <<"value", <<>>>>
               [] c.ret = "one"     -> <<"value", <<R1>>>>
               [] c.ret = "two"     -> <<"value", <<R1, R2>>>>
               [] c.ret = "three"   -> <<"value", <<R1, R2, R3>>>>
               [] c.ret = "gen"     -> <<"value", <<R1, R2>>>>
               [] c.ret = "cplx"    -> <<"value", <<R1, R2>>>>      \* the members of the returned object
               [] c.ret = "ignored" -> <<"ignored", <<>>>>
               [] c.ret = "ignored_cplx" -> <<"ignored", <<>>>>
               [] c.ret = "ignored_two" -> <<"ignored", <<>>>>
               [] c.ret = "fault"   -> <<"fault", <<"Client", "Custom">>>>
               [] c.ret = "exc"     -> <<"fault", <<"Server">>>>
\* over the wire an Ignored return is an empty response
Ign(c) == c.ret \in {"ignored", "ignored_cplx", "ignored_two"}
WireResult(c) == IF Ign(c) THEN <<"value", <<>>>> ELSE Result(c)
\* a non-Fault exception raised by user code reaches the direct caller as the generic fault as well
NullResult(c) == Result(c)

\* ------------------------------------------------------------------- clauses
ArgsDirect(c, o)  == o.dargs = Packed(c)
ArgsWire(c, o)    == o.wargs = Packed(c)
ResultDirect(c, o) == o.dres[1] = NullResult(c)[1] /\ o.dres = NullResult(c)
ResultWire(c, o)   == o.wres[1] = WireResult(c)[1] /\ o.wres = WireResult(c)
\* the property itself: direct == wire (modulo the documented Ignored rule)
SameAsWire(c, o)  == IF Ign(c) THEN o.dres[1] = "ignored" /\ o.wres = <<"value", <<>>>>
                     ELSE o.dres[1] = o.wres[1] /\ o.dres = o.wres      \* (tags first: the payloads of different tags are of different sorts)
OnceEach(c, o)    == o.dcalls = 1 /\ o.wcalls = 1
\* the auxiliary twin runs on the side as often - and with the same first argument - on both paths
AuxAlike(c, o)    == c.aux => o.daux = o.waux
ClauseNames == {"ArgsDirect", "ArgsWire", "ResultDirect", "ResultWire", "SameAsWire", "OnceEach", "AuxAlike"}
Holds(n, c, o) == CASE n = "ArgsDirect" -> ArgsDirect(c, o) [] n = "ArgsWire" -> ArgsWire(c, o)
                    [] n = "ResultDirect" -> ResultDirect(c, o) [] n = "ResultWire" -> ResultWire(c, o)
                    [] n = "SameAsWire" -> SameAsWire(c, o) [] n = "OnceEach" -> OnceEach(c, o) [] n = "AuxAlike" -> AuxAlike(c, o)
\* the table's own law: whatever the mode, direct and wire expectations agree
TableLaw == \A c \in Cases : ~Ign(c) => NullResult(c) = WireResult(c)

\* ------------------------------------------------------------------- histories
\* One NullServer, one wire endpoint, a HISTORY of operations: the request header is set (h1, h2), cleared, and the methods f and g -
\* which return the header they see - are called.  A call sees the header in force WHEN IT IS MADE, on both paths.
\* callh: a method of a service that declares NO request header: it sees none, whatever the caller has set - on both paths
HOps == {"set1", "set2", "clear", "callf", "callg", "callh"}
Histories == UNION {[1..n -> HOps] : n \in 1..4}
RECURSIVE HdrAt(_, _)
HdrAt(h, k) == IF k = 0 THEN "none" ELSE IF h[k] = "set1" THEN "h1" ELSE IF h[k] = "set2" THEN "h2"
               ELSE IF h[k] = "clear" THEN "none" ELSE HdrAt(h, k - 1)
RECURSIVE SeenFrom(_, _)
SeenFrom(h, k) == IF k > Len(h) THEN <<>>
                  ELSE (IF h[k] \in {"callf", "callg"} THEN << HdrAt(h, k - 1) >> ELSE IF h[k] = "callh" THEN << "none" >> ELSE <<>>) \o SeenFrom(h, k + 1)
HistoryFails(h, o) == (IF o.direct = SeenFrom(h, 1) THEN {} ELSE {"HeaderDirect"}) \cup (IF o.wire = SeenFrom(h, 1) THEN {} ELSE {"HeaderWire"})
                      \cup (IF o.direct = o.wire THEN {} ELSE {"SameAsWire"})
ASSUME SeenFrom(<<"callf", "set1", "callf", "callg">>, 1) = <<"none", "h1", "h1">>
ASSUME SeenFrom(<<"set1", "callf", "clear", "callf">>, 1) = <<"h1", "none">>
ASSUME SeenFrom(<<"set1", "callh", "callg">>, 1) = <<"none", "h1">>
=============================================================================
