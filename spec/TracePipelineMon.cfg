INIT Init
NEXT Next
CONSTANT Clauses = {"CreatedFirst"}
CONSTRAINT Report
CHECK_DEADLOCK FALSE
