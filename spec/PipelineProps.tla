---------------------------- MODULE PipelineProps ----------------------------
(* The clauses of C09 / C10 / C13 / C14 as predicates over ONE merged observable
   history h (a sequence of pairs <<manager-or-kind, name-or-number>>) and a
   record k of what is known about the call:

     tr          "wsgi" | "base"
     rpc         an RPC request (FALSE for a ?wsdl fetch)
     soap        TRUE for SOAP 1.1 / 1.2 (status is always 500)
     done        the call, including the consumption of the body, is over
     fault       the call ended in a fault
     fnOk        the user function returned normally
     infault     the fault arose before the function could run
     malformed   the request was malformed / ill-typed / truncated
     code        fault code as a sequence of dot-separated segments (<<>> = no fault)
     cls         dedicated error class of the fault object, or "fault"
     status      numeric HTTP status passed to start_response (0 if none)
     statusKnown the status clause applies (fault raised by user code or earlier)
     maxlen, declared, toolong, nread   request-size bookkeeping
     aborted     the server closed the response iterable early
     mayEscape   a close listener of the scenario raises (the only legitimate escape)
     wcloseExpected  wsgi_close is expected (no method_context_closed listener raised before it)

   History vocabulary:
     <<"app"|"meth"|"svc"|"svc2", event>>   listener call on that manager
     <<"wsgi", event>>                      transport-level listener
     <<"fn", "call">>                       entry into the user function
     <<"sr", status>>                       start_response
     <<"io", "handover"|"chunk"|"iterclose">>
     <<"read", n>>                          wsgi.input.read(n)
     <<"escape", type>>                     exception out of the server code     *)
EXTENDS Naturals, Integers, Sequences, FiniteSets

CtxMgr == {"app", "meth", "svc", "svc2"}
Idx(h)          == 1..Len(h)
Count(h, m, n)  == Cardinality({i \in Idx(h) : h[i] = <<m, n>>})
CountK(h, m)    == Cardinality({i \in Idx(h) : h[i][1] = m})
Has(h, m, n)    == \E i \in Idx(h) : h[i] = <<m, n>>
First(h, m, n)  == CHOOSE i \in Idx(h) : h[i] = <<m, n>> /\ \A j \in 1..(i-1) : h[j] # <<m, n>>
Last(h, m, n)   == CHOOSE i \in Idx(h) : h[i] = <<m, n>> /\ \A j \in (i+1)..Len(h) : h[j] # <<m, n>>
Before(h, a, b) == Has(h, a[1], a[2]) /\ Has(h, b[1], b[2])
                   /\ Last(h, a[1], a[2]) < First(h, b[1], b[2])

\* fault codes are sequences of dot-separated segments; cls is the dedicated error
\* class of the fault object ("toolong", "notfound", "notallowed", "auth") or "fault"
IsClientCode(c) == Len(c) > 0 /\ c[1] = "Client"
Status(soap, cls, c) ==
  IF c = <<>> THEN 200
  ELSE IF soap THEN 500
  ELSE IF cls = "toolong" THEN 413
  ELSE IF cls = "notfound" THEN 404
  ELSE IF cls = "notallowed" THEN 405
  ELSE IF cls = "auth" THEN 401
  ELSE IF IsClientCode(c) THEN 400 ELSE 500

\* ---------------------------------------------------------------------- C14
\* "listeners see method_context_created first ..."
CreatedFirst(h) == \A i \in Idx(h) : h[i][1] \in CtxMgr =>
                      (Has(h, "app", "method_context_created")
                       /\ First(h, "app", "method_context_created") <= i)
\* "... each exactly once"
CreatedOnce(h, k) == Count(h, "app", "method_context_created") <= 1
                     /\ (k.done => Count(h, "app", "method_context_created") = 1)
ClosedOnce(h, k)  == Count(h, "app", "method_context_closed") <= 1
                     /\ (k.done => Count(h, "app", "method_context_closed") = 1)
\* "... and method_context_closed last"
ClosedLast(h, k) == k.done => /\ Has(h, "app", "method_context_closed")
                              /\ \A i \in Idx(h) :
                                   (h[i][1] \in CtxMgr /\ h[i][2] # "method_context_closed")
                                      => i < First(h, "app", "method_context_closed")
\* "the user function runs at most once and only after method_call"
FnAtMostOnce(h) == Count(h, "fn", "call") <= 1
FnAfterCall(h)  == Has(h, "fn", "call") =>
                     (Has(h, "app", "method_call")
                      /\ First(h, "app", "method_call") < First(h, "fn", "call"))
\* "method_return_object fires exactly when the function returned normally"
RetObjIffRet(h, k) == k.done => /\ (Has(h, "app", "method_return_object") <=> k.fnOk)
                                /\ Count(h, "app", "method_return_object") <= 1
\* "method_exception_object exactly when the call ends in a fault"
ExcObjIffFault(h, k) == k.done => /\ (Has(h, "app", "method_exception_object") <=> k.fault)
                                  /\ Count(h, "app", "method_exception_object") <= 1
\* "followed by the matching document and string events in that order"
Redirected(k) == "redirect" \in DOMAIN k /\ k.redirect
NoDocStr(h) == /\ ~Has(h, "app", "method_return_document") /\ ~Has(h, "app", "method_return_string")
               /\ ~Has(h, "app", "method_exception_document") /\ ~Has(h, "app", "method_exception_string")
\* (a ?wsdl fetch is not a call: it has a context, and no call events; the in-process transport builds no document at all)
NoDocuments(k) == "nodoc" \in DOMAIN k /\ k.nodoc
DocStrMatch(h, k) == (k.done /\ k.rpc /\ ~NoDocuments(k)) =>
  IF Redirected(k) THEN NoDocStr(h)       \* a redirect is neither a result nor a fault: no document is built
  ELSE IF ~k.fault
    THEN /\ Count(h, "app", "method_return_document") = 1
         /\ Count(h, "app", "method_return_string") = 1
         /\ Before(h, <<"app", "method_return_object">>, <<"app", "method_return_document">>)
         /\ Before(h, <<"app", "method_return_document">>, <<"app", "method_return_string">>)
         /\ ~Has(h, "app", "method_exception_document") /\ ~Has(h, "app", "method_exception_string")
    ELSE /\ Count(h, "app", "method_exception_document") = 1
         /\ Count(h, "app", "method_exception_string") = 1
         /\ Before(h, <<"app", "method_exception_object">>, <<"app", "method_exception_document">>)
         /\ Before(h, <<"app", "method_exception_document">>, <<"app", "method_exception_string">>)
         /\ ~Has(h, "app", "method_return_document") /\ ~Has(h, "app", "method_return_string")
\* listeners at method and service level see each event of a bound call after the
\* application-level ones, in manager order; within one manager in registration order
LevelsFollow(h) == \A i \in Idx(h) :
                     (h[i][1] = "svc2" /\ i > 3) =>
                        /\ h[i-1] = <<"svc", h[i][2]>> /\ h[i-2] = <<"meth", h[i][2]>>
                        /\ h[i-3] = <<"app", h[i][2]>>
\* once the method is matched (k.bound) its own and its service's listeners see every call-level event the application's see
\* (the exception events: a listener that raises during method_call / method_return_object legitimately cuts those short)
BoundEvents == {"method_exception_object", "method_exception_document", "method_exception_string"}
BoundLevelsSee(h, k) == (k.done /\ k.bound) =>
                           \A e \in BoundEvents : Has(h, "app", e) => (Has(h, "svc", e) /\ Has(h, "meth", e))
\* a listener that a SIBLING service class (another subclass of the same base) registered never sees a call of this service
NoForeign(h) == \A i \in Idx(h) : h[i][1] # "foreign"
\* every ctx event seen by the service from method_call on was also seen (earlier) by the app
SvcSubApp(h) == \A i \in Idx(h) : h[i][1] \in {"meth", "svc", "svc2"} =>
                    \E j \in 1..(i-1) : h[j] = <<"app", h[i][2]>>

\* ---------------------------------------------------------------------- C13
Chunks(h)  == {i \in Idx(h) : h[i] = <<"io", "chunk">>}
\* "start_response is called exactly once, before any body chunk"
SrOnce(h, k) == k.tr = "wsgi" =>
                  /\ CountK(h, "sr") <= 1
                  /\ \A i \in Chunks(h) : \E j \in 1..(i-1) : h[j][1] = "sr"
                  /\ (Has(h, "io", "handover") =>
                        \E j \in 1..First(h, "io", "handover") : h[j][1] = "sr")
                  /\ (k.done => CountK(h, "sr") = 1)
\* "the request context is closed ... not before the response body has been handed over"
CloseAfterBody(h, k) == (k.tr = "wsgi" /\ Has(h, "app", "method_context_closed")) =>
   LET c == First(h, "app", "method_context_closed") IN
     /\ Has(h, "io", "handover") /\ First(h, "io", "handover") < c
     /\ \A i \in Chunks(h) : i < c
     \* closed when the body is exhausted, or when the server closes the iterable
     /\ (k.done => Has(h, "io", "iterclose") /\ c < Last(h, "io", "iterclose"))
WsgiCloseOnce(h, k) == (k.tr = "wsgi" /\ k.rpc) =>
                         /\ Count(h, "wsgi", "wsgi_close") <= 1
                         /\ (k.done /\ k.wcloseExpected => Count(h, "wsgi", "wsgi_close") = 1)
\* "at most max_content_length bytes are ever read from the input stream"
ReadBound(h, k) == k.tr = "wsgi" => (k.nread <= k.maxlen /\ k.nread <= k.declared)
\* "a request body longer than max_content_length is refused with the
\*  request-too-long fault without invoking user code"
TooLongRefused(h, k) == (k.done /\ k.toolong) =>
     /\ ~Has(h, "fn", "call") /\ k.code = <<"Client", "RequestTooLong">>
     /\ k.status = (IF k.soap THEN 500 ELSE 413) /\ k.nread = 0

\* ... and ONLY such a request: a request whose declared length is within the limit is never refused for its size
\* (whatever the block size is - it need not divide the limit, and may exceed it)
WithinLimitRead(h, k) == (k.tr = "wsgi" /\ k.rpc /\ k.infault /\ ~k.toolong) => k.code # <<"Client", "RequestTooLong">>

\* ---------------------------------------------------------------- C10 / C09
\* "the user function is never run for a request that is answered with a fault"
\* (unless the fault was raised by the function or after it)
NoFnOnInFault(h, k) == k.infault => ~Has(h, "fn", "call")
\* "a request that is merely malformed ... Client family ... never a Server fault"
BadReqIsClient(h, k) == (k.done /\ k.malformed) => (k.fault /\ IsClientCode(k.code) /\ ~Has(h, "fn", "call"))
StatusTable(h, k) == (k.done /\ k.tr = "wsgi" /\ k.statusKnown /\ k.rpc) =>
     /\ k.status = (IF Redirected(k) THEN 302 ELSE Status(k.soap, k.cls, k.code))
     /\ \A i \in Idx(h) : h[i][1] = "sr" => h[i][2] = k.status
\* C10, for a request of unknown validity (fuzzing): either a normal response, or a
\* well-formed Client-family fault (4xx over HTTP for non-SOAP) without user code run
FuzzOutcome(h, k) ==
  /\ k.done
  /\ IF k.fault
       THEN /\ IsClientCode(k.code) /\ ~Has(h, "fn", "call") /\ k.faultDocOk
            /\ (k.tr = "wsgi" => IF k.soap THEN k.status = 500 ELSE (k.status >= 400 /\ k.status < 500))
       ELSE /\ Count(h, "fn", "call") <= 1
            /\ (k.tr = "wsgi" => k.status = 200)
NoEscape(h) == \A i \in Idx(h) : h[i][1] # "escape"
\* only a raising close listener may make an exception reach the WSGI server
NoEscapeK(h, k) == k.mayEscape \/ NoEscape(h)
=============================================================================
