------------------------------ MODULE SpyneFlatIdx ------------------------------
(* C03: the sparse -> contiguous index bookkeeping of SimpleDictDocument.simple_dict_to_object
   (`_s2cmi` and the idxmap) for one array of objects.  Wire indexes arrive in ANY order - the
   pairs are sorted as strings, so "10" comes before "2" -; the first sight of an index inserts a
   new element so that the list stays ordered by wire index, later sights address the same
   element.  m: wire index -> position (0-based); lst: wire indexes in list order.             *)
EXTENDS Naturals, Sequences, FiniteSets, TLC
CONSTANTS Idx,                   \* wire indexes that may be used, e.g. {0, 1, 2, 10, 11}
          Deviations             \* {} | {"AppendNew"}: a new element is appended instead of inserted
VARIABLES m, lst, act
vars == <<m, lst, act>>
Seen == DOMAIN m
Rank(i, S) == Cardinality({j \in S : j < i})
InsertAt(s, k, x) == SubSeq(s, 1, k) \o <<x>> \o SubSeq(s, k + 1, Len(s))
Init == m = <<>> /\ lst = <<>> /\ act = <<"init", 0, 0>>
New(i) == /\ i \notin Seen
          /\ LET k == IF "AppendNew" \in Deviations THEN Len(lst) ELSE Rank(i, Seen) IN
               /\ m' = [j \in Seen \cup {i} |-> IF j = i THEN k ELSE IF j > i /\ "AppendNew" \notin Deviations THEN m[j] + 1 ELSE m[j]]
               /\ lst' = InsertAt(lst, k, i)
               /\ act' = <<"new", i, k>>
Again(i) == i \in Seen /\ act' = <<"again", i, m[i]>> /\ UNCHANGED <<m, lst>>
Next == \E i \in Idx : New(i) \/ Again(i)
Spec == Init /\ [][Next]_vars
RankInv  == \A i \in Seen : m[i] = Rank(i, Seen)
OrderInv == \A a, b \in 1..Len(lst) : a < b => lst[a] < lst[b]
MapInv   == \A i \in Seen : lst[m[i] + 1] = i
=============================================================================
