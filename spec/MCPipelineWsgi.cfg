SPECIFICATION Spec
CONSTANT Deviations = {}
CONSTANT ScenSet = "wsgi"
INVARIANT CreatedFirst
INVARIANT CreatedOnce
INVARIANT ClosedOnce
INVARIANT ClosedLast
INVARIANT FnAtMostOnce
INVARIANT FnAfterCall
INVARIANT RetObjIffRet
INVARIANT ExcObjIffFault
INVARIANT DocStrMatch
INVARIANT LevelsFollow
INVARIANT SrOnce
INVARIANT CloseAfterBody
INVARIANT WsgiCloseOnce
INVARIANT NoFnOnInFault
INVARIANT BadReqIsClient
INVARIANT StatusTable
INVARIANT NoEscape
PROPERTY Terminates
CHECK_DEADLOCK FALSE
INVARIANT ReadBound
INVARIANT TooLongRefused
INVARIANT CountersAgree
