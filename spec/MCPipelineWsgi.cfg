SPECIFICATION Spec
CONSTANT Deviations = {}
CONSTANT ScenSet = "wsgi"
INVARIANT CreatedFirst
INVARIANT CreatedOnce
INVARIANT ClosedOnce
INVARIANT FnAtMostOnce
INVARIANT FnAfterCall
INVARIANT SrOnce
INVARIANT CloseAfterBody
INVARIANT WsgiCloseOnce
INVARIANT NoFnOnInFault
INVARIANT BadReqIsClient
INVARIANT StatusTable
INVARIANT NoEscape
INVARIANT ReadBound
INVARIANT TooLongRefused
INVARIANT CountersAgree
PROPERTY Terminates
CHECK_DEADLOCK FALSE
