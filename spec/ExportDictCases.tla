---- MODULE ExportDictCases ----
EXTENDS SpyneDictCases, Json, IOUtils, SequencesExt
ASSUME JsonSerialize(IOEnv.OUT_FILE, SetToSeq(DictCases))
VARIABLE x
Init == x = 0
Next == UNCHANGED x
====
