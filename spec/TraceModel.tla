------------------------------ MODULE TraceModel ------------------------------
(* M3: derivation histories executed on real classes, each step logged as
   [op |-> <<name, args...>>, view |-> projection of every pooled model], must be
   behaviours of SpyneModel: the logged operation is enabled and the projection it
   leaves behind is exactly the logged one.                                     *)
EXTENDS SpyneModel, Json, IOUtils
TraceLog == ndJsonDeserialize(IOEnv.TRACE_FILE)
VARIABLES tid, l
St(i) == TraceLog[tid].steps[i]
Op == St(l).op
ByOp ==
  CASE Op[1] = "CustPrim"      -> CustPrim(Op[2], Op[3])
    [] Op[1] = "CustProt"      -> CustProt(Op[2], Op[3])
    [] Op[1] = "Customize"     -> Customize(Op[2], Op[3])
    [] Op[1] = "ChildAttrs"    -> ChildAttrs(Op[2], Op[3], Op[4])
    [] Op[1] = "ChildAttrsAll" -> ChildAttrsAll(Op[2], Op[3])
    [] Op[1] = "ArrayOf"       -> ArrayOf(Op[2])
    [] Op[1] = "Mandatory"     -> Mandatory(Op[2])
    [] Op[1] = "Subclass"      -> Subclass(Op[2], Op[3], Op[4])
    [] Op[1] = "AppendField"   -> AppendField(Op[2], Op[3], Op[4])
    [] Op[1] = "InsertField"   -> InsertField(Op[2], Op[3], Op[4])
    [] Op[1] = "Publish"       -> Publish(Op[2])
    [] OTHER -> FALSE
\* JSON records arrive with the same field names; compare projection by projection
SameView(v, w) == Len(v) = Len(w) /\ \A j \in 1..Len(v) :
   /\ v[j].kind = w[j].kind /\ v[j].base = w[j].base /\ v[j].attrs = w[j].attrs /\ v[j].verd = w[j].verd
   /\ Len(v[j].fields) = Len(w[j].fields)
   /\ \A k \in 1..Len(v[j].fields) : v[j].fields[k] = w[j].fields[k]
\* type names (of the model and of its parts) as logged after every step: an operation other than Publish renames
\* nothing; Publish(i) renames at most parts of i's lineage - in particular never a part of an unrelated array or class
NamesBefore == IF l = 1 THEN TraceLog[tid].names0 ELSE St(l - 1).names
NamesFrame == \A j \in 1..Len(NamesBefore) :
                 (St(l).names[j] # NamesBefore[j]) => (Op[1] = "Publish" /\ j \in Lineage(pool, Op[2]))
TInit == Init /\ tid \in 1..Len(TraceLog) /\ l = 1
TNext == /\ l <= Len(TraceLog[tid].steps) /\ "view" \in DOMAIN St(l)
         /\ ByOp /\ SameView(view', St(l).view) /\ NamesFrame
         /\ l' = l + 1 /\ UNCHANGED tid
TSpec == TInit /\ [][TNext]_<<vars, tid, l>>
Report == /\ PrintT(<<"AT", tid, l>>)
          /\ (l = Len(TraceLog[tid].steps) + 1 => PrintT(<<"ACCEPT", tid>>))
=============================================================================
