------------------------------ MODULE SpyneEvents ------------------------------
(* EventManager (spyne/evmgr.py, spyne/util/oset.py) and the inheritance of
   service-level listeners (ServiceBaseMeta.__get_base_event_handlers).

   A manager maps an event name to an ORDERED SET of handlers: handlers run in
   the order of their first registration, registering a handler twice does not
   make it run twice.  A service class created as a subclass of other services
   starts with a private copy of its bases' handlers (first base first); later
   registrations on a base do not reach it and vice versa.

   Firing an event runs tab[m][e] in order and is NOT an action: it changes no table, however often and whenever it happens
   (the replay fires every event on every manager after every operation, also while nobody listens yet).

   C14: "Listeners run in registration order, a listener registered twice runs
   once, and service-level listeners are inherited by subclasses."             *)
EXTENDS Naturals, Sequences, FiniteSets, TLC
CONSTANTS Handlers, Events, MaxOps
Bases == {"B1", "B2"}
Mgrs  == {"app", "B1", "B2", "D"}        \* D = class D(B1, B2), once created

VARIABLES tab,      \* tab[m][e] : sequence of handlers, the run order
          made,     \* D exists
          nops,
          snap      \* history: what D inherited at creation
vars == <<tab, made, nops, snap>>

Empty == [m \in Mgrs |-> [e \in Events |-> <<>>]]
Init == tab = Empty /\ made = FALSE /\ nops = 0 /\ snap = [e \in Events |-> <<>>]

InSeq(h, s) == \E i \in 1..Len(s) : s[i] = h
AddTo(s, h) == IF InSeq(h, s) THEN s ELSE Append(s, h)
RECURSIVE Merge(_, _)
Merge(s, t) == IF t = <<>> THEN s ELSE Merge(AddTo(s, Head(t)), Tail(t))

\* EventManager.add_listener
Add(m, e, h) ==
  /\ nops < MaxOps /\ (m = "D" => made)
  /\ tab' = [tab EXCEPT ![m][e] = AddTo(@, h)]
  /\ nops' = nops + 1 /\ UNCHANGED <<made, snap>>

\* EventManager.del_listener(event, handler)
Del(m, e, h) ==
  /\ nops < MaxOps /\ (m = "D" => made) /\ InSeq(h, tab[m][e])
  /\ tab' = [tab EXCEPT ![m][e] = SelectSeq(@, LAMBDA x : x # h)]
  /\ nops' = nops + 1 /\ UNCHANGED <<made, snap>>

\* class D(B1, B2): pass
Subclass ==
  /\ ~made /\ made' = TRUE /\ nops < MaxOps
  /\ tab' = [tab EXCEPT !["D"] = [e \in Events |-> Merge(tab["B1"][e], tab["B2"][e])]]
  /\ snap' = [e \in Events |-> Merge(tab["B1"][e], tab["B2"][e])]
  /\ nops' = nops + 1

Next == \/ \E m \in Mgrs, e \in Events, h \in Handlers : Add(m, e, h) \/ Del(m, e, h)
        \/ Subclass
Spec == Init /\ [][Next]_vars

\* ---------------------------------------------------------------- properties
NoDup == \A m \in Mgrs, e \in Events :
           \A i, j \in 1..Len(tab[m][e]) : tab[m][e][i] = tab[m][e][j] => i = j
\* registration order: an Add never reorders what is already there
OrderKept == [][\A m \in Mgrs, e \in Events, h \in Handlers :
                  Add(m, e, h) => \A i \in 1..Len(tab[m][e]) : tab'[m][e][i] = tab[m][e][i]]_vars
\* inheritance gives D the bases' handlers, B1's first
Inherits == [][Subclass => \A e \in Events :
                 /\ \A i \in 1..Len(tab["B1"][e]) : tab'["D"][e][i] = tab["B1"][e][i]
                 /\ \A h \in Handlers : InSeq(h, tab'["D"][e]) <=> (InSeq(h, tab["B1"][e]) \/ InSeq(h, tab["B2"][e]))]_vars
\* managers are independent: an operation on m changes only m
Frame == [][\A m \in Mgrs, e \in Events, h \in Handlers :
              (Add(m, e, h) \/ Del(m, e, h)) =>
                 \A m2 \in Mgrs, e2 \in Events : (m2 # m \/ e2 # e) => tab'[m2][e2] = tab[m2][e2]]_vars
=============================================================================
