SPECIFICATION Spec
CONSTANT Deviations = {"SkipRegistered"}
INVARIANT Closed
CHECK_DEADLOCK FALSE
