---- MODULE TraceSchemaParse ----
(* X01 (beyond the listed properties): spyne.interface.xml_schema.parser is the inverse of the schema
   generator.  For every universe of SpyneSchema the published schemas are parsed back into classes;
   the classes read back are exactly the reachable nodes of the universe: same name, namespace, parent
   and own members (name, type name, type namespace, repeated or not).                                  *)
EXTENDS Naturals, Sequences, FiniteSets, TLC, Json, IOUtils
CONSTANTS Deviations
VARIABLES u, stack, reg, imports
S == INSTANCE SpyneSchema
TraceLog == ndJsonDeserialize(IOEnv.TRACE_FILE)
VARIABLE tid
R(t) == TraceLog[t]
Set(s) == {s[k] : k \in 1..Len(s)}
TypeName(n) == IF n = "int" THEN "integer" ELSE n
TypeNs(w, n) == IF n = "int" THEN "http://www.w3.org/2001/XMLSchema" ELSE S!NsOf(w, n)
Many(n) == n \in {"QArray", "RArray"}        \* the single member of an array wrapper repeats
Desc(w, n) == [name |-> n, ns |-> S!NsOf(w, n), base |-> S!Base(w, n),
               fields |-> [k \in 1..Len(S!FieldSpec(w, n)) |->
                             [n |-> S!FieldSpec(w, n)[k][1], t |-> TypeName(S!FieldSpec(w, n)[k][2]), tns |-> TypeNs(w, S!FieldSpec(w, n)[k][2]), many |-> Many(n)]]]
Expected(w) == {Desc(w, n) : n \in S!Reach(w) \ {"int"}}
Missing(t) == {d.name : d \in Expected(R(t).u) \ Set(R(t).obs.descs)}
Extra(t)   == {d.name : d \in Set(R(t).obs.descs) \ Expected(R(t).u)}
\* classes read back with the right members in another order (members of a choice group are read after the others)
Reordered(t) == {d.name : d \in {x \in Set(R(t).obs.descs) : \E e \in Expected(R(t).u) :
                                    e.name = x.name /\ e.ns = x.ns /\ e.base = x.base /\ Set(e.fields) = Set(x.fields) /\ e.fields # x.fields}}
Fails(t) == (IF R(t).obs.parsed THEN {} ELSE {"ParserRaises"})
            \cup (IF R(t).obs.parsed /\ Missing(t) # {} THEN {"ClassNotReadBack"} ELSE {})
            \cup (IF R(t).obs.parsed /\ Extra(t) # {} THEN {"ClassReadBackDiffers"} ELSE {})
Init == tid \in 1..Len(TraceLog) /\ u = R(tid).u /\ stack = <<>> /\ reg = {} /\ imports = [ns \in S!Ns |-> {}]
Next == UNCHANGED <<tid, u, stack, reg, imports>>
Report == PrintT(<<"V", tid, Fails(tid), Missing(tid), Extra(tid), Reordered(tid)>>)
====
