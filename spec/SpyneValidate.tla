----------------------------- MODULE SpyneValidate -----------------------------
(* C05 / C06: which requests soft validation (and the published schema) must accept.

   A case is a declared type with ONE facet group and ONE probe value; Valid(c) is
   computed here from the facet and the probe - never by Spyne and never by the
   driver.  The driver sends the same logical request to every protocol family at
   every nesting position and reports whether the user function ran; TLC compares
   with Valid(c).

   Numbers are carried in tenths (x10) so that 4.5 and 5.5 exist with integer
   arithmetic; instants as minutes relative to the bound.                      *)
EXTENDS Naturals, Integers, Sequences, FiniteSets, TLC

Positions == {"arg", "field", "array", "attr", "rep", "repfield"}     \* rep(field): a repeated argument / member (max_occurs > 1), not an Array
\* msgpack_bin: MessagePack with every text leaf sent as bin holding its UTF-8 bytes (how the protocol itself writes text, and what
\* packing Python byte strings produces): the facets are about the text whichever way it is packed
\* jsonrpc: JsonRpc('spyne'), the JSON envelope protocol ({"ver": 1, "body": {method: arguments}}) - the same documents inside
Families  == {"xml", "soap11", "soap12", "json", "yaml", "msgpack", "msgpack_bin", "http", "jsonrpc"}
TextFamilies == {"xml", "soap11", "soap12", "http"}

\* ------------------------------------------------------------------- numbers
IntTypes == {"Integer", "Integer8", "UnsignedInteger8", "Integer16", "UnsignedInteger16", "Integer32", "UnsignedInteger32"}
NumTypes == IntTypes \cup {"Decimal", "Double"}
NumFacets == {"none", "ge5", "gt5", "le5", "lt5", "ge5le7", "ge5gt3", "le5lt7", "ge5gt5", "le5lt5"}     \* (two bounds on one side: both hold - also when they tie)
Lo(ty) == CASE ty = "Integer8" -> 0 - 128 [] ty = "Integer16" -> 0 - 32768 [] ty = "Integer32" -> 0 - 2147483647 - 1
            [] ty \in {"UnsignedInteger8", "UnsignedInteger16", "UnsignedInteger32"} -> 0 [] OTHER -> 0 - 2147483647
Hi(ty) == CASE ty = "Integer8" -> 127 [] ty = "Integer16" -> 32767 [] ty = "Integer32" -> 2147483647
            [] ty = "UnsignedInteger8" -> 255 [] ty = "UnsignedInteger16" -> 65535 [] OTHER -> 2147483647
Bounded(ty) == ty \in {"Integer8", "UnsignedInteger8", "Integer16", "UnsignedInteger16"}   \* 32/64-bit bounds: BigCases (digit strings)
FacetOk(f, x10) == CASE f = "none" -> TRUE [] f = "ge5" -> x10 >= 50 [] f = "gt5" -> x10 > 50
                     [] f = "le5" -> x10 <= 50 [] f = "lt5" -> x10 < 50 [] f = "ge5le7" -> x10 >= 50 /\ x10 <= 70
                     [] f = "ge5gt3" -> x10 >= 50 /\ x10 > 30 [] f = "le5lt7" -> x10 <= 50 /\ x10 < 70
                     [] f = "ge5gt5" -> x10 >= 50 /\ x10 > 50 [] f = "le5lt5" -> x10 <= 50 /\ x10 < 50
ValidNum(ty, f, x10) ==
  /\ (ty \in IntTypes => x10 % 10 = 0)                      \* 4.5 is not an integer literal
  /\ (Bounded(ty) => (x10 >= 10 * Lo(ty) /\ x10 <= 10 * Hi(ty)))
  /\ FacetOk(f, x10)
\* probes: around the facet bound; exhaustively around (and for 8 bit: over) the width
AroundFacet == {30, 40, 45, 49, 50, 51, 55, 60, 70, 71, 80}
Probes(ty) == CASE ty \in {"Integer8", "UnsignedInteger8"} -> {10 * x : x \in (0 - 130)..260}
                [] ty = "Integer16" -> {10 * x : x \in {0 - 32770, 0 - 32769, 0 - 32768, 0 - 32767, 0 - 1, 0, 1, 32766, 32767, 32768, 32769}}
                [] ty = "UnsignedInteger16" -> {10 * x : x \in {0 - 2, 0 - 1, 0, 1, 65534, 65535, 65536, 65537}}
                [] OTHER -> {0 - 10, 0, 10}
NumCases ==
  UNION {{[group |-> "num", ty |-> ty, facet |-> f, x10 |-> x, valid |-> ValidNum(ty, f, x)] :
            x \in (IF f = "none" THEN Probes(ty) ELSE AroundFacet)} :
              ty \in NumTypes \ {"Integer32", "UnsignedInteger32"}, f \in NumFacets}
\* the thorough tier: the 16-bit types over the 600 values around each of their bounds, every facet over a dense grid of tenths
\* (4.5, 4.9, 5.0, 5.1 ...: the fractional types meet their bounds between the integers), and the instants over a finer grid
ProbesMore(ty) == CASE ty = "Integer16" -> {10 * x : x \in ((0 - 33068)..(0 - 32468)) \cup (32467..33067)}
                    [] ty = "UnsignedInteger16" -> {10 * x : x \in ((0 - 300)..300) \cup (65235..65835)}
                    [] OTHER -> {}
AroundFacetMore == 25..75
NumCasesMore ==
  UNION {{[group |-> "num", ty |-> ty, facet |-> f, x10 |-> x, valid |-> ValidNum(ty, f, x)] :
            x \in (IF f = "none" THEN ProbesMore(ty) ELSE AroundFacetMore)} :
              ty \in NumTypes \ {"Integer32", "UnsignedInteger32"}, f \in NumFacets}
\* 2^31 boundaries exceed TLC integers when multiplied by ten: listed as digit strings instead
BigCases == { [group |-> "big", ty |-> p[1], facet |-> "none", lit |-> p[2], valid |-> p[3]] : p \in {
   <<"Integer32", "2147483647", TRUE>>, <<"Integer32", "2147483648", FALSE>>, <<"Integer32", "-2147483648", TRUE>>,
   <<"Integer32", "-2147483649", FALSE>>, <<"UnsignedInteger32", "4294967295", TRUE>>, <<"UnsignedInteger32", "4294967296", FALSE>>,
   <<"Integer64", "9223372036854775807", TRUE>>, <<"Integer64", "9223372036854775808", FALSE>>,
   <<"Integer64", "-9223372036854775808", TRUE>>, <<"Integer64", "-9223372036854775809", FALSE>>,
   <<"UnsignedInteger64", "18446744073709551615", TRUE>>, <<"UnsignedInteger64", "18446744073709551616", FALSE>>,
   <<"UnsignedInteger64", "-1", FALSE>>, <<"UnsignedInteger32", "-1", FALSE>>, <<"Integer", "123456789012345678901234567890", TRUE>> } }

\* decimals with more significant digits than any fixed working precision, a hair away from a bound: the literal is the value
\* (xs:decimal has no precision limit; nothing may round it before it is compared)
DecBoundCases == { [group |-> "decbound", ty |-> "Decimal", facet |-> p[1], lit |-> p[2], valid |-> p[3]] : p \in {
   <<"le10_5", "10.50000000000000000000000000000000001", FALSE>>, <<"le10_5", "10.49999999999999999999999999999999999", TRUE>>,
   <<"le10_5", "10.5", TRUE>>, <<"lt1", "0.99999999999999999999999999999999", TRUE>>, <<"lt1", "1.00000000000000000000000000000000", FALSE>>,
   <<"ge10_5", "10.49999999999999999999999999999999999", FALSE>>, <<"ge10_5", "10.50000000000000000000000000000000001", TRUE>>,
   <<"gt1", "1.00000000000000000000000000000001", TRUE>>, <<"gt1", "1.0000000000000000000000000000000", FALSE>>,
   <<"le10_5", "123456789012345678901234567890123456789.5", FALSE>>, <<"ge10_5", "123456789012345678901234567890123456789.5", TRUE>> } }

\* ------------------------------------------------------------------- strings
\* probes carry their length and whether they are in the language of the pattern a+b (whole string)
StrProbes == { [t |-> "", len |-> 0, lang |-> FALSE], [t |-> "a", len |-> 1, lang |-> FALSE], [t |-> "b", len |-> 1, lang |-> FALSE],
               [t |-> "ab", len |-> 2, lang |-> TRUE], [t |-> "aab", len |-> 3, lang |-> TRUE], [t |-> "aaab", len |-> 4, lang |-> TRUE],
               [t |-> "abx", len |-> 3, lang |-> FALSE], [t |-> "xab", len |-> 3, lang |-> FALSE], [t |-> "ab_nl", len |-> 3, lang |-> FALSE],
               [t |-> "nl_ab", len |-> 3, lang |-> FALSE], [t |-> "AB", len |-> 2, lang |-> FALSE], [t |-> "uni3", len |-> 3, lang |-> FALSE] }
\* pattern_derived: the type is a customization (pattern a+b) OF a type with ANOTHER pattern (x+y) that has already been used to
\* validate a value: the facets in force are those of the type itself, whatever its ancestors were asked before
\* pattern_alt: the pattern a|ab (alternation): the WHOLE text must be in the language - "ab" is
StrFacets == {"minlen2", "maxlen3", "len2to3", "pattern", "pattern_maxlen3", "pattern_derived", "pattern_alt"}
ValidStr(f, p) == CASE f = "minlen2" -> p.len >= 2 [] f = "maxlen3" -> p.len <= 3 [] f = "len2to3" -> p.len >= 2 /\ p.len <= 3
                    [] f = "pattern_alt" -> p.t \in {"a", "ab"} [] f \in {"pattern", "pattern_derived"} -> p.lang [] f = "pattern_maxlen3" -> p.lang /\ p.len <= 3
StrCases == {[group |-> "str", ty |-> "Unicode", facet |-> f, text |-> p.t, valid |-> ValidStr(f, p)] : f \in StrFacets, p \in StrProbes}
EnumCases == {[group |-> "enum", ty |-> "Enum", facet |-> "red_green", text |-> x, valid |-> x \in {"red", "green"}] :
                x \in {"red", "green", "blue", "RED", "", "redgreen", "red_sp"}}

\* ----------------------------------------------------- occurrence, nullability
OccCases == {[group |-> "occ", ty |-> "Integer", mino |-> mi, maxo |-> ma, count |-> n,
              valid |-> n >= mi /\ n <= ma] : mi \in 0..2, ma \in {1, 2, 99}, n \in 0..3} \ {c \in
             {[group |-> "occ", ty |-> "Integer", mino |-> mi, maxo |-> ma, count |-> n, valid |-> n >= mi /\ n <= ma] :
                 mi \in 0..2, ma \in {1, 2, 99}, n \in 0..3} : c.mino > c.maxo}
\* (a declared default value changes what is DELIVERED for a nil or absent member, never whether the request is accepted)
NilCases == {[group |-> "nil", ty |-> ty, nillable |-> nl, mino |-> mi, how |-> h, dflt |-> df,
              valid |-> CASE h = "nil" -> nl [] h = "absent" -> mi = 0 [] h = "value" -> TRUE] :
                ty \in {"Integer", "Unicode"}, nl \in BOOLEAN, mi \in 0..1, h \in {"nil", "absent", "value"}, df \in BOOLEAN}
            \* ... for a Date (dict documents: null is not a date TEXT, it is no value)
            \cup {[group |-> "nil", ty |-> "Date", nillable |-> nl, mino |-> mi, how |-> h, dflt |-> FALSE,
              valid |-> CASE h = "nil" -> nl [] h = "absent" -> mi = 0 [] h = "value" -> TRUE] :
                nl \in BOOLEAN, mi \in 0..1, h \in {"nil", "absent", "value"}}
            \* ... and the same for an OBJECT (a class customized to be non-nillable / mandatory)
            \cup {[group |-> "nil", ty |-> "Obj", nillable |-> nl, mino |-> mi, how |-> h, dflt |-> FALSE,
              valid |-> CASE h = "nil" -> nl [] h = "absent" -> mi = 0 [] h = "value" -> TRUE] :
                nl \in BOOLEAN, mi \in 0..1, h \in {"nil", "absent", "value"}}

\* -------------------------------------------------------------------- instants
\* bound B = 2020-01-01T00:00:00Z; the probe is B + delta minutes, written with UTC offset `off`
DateFacets == {"ge", "gt", "le", "lt", "gegt", "lelt"}     \* gegt: ge = B and gt = B - 60 min; lelt: le = B and lt = B + 60 min
ValidDate(f, delta) == CASE f = "ge" -> delta >= 0 [] f = "gt" -> delta > 0 [] f = "le" -> delta <= 0 [] f = "lt" -> delta < 0
                         [] f = "gegt" -> delta >= 0 /\ delta > 0 - 60 [] f = "lelt" -> delta <= 0 /\ delta < 60
DateCases == {[group |-> "date", ty |-> "DateTime", facet |-> f, delta |-> d, off |-> o, valid |-> ValidDate(f, d)] :
                f \in DateFacets, d \in {0 - 90, 0 - 30, 0 - 1, 0, 1, 30, 90}, o \in {0, 60, 0 - 60, 330}}

\* a type that declares the zone its zone-less values are in (as_timezone = UTC+02:00): a literal WITHOUT a zone designator is
\* wall-clock time in that zone - the probe is written as B + 120 min + delta without designator ("local"), or as the same
\* instant with the designator Z ("z"); the facet is judged on the instant either way
ZoneCases == {[group |-> "zone", ty |-> "DateTime", facet |-> f, delta |-> d, how |-> h, valid |-> ValidDate(f, d)] :
                f \in {"ge", "gt", "le", "lt"}, d \in {0 - 150, 0 - 90, 0 - 1, 0, 1, 90, 150}, h \in {"local", "z"}}

\* a bound DECLARED without a zone (DateTime(ge=datetime(2020, 1, 1))) is an instant like any other - zone-less natives are in the
\* library's local zone, which is UTC - and the facet is judged on instants: no request may end in anything but run / client fault
NaiveBoundCases == {[group |-> "nbound", ty |-> "DateTime", facet |-> f, delta |-> d, off |-> o, valid |-> ValidDate(f, d)] :
                      f \in {"ge", "gt", "le", "lt"}, d \in {0 - 30, 0 - 1, 0, 1, 30}, o \in {0, 60}}

\* ------------------------------------------------- mandatory members, own and inherited
\* Der(Bas{m: Integer, mandatory}){n: Integer, mandatory}: a value lacking either member is invalid, whichever class declared it
InhCases == {[group |-> "inh", ty |-> "Der", omit |-> o, valid |-> o = "none"] : o \in {"none", "m", "n", "both"}}

\* ------------------------------------------------- a mandatory member that travels under another name (sub_name)
SubNameCases == {[group |-> "subname", ty |-> "Sn", how |-> h, valid |-> h = "present"] : h \in {"present", "absent"}}

\* ------------------------------------------------- a mandatory XML ATTRIBUTE member: At{v: attribute Integer, mandatory; w: Integer}
\* (declared through the wrapped type's min_occurs = 1, or with use = required): present -> valid, absent -> invalid
AttrReqCases == {[group |-> "attrreq", ty |-> "At", decl |-> d, how |-> h, valid |-> h = "present"] : d \in {"min1", "required"}, h \in {"present", "absent"}}

\* ------------------------------------------------------------- times of day
\* the bound has a sub-second part (hh:00:00.25); the probes spell fractions with one to six digits: ".3" is three tenths
TimeProbes == { <<"", 0>>, <<".2", 200000>>, <<".25", 250000>>, <<".3", 300000>>, <<".250001", 250001>>, <<".24999", 249990>>,
                <<".5", 500000>>, <<".05", 50000>>, <<".249", 249000>>, <<".251", 251000>> }
TimeCases == {[group |-> "time", ty |-> "Time", facet |-> f, frac |-> p[1], us |-> p[2],
               valid |-> IF f = "le25" THEN p[2] <= 250000 ELSE p[2] >= 250000] : f \in {"le25", "ge25"}, p \in TimeProbes}

\* ------------------------------------------------------ lexical well-formedness
\* (text families only: in dict documents the counterpart is "wrong value kind", C04)
LexBad == { <<"Integer", "abc">>, <<"Integer", "1.5">>, <<"Integer", "1_0">>, <<"Integer", "arabic3">>, <<"Integer", "0x10">>,
            <<"Integer", "1e3">>, <<"Integer", "--1">>, <<"Integer", "1 2">>, <<"Integer", "fullwidth7">>,
            <<"Decimal", "abc">>, <<"Decimal", "1.5.5">>, <<"Decimal", "1,5">>, <<"Decimal", "1e3">>, <<"Decimal", "NaN">>, <<"Decimal", "INF">>,
            <<"Double", "abc">>, <<"Double", "1.5.5">>, <<"Double", "1,5">>, <<"Double", "nan">>, <<"Double", "Infinity">>, <<"Double", "1_0.5">>,
            <<"Boolean", "maybe">>, <<"Boolean", "TRUE">>, <<"Boolean", "yes">>, <<"Boolean", "2">>, <<"Boolean", "tru">>,
            <<"DateTime", "2020-13-01T00:00:00">>, <<"DateTime", "2020-01-01">>, <<"DateTime", "2020-01-01T25:00:00">>, <<"DateTime", "abc">>,
            <<"DateTime", "2020-01-01T00:00:00+15:00">>, <<"DateTime", "2020-02-30T00:00:00">>,
            <<"Date", "2020-02-30">>, <<"Date", "20200101">>, <<"Date", "abc">>, <<"Time", "25:00:00">>, <<"Time", "12:00">>, <<"Time", "abc">>,
            <<"Duration", "abc">>, <<"Duration", "P">>, <<"Duration", "1D">>, <<"Duration", "PT">>, <<"Duration", "P1S">>,
            <<"Uuid", "abc">>, <<"Uuid", "12345678-1234-1234-1234-123456789abcX">>, <<"Uuid", "12345678123412341234123456789ab">> }
LexGood == { <<"Integer", "5">>, <<"Integer", "-5">>, <<"Integer", "+5">>, <<"Integer", "005">>, <<"Decimal", "1.5">>, <<"Decimal", ".5">>,
             <<"Decimal", "-1.50">>, <<"Double", "1.5">>, <<"Double", "1E3">>, <<"Double", "INF">>, <<"Double", "NaN">>, <<"Double", "-INF">>,
             <<"Boolean", "true">>, <<"Boolean", "false">>, <<"Boolean", "1">>, <<"Boolean", "0">>,
             <<"DateTime", "2020-01-01T00:00:00">>, <<"DateTime", "2020-01-01T00:00:00Z">>, <<"DateTime", "2020-01-01T00:00:00.5+05:30">>,
             <<"Date", "2020-02-29">>, <<"Time", "23:59:59">>, <<"Time", "23:59:59.5">>, <<"Duration", "P1D">>, <<"Duration", "PT1.5S">>,
             <<"Duration", "-P1DT2H">>, <<"Uuid", "12345678-1234-1234-1234-123456789abc">> }
LexCases == {[group |-> "lex", ty |-> p[1], facet |-> "none", text |-> p[2], valid |-> FALSE] : p \in LexBad}
            \cup {[group |-> "lex", ty |-> p[1], facet |-> "none", text |-> p[2], valid |-> TRUE] : p \in LexGood}

\* -------------------------------------------- arrays of objects, element by element
\* n objects, each with a mandatory member v; element `missing` (0 = none) lacks it.  HttpRpc
\* spells the elements a[i].v with contiguous or sparse indexes (where "10" sorts before "2")
ObjArrCases == {[group |-> "objarr", ty |-> "Integer", n |-> n, idx |-> ix, missing |-> m, valid |-> m = 0] :
                  n \in {2, 3, 11}, ix \in {"contig", "sparse"}, m \in 0..3}

\* ------------------------------------------------- values only ever WRITTEN (C06)
\* conformant values whose canonical text is delicate: binary members under each declared
\* encoding, decimals of large and small magnitude, doubles at the edges
OutBytes == { <<>>, <<0>>, <<222, 173>>, <<255, 254, 253, 252>>, <<1, 2, 3, 4, 5, 6, 7>> }
OutCases == {[group |-> "out", ty |-> "ByteArray", facet |-> e, bytes |-> b, lit |-> "", valid |-> TRUE] : e \in {"none", "base64", "hex"}, b \in OutBytes}
            \cup {[group |-> "out", ty |-> p[1], facet |-> "none", bytes |-> <<>>, lit |-> p[2], valid |-> TRUE] : p \in {
                 <<"Decimal", "2.8E+10">>, <<"Decimal", "1E-7">>, <<"Decimal", "0E-10">>, <<"Decimal", "-1.50">>, <<"Decimal", "123456789012345678901234567890.5">>,
                 <<"Double", "1e+22">>, <<"Double", "1e-07">>, <<"Double", "-0.0">>, <<"Double", "inf">>, <<"Double", "nan">>,
                 <<"Integer", "123456789012345678901234567890">>, <<"Unicode", "lt_amp">>, <<"Unicode", "sp_lead">> }}

DateCasesMore == {[group |-> "date", ty |-> "DateTime", facet |-> f, delta |-> d, off |-> o, valid |-> ValidDate(f, d)] :
                   f \in DateFacets, d \in ((0 - 61)..61) \cup {0 - 90, 90, 0 - 720, 720}, o \in {0, 60, 0 - 60, 330, 0 - 570, 840}}
CasesMore == NumCasesMore \cup DateCasesMore
Cases == ObjArrCases \cup NumCases \cup BigCases \cup DecBoundCases \cup StrCases \cup EnumCases \cup OccCases \cup NilCases \cup DateCases \cup ZoneCases \cup NaiveBoundCases \cup TimeCases \cup InhCases \cup SubNameCases \cup AttrReqCases \cup LexCases

\* ---- laws of the table (anti-vacuity): every facet is effective - some probe is rejected by it
\* alone - and admits something
Effective ==
  /\ \A f \in NumFacets \ {"none"} : (\E c \in NumCases : c.facet = f /\ c.ty = "Integer" /\ ~c.valid /\ ValidNum("Integer", "none", c.x10))
                                     /\ (\E c \in NumCases : c.facet = f /\ c.ty = "Integer" /\ c.valid)
  /\ \A f \in StrFacets : (\E c \in StrCases : c.facet = f /\ ~c.valid) /\ (\E c \in StrCases : c.facet = f /\ c.valid)
  /\ \A f \in DateFacets : (\E c \in DateCases : c.facet = f /\ ~c.valid) /\ (\E c \in DateCases : c.facet = f /\ c.valid)
  /\ \A ty \in {"Integer8", "UnsignedInteger8", "Integer16", "UnsignedInteger16"} :
        (\E c \in NumCases : c.ty = ty /\ c.facet = "none" /\ ~c.valid) /\ (\E c \in NumCases : c.ty = ty /\ c.facet = "none" /\ c.valid)
\* the verdict of an instant does not depend on the offset it is written with
OffsetFree == \A c1, c2 \in DateCases : (c1.facet = c2.facet /\ c1.delta = c2.delta) => c1.valid = c2.valid

\* ---- clause evaluated on an observation [ran, fault, code]
\* accepted <=> the user function ran; rejected => a Client.* fault and no user code
Verdict(c, o) == IF c.valid THEN o.ran /\ ~o.fault
                 ELSE ~o.ran /\ o.fault /\ o.client
=============================================================================
