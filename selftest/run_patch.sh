#!/bin/sh
# usage: selftest/run_patch.sh <patch-file | revert:<commit>> <PROPERTY-ID> [tier]
# Applies the change to a scratch worktree of /repo (never to /repo itself), runs the
# check against it through VERIF_REPO, removes the worktree.  Exit status = the check's.
P="$1"; ID="$2"; TIER="${3:-quick}"
WT="/tmp/wt/st_$$"
mkdir -p /tmp/wt
# (several of these may start at once: git serializes worktree creation with a lock file, so try a few times)
n=0
until git -C /repo worktree add -q --detach "$WT" HEAD 2>/dev/null; do
  n=$((n+1)); [ $n -ge 10 ] && exit 2; sleep 1
done
case "$P" in
  revert:*) (cd "$WT" && git revert --no-commit "${P#revert:}" >/dev/null) || { git -C /repo worktree remove --force "$WT"; exit 2; } ;;
  *) (cd "$WT" && git apply "$P") || { git -C /repo worktree remove --force "$WT"; exit 2; } ;;
esac
cd /verif && VERIF_REPO="$WT" ./check "$ID" --tier "$TIER"
RC=$?
git -C /repo worktree remove --force "$WT"
exit $RC
