#!/bin/sh
# usage: selftest/intake.sh <dir-with-seed-dirs> <seed-id>...   confirm each seed, then run its property's quick check against it
D="$1"; shift
for s in "$@"; do
  p=${s%_*}
  /venv/bin/python /verif/selftest/confirm_seed.py "$D/$s" "$s" "$p" 2>&1 | cut -c1-60
done
/venv/bin/python /verif/selftest/matrix.py "$@" 2>&1 | tail -$#
