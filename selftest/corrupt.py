#!/usr/bin/env python3
"""Binding self-test (not part of MANIFEST): for the trace specifications, take observations recorded from the REAL code
(they must be accepted), corrupt ONE recorded field, and require TLC to name the clause that now fails.
Shows that the trace specifications constrain what is recorded - an accepted trace is not accepted vacuously.

usage: PYTHONHASHSEED=0 /venv/bin/python selftest/corrupt.py        (exit 0 = every corruption was rejected as expected)
"""
import copy, json, os, sys
sys.path.insert(0, os.path.dirname(os.path.dirname(os.path.abspath(__file__))))
from harness import core, tlc, pipeline_common as pc
core.use_repo()
ctx = core.Ctx('SELFTEST', 'quick', 0)
CFG = ['INIT Init', 'NEXT Next', 'CONSTRAINT Report', 'CHECK_DEADLOCK FALSE']
ok = True


def judge(module, recs, cfg=CFG, tag='st'):
    res = tlc.validate_records(module, cfg, ctx.work, recs, tag=tag)
    return [set(res[i][0]) for i in range(len(recs))]


def expect(name, module, good, bad, clause, cfg=CFG):
    global ok
    g, b = judge(module, [good, bad], cfg)
    fine = (not g) and clause in b
    ok = ok and fine
    print('%-28s %-18s real observation accepted: %-5s corrupted one rejected by %s: %s %s' % (
        name, module, not g, clause, clause in b, '' if fine else '   <-- UNEXPECTED (good: %s, bad: %s)' % (sorted(g), sorted(b))))


# ---- C05 / C06: TraceValidate
good = {'valid': True, 'obs': {'ran': True, 'fault': False, 'client': False, 'lxml': True}}
expect('verdict: ran flipped', 'TraceValidate', good, {'valid': True, 'obs': dict(good['obs'], ran=False, fault=True, client=True)}, 'RejectedValid')
expect('verdict: lxml flipped', 'TraceValidate', good, {'valid': True, 'obs': dict(good['obs'], lxml=False)}, 'SchemaDisagrees')

# ---- C01: TraceXml on a real exchange
from harness import sigcases as S
from harness.checks import c01
cases = S.export(ctx)
c = [x for x in cases if x['id'] == 'T1' and x['vals'][0] == ['leaf', '5']][0]
w = c01.World(c, 'soap11', 'soft')
obs = w.exchange()
rec = {'c': c, 'fam': 'soap11', 'obs': {k: v for k, v in obs.items() if k in ('req', 'resp', 'args', 'ncalls')}}
bad = copy.deepcopy(rec)
k = [i for i, t in enumerate(bad['obs']['resp']) if t[0] == 'T'][0]
bad['obs']['resp'][k][1] += 'x'
expect('xml: response text changed', 'TraceXml', rec, bad, 'RespIsSpec')
bad = copy.deepcopy(rec)
bad['obs']['ncalls'] = 2
expect('xml: called twice', 'TraceXml', rec, bad, 'Delivered')

# ---- C02: TraceDict on a real exchange
from harness import dictdoc as D
dc = [x for x in D.export(ctx) if x['id'] == 'T7' and len(x['rets']) == 2 and x['rvals'][0] != ['nil']][0]
cfg_ = dict(fam='json', iw=True, ca='dict', poly=False)
o = D.World(dc, cfg_, 'soft').exchange(dc, 'map')
rec = {'c': dc, 'cfg': cfg_, 'form': 'map', 'obs': {k: v for k, v in o.items() if k in ('req', 'resp', 'args', 'ncalls', 'dec')}}
bad = copy.deepcopy(rec)
bad['obs']['resp'] = ['map', bad['obs']['resp'][1] + [['extra', ['num', '1']]]] if bad['obs']['resp'][0] == 'map' else ['null']
expect('dict: extra member in reply', 'TraceDict', rec, bad, 'RespIsSpec')

# ---- C04: TraceMutate
from harness import zoo as Z
from harness.checks import c04
table = Z.export(ctx)
cf = dict(group='xml', fam='xml', validator='soft', poly=False)
srv = c04.server(table, cf)
o, info = c04.send(table, cf, srv, None)
bad = copy.deepcopy(o)
bad['args'][1] = ['leaf', 'str']
expect('types: str in Integer slot', 'TraceMutate', {'obs': o}, {'obs': bad}, 'ForeignValueDelivered')

# ---- C17: TraceXmlAttack
a = {'kind': 'ext_general_file', 'pos': 'text_unicode', 'prot': 'xml', 'transport': 'wsgi', 'framing': 'plain'}
o = {'called': True, 'fault': False, 'client': False, 'escape': False, 'canary': False, 'expanded': False, 'file_opened': False,
     'net_contact': False, 'seconds10': 0, 'mb': 1, 'nodes': 5, 'reqnodes': 5}
cfga = ['INIT Init1', 'NEXT Next1', 'CONSTRAINT Report', 'CONSTANT Deviations = {}', 'CONSTANT MaxInst = 3', 'CHECK_DEADLOCK FALSE']
expect('attack: file opened', 'TraceXmlAttack', {'what': 'attack', 'a': a, 'obs': o}, {'what': 'attack', 'a': a, 'obs': dict(o, file_opened=True)}, 'FileOpened', cfga)

# ---- C07: TraceWsdlDoc on a real document
from harness import wsdlworld as W
apps = json.load(open(os.path.join(ctx.work, 'x'))) if False else None
out = os.path.join(ctx.work, 'apps.json')
tlc.run('ExportWsdl', pc.write_cfg(os.path.join(ctx.work, 'ew.cfg'), ['INIT Init', 'NEXT Next', 'CHECK_DEADLOCK FALSE']), ctx.work,
        env={'OUT_FILE': out, 'FAMILY': 'quick'})
app = sorted(json.load(open(out)), key=lambda a: json.dumps(a, sort_keys=True))[5]
wz, seen, classes = W.build(app)
per, d = W.analyze(W.wsdl(wz), app)
d['digests'] = ['a', 'a']
m = app['services'][0]['methods'][0]
o = dict(per[m['name']], zeep='ok')
expect('wsdl: operation listed twice', 'TraceWsdlDoc', {'what': 'method', 'a': app, 'm': m, 'o': o},
       {'what': 'method', 'a': app, 'm': m, 'o': dict(o, npt=2)}, 'OpOnce')
expect('wsdl: digests differ', 'TraceWsdlDoc', {'what': 'doc', 'a': app, 'd': d}, {'what': 'doc', 'a': app, 'd': dict(d, digests=['a', 'b'])}, 'Deterministic')

# ---- C13 / C14: PipelineProps on a real history
from harness import drive_pipeline as dp
scen = [s for s in pc.export_scenarios(ctx, 'events') if s['req']['class'] == 'valid' and s['inj']['fn'] == 'ok' and s['cfg']['tr'] == 'wsgi'][0]
r = dp.run(scen)
good = {'obs': r['obs'], 'k': r['k']}
bad = {'obs': [e for e in r['obs'] if e != ['app', 'method_context_closed']], 'k': r['k']}
cfgm = ['INIT Init', 'NEXT Next', 'CONSTANT Clauses = {"ClosedOnce", "ClosedLast", "CreatedOnce", "SrOnce"}', 'CONSTRAINT Report', 'CHECK_DEADLOCK FALSE']
expect('pipeline: close event removed', 'TracePipelineMon', good, bad, 'ClosedOnce', cfgm)

# ---- C09: TraceFault on a real fault response
from harness.checks import c09
fc = [c for c in c09.export_cases(ctx) if c['fam'] == 'soap11' and c['meth'] == 'f' and c['where'] == 'fn' and c['f']['kind'] == 'fault'
      and c['f']['cls'] == 'fault' and c['f']['code'] == ['Client', 'A'] and c['f']['msg'] == 'plain' and c['f']['detail'] == 'flat'][0]
fw = c09.World('soap11', 'S3C-selftest-K')
raiser, box = c09.make_raiser(fc, 'S3C-selftest-K')
fw.pending[0] = raiser
fw.where[0] = 'fn'
st_, hd_, body_, esc_ = fw.call('f')
fobs = c09.observe('soap11', st_, hd_, body_, esc_, box, 'S3C-selftest-K')
fcase = json.loads(json.dumps(fc)); fcase['f']['msg'] = 'same'
fobs = {k: v for k, v in fobs.items() if k != 'parse_error'}
expect('fault: status line changed', 'TraceFault', {'case': fcase, 'obs': fobs}, {'case': fcase, 'obs': dict(fobs, status=200)}, 'StatusOk')
expect('fault: code segment lost', 'TraceFault', {'case': fcase, 'obs': fobs}, {'case': fcase, 'obs': dict(fobs, code=['Client'])}, 'SameCode')

# ---- C18: TraceNull on a real direct / wire pair
from harness.checks import c18
nc = {'style': 'wrapped', 'ret': 'one', 'modes': ['pos', 'kw'], 'rename': False, 'dflt': False, 'aux': False, 'narrow': False, 'ostr': False}
nseen = []
napp = c18.build(nc['style'], 2, nc['ret'], nseen)
dres, dargs = c18.direct(napp, nc, nseen)
wres, wargs = c18.wire_xml(napp, nc, nseen)
nobs = {'dres': dres, 'wres': wres, 'dcalls': len(dargs), 'wcalls': len(wargs), 'daux': [], 'waux': [],
        'dargs': [(-1 if a is None else a) for a in dargs[0]], 'wargs': [(-1 if a is None else a) for a in wargs[0]]}
expect('null: wire argument changed', 'TraceNull', {'case': nc, 'obs': nobs}, {'case': nc, 'obs': dict(nobs, wargs=[10, 99])}, 'ArgsWire')
expect('null: called twice directly', 'TraceNull', {'case': nc, 'obs': nobs}, {'case': nc, 'obs': dict(nobs, dcalls=2)}, 'OnceEach')

# ---- C03: TraceFlat on a real flat request
from harness import flat as F
fd = F.export(ctx)
flc = [c for c in fd['cases'] if c['id'] == 'F3' and len(c['args']) == 1 and c['args'][0]['n'] == 'a'][0]
fcfg = dict(delim='.', idx='contig', order='asc', strict=False)
flw = F.World(flc, fcfg, 'soft')
fpairs = F.request_pairs(flc, fcfg)
flw.send(flc, fpairs)
flobs = {'pairs': [list(p_) for p_ in fpairs], 'ncalls': len(flw.seen), 'args': flw.delivered(flc)}
frec = {'kind': 'req', 'c': flc, 'cfg': fcfg, 'obs': flobs}
fbad = copy.deepcopy(frec); fbad['obs']['pairs'] = fbad['obs']['pairs'][:-1]
expect('flat: a pair not sent', 'TraceFlat', frec, fbad, 'ReqIsSpec')
fbad = copy.deepcopy(frec); fbad['obs']['ncalls'] = 0
expect('flat: function not called', 'TraceFlat', frec, fbad, 'Delivered')

# ---- C15: TraceModel (a behaviour specification: accepted = every step is an action of SpyneModel with the logged view)
from harness.checks import c15
def history(corrupt):
    pool = c15.fresh_pool()
    names0 = c15.names_of(pool)
    steps = []
    for op in [('CustPrim', 1, 'ge5'), ('Customize', 3, 'min1'), ('CustPrim', 7, 'paexc')]:
        c15.apply_op(pool, op)
        steps.append({'op': [x for x in op], 'view': c15.view_of(pool), 'names': c15.names_of(pool)})
    if corrupt:
        steps[0]['view'][0]['attrs']['ge'] = 5          # the ORIGINAL Integer reported as changed by the first derivation
    return {'steps': steps, 'names0': names0}
tfm = os.path.join(ctx.work, 'model_selftest.ndjson')
with open(tfm, 'w') as f:
    f.write(json.dumps(history(False)) + '\n' + json.dumps(history(True)) + '\n')
cfgm_ = pc.write_cfg(os.path.join(ctx.work, 'tracemodel_st.cfg'), ['SPECIFICATION TSpec', 'CONSTANT MaxOps = 99', 'CONSTRAINT Report', 'CHECK_DEADLOCK FALSE'])
rtm = tlc.run('TraceModel', cfgm_, ctx.work, env={'TRACE_FILE': tfm}, timeout=600)
accm = set(p_[1] for p_ in rtm.prints if p_ and p_[0] == 'ACCEPT')
fine = accm == {1}
ok = ok and fine
print('%-28s %-18s real history accepted: %-5s corrupted one rejected: %s %s' % ('model: original changed', 'TraceModel', 1 in accm, 2 not in accm, '' if fine else '   <-- UNEXPECTED'))

import shutil
shutil.rmtree(ctx.work, ignore_errors=True)
print('binding self-test: %s' % ('all corruptions rejected' if ok else 'SOMETHING WAS ACCEPTED THAT SHOULD NOT BE'))
sys.exit(0 if ok else 1)
