#!/usr/bin/env python3
"""Run the quick check of each seeded change's property against the change (scratch worktree)
and write selftest/REPORT.md + update seeded/<id>/meta.json['check_result']."""
import concurrent.futures as cf, json, os, re, subprocess, sys, time
V = '/verif'
ids = sorted(d for d in os.listdir(V + '/seeded') if os.path.exists('%s/seeded/%s/patch.diff' % (V, d)))
if len(sys.argv) > 1:
    ids = [i for i in ids if any(i.startswith(a) for a in sys.argv[1:])]
def one(sid):
    meta = json.load(open('%s/seeded/%s/meta.json' % (V, sid)))
    prop = meta['property']
    t = time.time()
    r = subprocess.run(['%s/selftest/run_patch.sh' % V, '%s/seeded/%s/patch.diff' % (V, sid), prop], stdout=subprocess.PIPE, stderr=subprocess.STDOUT)
    out = r.stdout.decode('utf8', 'replace')
    keys = re.findall(r'^  key=(.*)$', out, re.M)
    return sid, prop, r.returncode, keys, round(time.time() - t), meta
rows = []
with cf.ThreadPoolExecutor(4) as ex:
    for sid, prop, rc, keys, secs, meta in ex.map(one, ids):
        verdict = 'caught' if rc == 1 and keys else ('MISSED' if rc == 0 else 'machinery rc=%d' % rc)
        meta['check_result'] = '%s by ./check %s --tier quick (%d distinct violation keys; first: %s)' % (verdict, prop, len(keys), keys[0][:120] if keys else '-')
        json.dump(meta, open('%s/seeded/%s/meta.json' % (V, sid), 'w'), indent=1)
        rows.append((sid, prop, verdict, len(keys), secs, meta.get('summary', '')[:110], keys[0][:90] if keys else ''))
        print(sid, verdict, len(keys), secs)
old = {}
rp = V + '/selftest/REPORT.md'
if os.path.exists(rp):
    for l in open(rp):
        m = re.match(r'\| (\S+) \|', l)
        if m and m.group(1) not in ('seed',): old[m.group(1)] = l
for r in rows:
    old[r[0]] = '| %s | %s | %s | %d | %ds | %s | `%s` |\n' % r
with open(rp, 'w') as f:
    f.write('# Seeded changes vs. checks (quick tier)\n\nEach row: a change produced by an independent sub-agent that saw only the property text, confirmed\n(demo passes clean / fails with the change / repository suite still passes) by selftest/confirm_seed.py,\nthen run through `selftest/run_patch.sh <patch> <property>`.\n\n| seed | property | result | keys | time | what the change does | first violation key |\n|---|---|---|---|---|---|---|\n')
    for k in sorted(old):
        f.write(old[k])
