#!/usr/bin/env python3
"""Confirm a seeded change in a scratch worktree and file it under /verif/seeded/<id>/.
usage: confirm_seed.py <dir-with-patch.diff,demo.py,meta.json> <seed-id> <property> [check-result-note]"""
import json, os, shutil, subprocess, sys, time
src, sid, prop = sys.argv[1:4]
note = sys.argv[4] if len(sys.argv) > 4 else ''
wt = '/tmp/wt/confirm_%d' % os.getpid()
os.makedirs('/tmp/wt', exist_ok=True)
def sh(cmd, cwd=None, **kw):
    return subprocess.run(cmd, shell=True, cwd=cwd, stdout=subprocess.PIPE, stderr=subprocess.STDOUT, **kw)
assert sh('git -C /repo worktree add -q --detach %s HEAD' % wt).returncode == 0
res = {}
try:
    env = dict(os.environ); env.pop('SPYNE_VERIF', None)
    r = sh('/venv/bin/python %s/demo.py' % src, cwd=wt, env=env, timeout=600); res['demo_clean_rc'] = r.returncode
    a = sh('git apply %s/patch.diff' % src, cwd=wt); res['apply_rc'] = a.returncode
    r = sh('/venv/bin/python %s/demo.py' % src, cwd=wt, env=env, timeout=600); res['demo_patched_rc'] = r.returncode
    res['demo_patched_tail'] = r.stdout.decode('utf8', 'replace')[-400:]
    b = sh('/venv/bin/python /verif/harness/baseline.py %s' % wt, timeout=1800); res['baseline'] = b.stdout.decode().strip().splitlines()[0] if b.stdout else ''
    res['baseline_rc'] = b.returncode
finally:
    sh('git -C /repo worktree remove --force %s' % wt)
ok = res.get('demo_clean_rc') == 0 and res.get('apply_rc') == 0 and res.get('demo_patched_rc') not in (0, None) and res.get('baseline_rc') == 0
print(sid, 'CONFIRMED' if ok else 'REJECTED', res)
if ok:
    dst = '/verif/seeded/%s' % sid
    os.makedirs(dst, exist_ok=True)
    if os.path.realpath(src) != os.path.realpath(dst):
        shutil.copy(src + '/patch.diff', dst + '/patch.diff')
        shutil.copy(src + '/demo.py', dst + '/demo.py')
    meta = json.load(open(src + '/meta.json'))
    meta.update({'property': prop, 'confirmed': {'repo_head': sh('git -C /repo rev-parse --short HEAD').stdout.decode().strip(),
                 'demo_on_clean_tree_rc': res['demo_clean_rc'], 'demo_with_change_rc': res['demo_patched_rc'],
                 'baseline_with_change': res['baseline'], 'when': time.strftime('%Y-%m-%d %H:%M')},
                 'ran': 'selftest/confirm_seed.py (scratch worktree: demo clean, git apply, demo, harness/baseline.py); selftest/run_patch.sh <patch> %s' % prop,
                 'check_result': note})
    json.dump(meta, open(dst + '/meta.json', 'w'), indent=1)
sys.exit(0 if ok else 1)
