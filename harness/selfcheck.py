"""MANIFEST.setup_cmd: nothing to build; verify the tools the checks need are present."""
import os, subprocess, sys
def main():
    ok = True
    from . import tlc
    for p in (tlc.JAR,):
        if not os.path.exists(p):
            print('missing', p); ok = False
    try:
        subprocess.run(['java', '-version'], stdout=subprocess.DEVNULL, stderr=subprocess.DEVNULL, check=True)
    except Exception as e:
        print('java not runnable', e); ok = False
    for d in ('evidence', 'replays', '.work'):
        os.makedirs(os.path.join(os.path.dirname(os.path.dirname(os.path.abspath(__file__))), d), exist_ok=True)
    good, out = tlc.sany('PipelineProps')
    if not good:
        print(out[-2000:]); ok = False
    print('setup ok' if ok else 'setup FAILED')
    return 0 if ok else 1
