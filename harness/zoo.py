"""C04: the fixed application of SpyneMutate.tla, mutant-aware request encoders and the shape reporter."""
import base64, datetime, decimal, io, json, os, uuid
from urllib.parse import quote
from . import tlc, pipeline_common as pc, enc as E
from .core import use_repo
use_repo()

XSI = E.XSI
BASE = {'shape': {'s1': 1}, 'n': 5, 's': 'hello', 'd': '2020-02-29', 'col': 'red', 'xs': [1, 2],
        'ps': [{'name': 'ann', 'age': 30, 'born': '1990-01-02'}], 'p': {'name': 'bob', 'age': 40, 'born': '1980-03-04'},
        'fl': 1.5, 'b': True, 'cs': [{'s1': 1, 'r': 2}], 'ss': [{'s1': 3}], 'aa': [['x', 'y'], ['z']], 'de': '12.50',
        'u': '12345678-1234-1234-1234-123456789abc', 'ba': 'AAEC', 'tg': {'tag': 'T1', 'v': 7}}
HDR = {'token': 'tok-1', 'n': 3, 'd': '2021-05-06'}
HDR_T = {'k': 'obj', 'ns': 'tns', 'name': 'Session'}
TREES = {'emptymap': {}, 'emptylist': [], 'map1': {'k': 1}, 'list1': [1], 'str': 'str', 'strnum': '5', 'zero': 0, 'one': 1, 'false': False,
         'true': True, 'float': 1.5, 'emptystr': '', 'listlist': [[]], 'personmap': {'name': 'x', 'age': 1},
         'wrapped_person': {'Person': {'name': 'x'}}, 'wrapped_appcircle': {'Circle': {'x': 'y'}},
         'negfloat': -1.0, 'null': None, 'listnull': [None], 'expstr': '1e3', 'expstrneg': '-4e1', 'expfrac': '1.5e3',
         'ydate': datetime.date(2020, 1, 1), 'yset': {1, 2}}
YAML_ONLY = ('ydate', 'yset')


def export(ctx):
    out = os.path.join(ctx.work, 'mutants.json')
    cfg = pc.write_cfg(os.path.join(ctx.work, 'expm.cfg'), ['INIT Init', 'NEXT Next', 'CHECK_DEADLOCK FALSE'])
    tlc.run('ExportMutate', cfg, ctx.work, env={'OUT_FILE': out})
    d = json.load(open(out))
    d['mutants'].sort(key=lambda m: json.dumps(m, sort_keys=True))
    d['fields'] = {(c['ns'], c['name']): c['fields'] for c in d['classes']}
    return d


def build(table, inp, outp):
    """the zoo application from the exported table -> (wsgi, seen, classes)"""
    from spyne import Application, Service, srpc, rpc, ComplexModel, Integer, Unicode, Date, Boolean, Double, Array, Enum, Decimal, Uuid, ByteArray, XmlAttribute
    from spyne.server.wsgi import WsgiApplication
    prim = {'Integer': Integer, 'Unicode': Unicode, 'Date': Date, 'Boolean': Boolean, 'Double': Double, 'Decimal': Decimal, 'Uuid': Uuid, 'ByteArray': ByteArray}
    Color = Enum('red', 'green', type_name='Color')
    classes = {}

    def ty(t):
        if t['k'] == 'prim': return prim[t['p']]
        if t['k'] == 'enum': return Color
        if t['k'] == 'arr': return Array(ty(t['of']))
        if t['k'] == 'attr': return XmlAttribute(ty(t['of']))
        return classes[(t['ns'], t['name'])]
    fields = table['fields']
    order = [('tns', 'Shape'), ('tns', 'Circle'), ('tns', 'Square'), ('tns', 'Person'), ('urn:app', 'Circle'), ('tns', 'Session'), ('tns', 'Tagged')]
    for ns, name in order:
        base = ComplexModel
        own = fields[(ns, name)]
        if ns == 'tns' and name in ('Circle', 'Square'):
            base = classes[('tns', 'Shape')]
            own = own[len(fields[('tns', 'Shape')]):]
        classes[(ns, name)] = type(str(name), (base,), {'__namespace__': ns, '_type_info': [(n, ty(t)) for n, t in own]})
    seen = []
    names = [n for n, _ in table['args']]
    src = 'def f(ctx, %s):\n    seen.append([%s])\n    hdrs.append(ctx.in_header)\n    return 1\n' % (', '.join(names), ', '.join(names))
    hdrs = []
    nsd = {'seen': seen, 'hdrs': hdrs}
    exec(src, nsd)

    gseen = []

    def g(c):
        gseen.append(c)
        return 2
    svc = type('Zoo', (Service,), {'__in_header__': classes[('tns', 'Session')],
                                   'f': rpc(*[ty(t) for _, t in table['args']], _returns=Integer)(nsd['f']),
                                   'g': srpc(classes[('urn:app', 'Circle')], _returns=Integer)(g)})
    app = Application([svc], 'tns', in_protocol=inp, out_protocol=outp)
    return WsgiApplication(app), seen, classes, Color, gseen, hdrs


def shape(x, Color):
    if x is None:
        return ['nil']
    if isinstance(x, bool): return ['leaf', 'bool']
    if isinstance(x, int): return ['leaf', 'int']
    if isinstance(x, float): return ['leaf', 'float']
    if isinstance(x, str): return ['leaf', 'str']
    if isinstance(x, decimal.Decimal): return ['leaf', 'decimal']
    if isinstance(x, uuid.UUID): return ['leaf', 'uuid']
    if isinstance(x, (bytes, bytearray)): return ['leaf', 'bytes']
    if isinstance(x, (list, tuple)) and len(x) > 0 and all(isinstance(y, (bytes, bytearray, memoryview)) for y in x):
        return ['leaf', 'bytes']          # binary data is delivered as a sequence of chunks
    if isinstance(x, datetime.datetime): return ['leaf', 'datetime']
    if isinstance(x, datetime.date): return ['leaf', 'date']
    if isinstance(x, (list, tuple)) and not hasattr(type(x), '_type_info'):
        return ['seq', [shape(y, Color) for y in x]] if isinstance(x, list) else ['leaf', 'py:tuple']
    for n in ('red', 'green'):
        if x is getattr(Color, n):
            return ['leaf', 'enum:' + n]
    cls = type(x)
    if hasattr(cls, 'get_flat_type_info') and hasattr(cls, 'get_type_name') and not isinstance(x, type):
        try:
            fti = cls.get_flat_type_info(cls)
            return ['obj', cls.get_namespace() or '', cls.get_type_name(), [shape(getattr(x, k, None), Color) for k in fti]]
        except Exception:
            pass
    return ['leaf', 'py:' + type(x).__name__]


# ------------------------------------------------------------------ mutant-aware encoders
def hit(m, path):
    return m is not None and list(m['pos']['path']) == [str(p) for p in path]


def item_name(t):
    """element name of an array item of type t (the type's name: integer, string, Person, stringArray)"""
    if t['k'] == 'arr':
        return item_name(t['of']) + 'Array'
    return {'Integer': 'integer', 'Unicode': 'string'}.get(t.get('p'), t.get('name'))


def xml_request(table, m, header=False):
    def elem(name, t, v, path):
        q = 'tns:' + name
        attrs = ''
        if hit(m, path) and m['op'] == 'retag':
            attrs = ' xmlns:p="%s" xsi:type="p:%s"' % (m['arg'][0], m['arg'][1])
        if hit(m, path) and m['op'] == 'text':
            return '<%s%s>%s</%s>' % (q, attrs, E.xml_escape(m['arg'][0]), q)
        if hit(m, path) and m['op'] == 'struct':
            return '<%s%s><tns:x>1</tns:x></%s>' % (q, attrs, q)
        if hit(m, path) and m['op'] == 'textonly':
            return '<%s%s>abc</%s>' % (q, attrs, q)
        k = t['k']
        if k in ('prim', 'enum'):
            return '<%s%s>%s</%s>' % (q, attrs, E.xml_escape(E.lex(v)), q)
        if k == 'arr':
            it = t['of']
            iname = item_name(it)
            return '<%s%s>%s</%s>' % (q, attrs, ''.join(elem(iname, it, x, path + [i]) for i, x in enumerate(v)), q)
        fl = table['fields'][(t['ns'], t['name'])]
        attrs += ''.join(' %s="%s"' % (n, E.xml_escape(E.lex(v[n]))) for n, ft in fl if n in v and ft['k'] == 'attr')
        inner = ''.join(elem(n, ft, v[n], path + [n]) for n, ft in fl if n in v and ft['k'] != 'attr')
        return '<%s%s>%s</%s>' % (q, attrs, inner, q)
    body = ''.join(elem(n, t, BASE[n], [n]) for n, t in table['args'])
    doc = '<tns:f xmlns:tns="tns" xmlns:xsi="%s">%s</tns:f>' % (XSI, body)
    if not header:
        return doc, ''
    h = elem('Session', HDR_T, HDR, ['@hdr']).replace('<tns:Session', '<tns:Session xmlns:tns="tns" xmlns:xsi="%s"' % XSI, 1)
    return doc, h


def xml_prime():
    """a valid request of g: the identity marker, spelled with the prefix the retag mutants use"""
    return ('<tns:g xmlns:tns="tns" xmlns:p="urn:app" xmlns:xsi="%s"><tns:c xsi:type="p:Circle"><p:x>y</p:x></tns:c></tns:g>' % XSI)


def dict_request(table, m, wrappers=False, binary=False):
    def val(t, v, path):
        if hit(m, path) and m['op'] == 'replace':
            return TREES[m['arg'][0]]
        k = t['k']
        if k == 'prim' and t['p'] == 'ByteArray' and binary:
            return base64.b64decode(v)          # (MessagePack carries binary data as bin)
        if k in ('prim', 'enum', 'attr'):
            return v
        if k == 'arr':
            return [val(t['of'], x, path + [i]) for i, x in enumerate(v)]
        body = {n: val(ft, v[n], path + [n]) for n, ft in table['fields'][(t['ns'], t['name'])] if n in v}
        if wrappers:
            name = m['arg'][0] if hit(m, path) and m['op'] == 'wrapper' else t['name']
            return {name: body}
        return body
    return {'f': {n: val(t, BASE[n], [n]) for n, t in table['args']}}


def flat_request(table, m):
    pairs = []

    def walk(t, v, key, path):
        k = t['k']
        here = hit(m, path)
        var = m['arg'][0] if here else None
        if k in ('prim', 'enum', 'attr'):
            kk = key
            if var == 'dot_x': kk = key + '.x'
            elif var == 'index0': kk = key + '[0]'
            elif var == 'index0_dot_x': kk = key + '[0].x'
            elif var == 'brackets_only': kk = key + '[]'
            elif var == 'deep': kk = key + '.a.b.c.d'
            pairs.append((kk, str(v)))
            if var == 'as_scalar': pairs.append((key + '.y', '1'))
            if var == 'twice': pairs.append((key, 'other'))
            return
        if here:
            if var == 'dot_x': pairs.append((key + '.x', '1'))
            elif var == 'index0_dot_x': pairs.append((key + '[0].x', '1'))
            elif var in ('as_scalar', 'twice'): pairs.append((key, 'abc'))
            elif var == 'brackets_only': pairs.append((key + '[]', '1'))
            elif var == 'deep': pairs.append((key + '.a.b.c.d', '1'))
            elif var == 'index0' and k == 'obj': key = key + '[0]'
        if k == 'arr':
            for i, x in enumerate(v):
                if t['of']['k'] == 'obj':
                    walk(t['of'], x, '%s[%d]' % (key, i), path + [i])
                else:
                    walk(t['of'], x, key, path + [i])
            return
        for n, ft in table['fields'][(t['ns'], t['name'])]:
            if n in v:
                walk(ft, v[n], key + '.' + n, path + [n])
    for n, t in table['args']:
        if t['k'] == 'arr' and t['of']['k'] == 'arr':
            continue          # the flat notation cannot spell an array of arrays
        walk(t, BASE[n], n, [n])
    return '&'.join('%s=%s' % (quote(k, safe='[].'), quote(v)) for k, v in pairs)
