"""Shared plumbing of every check: context, verdict bookkeeping, known findings,
evidence and replay files, exit status.

exit 0  property held on everything explored (known findings are printed)
exit 1  at least one violation that known_findings.json does not list
exit 2  the machinery itself failed (TLC parse error, timeout, driver crash)
"""
import hashlib, json, os, sys, time, traceback

VERIF = os.path.dirname(os.path.dirname(os.path.abspath(__file__)))
REPO = os.environ.get('VERIF_REPO', '/repo')
WORK = os.path.join(VERIF, '.work')
FINDINGS_FILE = os.path.join(VERIF, 'known_findings.json')
# self-test runs against a scratch copy of the repository must not touch the real evidence
OUT = VERIF if REPO == '/repo' else os.path.join(WORK, 'alt_%d' % os.getpid())


def use_repo():
    """Make `import spyne` resolve to the working tree under test."""
    if REPO not in sys.path[:1]:
        sys.path.insert(0, REPO)
    os.environ.setdefault('SPYNE_VERIF', '1')
    import logging, warnings
    logging.disable(logging.CRITICAL)
    warnings.simplefilter('ignore')


class Ctx(object):
    def __init__(self, pid, tier, seed, replay=None):
        self.pid = pid
        self.tier = tier
        self.seed = seed
        self.replay = replay
        self.work = os.path.join(WORK, '%s_%s_%d' % (pid, tier, os.getpid()))
        os.makedirs(self.work, exist_ok=True)
        self.t0 = time.time()
        self.violations = []      # dicts: key, what, case
        self.coverage = {}
        self.assumptions = []
        self.level = 'model_checking'
        self.notes = []

    @property
    def quick(self):
        return self.tier == 'quick'

    def violation(self, key, what, case=None):
        """key: stable identity of the failing class (site / input class / history);
        what: one line for a human; case: JSON-able replay payload."""
        self.violations.append({'key': key, 'what': what, 'case': case})

    def cov_add(self, **kw):
        for k, v in kw.items():
            if isinstance(v, (int, float)) and not isinstance(v, bool) and isinstance(self.coverage.get(k), (int, float)):
                self.coverage[k] += v
            else:
                self.coverage[k] = v

    def sample(self, s, limit=6):
        l = self.coverage.setdefault('samples', [])
        if len(l) < limit:
            l.append(s)

    def elapsed(self):
        return time.time() - self.t0


def load_findings(pid=''):
    try:
        # (checks of behaviour outside the listed properties keep their findings apart)
        with open(os.path.join(VERIF, 'extras', 'known_findings.json') if pid.startswith('X') else FINDINGS_FILE) as f:
            d = json.load(f)
    except FileNotFoundError:
        d = {'open': [], 'fixed': []}
    return d


def finish(ctx):
    import shutil
    fd = load_findings(ctx.pid)
    known = {}
    for e in fd.get('open', []):
        if e['property'] == ctx.pid:
            known[e['key']] = e
    out_lines = []
    seen_known, new = {}, {}
    for v in ctx.violations:
        if v['key'] in known:
            seen_known.setdefault(v['key'], []).append(v)
        else:
            new.setdefault(v['key'], []).append(v)
    for k, vs in sorted(seen_known.items()):
        out_lines.append('KNOWN-FINDING: property=%s %s [%s] (%d occurrence(s))' % (
            ctx.pid, known[k].get('what', vs[0]['what']), k, len(vs)))
    rdir = os.path.join(OUT, 'replays', ctx.pid)
    for k, vs in sorted(new.items()):
        os.makedirs(rdir, exist_ok=True)
        h = hashlib.sha1(k.encode()).hexdigest()[:12]
        path = os.path.join(rdir, h + '.json')
        with open(path, 'w') as f:
            json.dump({'property': ctx.pid, 'key': k, 'what': vs[0]['what'],
                       'occurrences': len(vs), 'cases': [v['case'] for v in vs[:5]]}, f, indent=1, default=str)
        out_lines.append('VIOLATION property=%s replay=%s' % (ctx.pid, path))
        out_lines.append('  key=%s' % k)
        out_lines.append('  what=%s' % vs[0]['what'])
    cov = dict(ctx.coverage)
    cov.setdefault('samples', [])
    if not cov['samples']:
        cov['samples'] = ['(no sample recorded)']
    ev = {'property_id': ctx.pid, 'tier': ctx.tier, 'seed': ctx.seed, 'level': ctx.level,
          'coverage': cov, 'assumptions': ctx.assumptions, 'wall_s': round(ctx.elapsed(), 2),
          'violations': len(new),
          'known_findings_seen': sorted(seen_known)}
    # (checks of behaviour outside the listed properties - ids X.. - keep their reports apart)
    evdir = 'extras' if ctx.pid.startswith('X') else 'evidence'
    os.makedirs(os.path.join(OUT, evdir), exist_ok=True)
    with open(os.path.join(OUT, evdir, ctx.pid + '.json'), 'w') as f:
        json.dump(ev, f, indent=1, default=str)
    shutil.rmtree(ctx.work, ignore_errors=True)
    for l in out_lines:
        print(l)
    for n in ctx.notes:
        print('note: ' + n)
    print('%s %s: %s in %.1fs; coverage: %s' % (
        ctx.pid, ctx.tier, 'VIOLATED' if new else 'held', ctx.elapsed(),
        json.dumps({k: v for k, v in cov.items() if k not in ('samples', 'rule')}, default=str)[:600]))
    return 1 if new else 0


def main(argv):
    import argparse, importlib
    ap = argparse.ArgumentParser()
    ap.add_argument('pid')
    ap.add_argument('--tier', default=os.environ.get('VERIF_TIER', 'quick'))
    ap.add_argument('--replay', default=None)
    a = ap.parse_args(argv)
    seed = int(os.environ.get('VERIF_SEED', '0') or 0)
    use_repo()
    ctx = Ctx(a.pid, a.tier, seed, a.replay)
    try:
        mod = importlib.import_module('harness.checks.' + a.pid.lower())
        mod.run(ctx)
        if a.replay:
            # replay: the check is run again and only the violation class recorded in the replay file counts
            try:
                want = json.load(open(a.replay))['key']
            except Exception as e:
                print('cannot read replay file %s: %s' % (a.replay, e))
                return 2
            ctx.violations = [v for v in ctx.violations if v['key'] == want]
            print('replay of %s: violation class %s %s' % (a.replay, want, 'REPRODUCED' if ctx.violations else 'not reproduced'))
        rc = finish(ctx)
    except SystemExit:
        raise
    except BaseException:
        traceback.print_exc()
        print('MACHINERY-FAILURE property=%s' % a.pid)
        import shutil
        shutil.rmtree(ctx.work, ignore_errors=True)
        return 2
    return rc
