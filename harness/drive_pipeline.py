"""Replay driver for SpynePipeline scenarios (M2) and recorder of merged histories (M3).

For one scenario exported by TLC it builds a fresh real application (listeners on the
application, method and service event managers and on the WSGI transport; a user
function that logs its entry and raises what the scenario says), sends one real
request through WsgiApplication or a bare ServerBase, and returns the merged history
in the vocabulary of PipelineProps.tla together with the record `k` of what was
observed about the call.  Nothing here decides a verdict.
"""
import json, io
from .core import use_repo
use_repo()

from spyne import Application, Service, rpc, srpc, Integer, Unicode, Fault, EventManager, Iterable, ByteArray
from spyne.error import (ResourceNotFoundError, InvalidCredentialsError,
                         RequestNotAllowed, RequestTooLongError)
from spyne.protocol.soap import Soap11, Soap12
from spyne.protocol.xml import XmlDocument
from spyne.protocol.json import JsonDocument
from spyne.protocol.yaml import YamlDocument
from spyne.protocol.msgpack import MessagePackDocument
from spyne.protocol.http import HttpRpc
from spyne.server.wsgi import WsgiApplication
from spyne.server import ServerBase
from spyne import MethodContext

CTX_EVENTS = ['method_context_created', 'method_context_closed', 'method_call',
              'method_return_object', 'method_exception_object',
              'method_return_document', 'method_exception_document',
              'method_return_string', 'method_exception_string', 'method_redirect']
RAISING_FIN = ('raise_closed', 'raise_wsgiclose')
WSGI_EVENTS = ['wsgi_call', 'wsgi_return', 'wsgi_exception', 'wsgi_close']
UNIT = 160         # bytes per abstract length unit of the wsgi scenarios
SECRET = 'S3CR3T-7f3a9'


class Boom(Exception):
    pass


def raise_outcome(o, state=None):
    if o not in ('ok', 'redirect') and state is not None and state.get('ctx') is not None:
        # user code announced the length of the payload it was ABOUT to send, then failed: the answer is the fault, and
        # its Content-Length is the fault's
        h = getattr(getattr(state['ctx'], 'transport', None), 'resp_headers', None)
        if isinstance(h, dict) and state.get('in_fn'):
            h['Content-Length'] = '5000'
    if o == 'redirect':
        from spyne.server.http import HttpRedirect
        raise HttpRedirect(state['ctx'], 'http://elsewhere.example/moved')
    if o == 'fault_client': raise Fault('Client.Custom', 'c')
    if o == 'fault_server': raise Fault('Server.Custom', 's')
    if o == 'fault_nf': raise ResourceNotFoundError('thing')
    if o == 'fault_auth': raise InvalidCredentialsError()
    if o == 'fault_405': raise RequestNotAllowed('no')
    if o == 'fault_413': raise RequestTooLongError()
    if o == 'exc': raise Boom(SECRET)
    if o == 'exc_type': raise TypeError('user code type error ' + SECRET)


PROTS = {'xml': (XmlDocument, XmlDocument), 'soap11': (Soap11, Soap11),
         'soap12': (Soap12, Soap12), 'json': (JsonDocument, JsonDocument),
         'yaml': (YamlDocument, YamlDocument),
         'msgpack': (MessagePackDocument, MessagePackDocument),
         'http': (HttpRpc, HttpRpc)}


def build(s, log, state):
    fam, inj = s['cfg']['family'], s['inj']
    mev = EventManager(None)

    def L(mgr, e):
        def h(ctx):
            log.append([mgr, e])
            state['ctx'] = ctx
            if inj['at'] == mgr:
                if e == 'method_call': raise_outcome(inj['call'])
                if e == 'method_return_object': raise_outcome(inj['ret'])
        h.__name__ = 'h_%s_%s' % (mgr, e)
        return h

    # service-level listeners are registered on a BASE service class before its subclasses exist: the subclasses inherit them
    class Base(Service):
        pass
    svc_handlers = dict((e, L('svc', e)) for e in CTX_EVENTS)
    for e in CTX_EVENTS:
        Base.event_manager.add_listener(e, svc_handlers[e])

    class S(Base):
        @srpc(Integer, _returns=Integer, _evmgr=mev)
        def f(a):
            log.append(['fn', 'call'])
            state['in_fn'] = True
            raise_outcome(inj['fn'], state)
            state['fnOk'] = True
            if inj.get('fin') == 'lclen' and state.get('ctx') is not None:
                # a length of the user's own, in lower case
                state['ctx'].transport.resp_headers['content-length'] = '5000'
            if inj['ser'] == 'exc':
                return 'not-an-int'   # unserialisable for the eager XML serialisers
            return a + 1

        @srpc(Integer, _returns=(Integer, Integer), _evmgr=mev)
        def p(a):
            # two values are declared; inj.ser == 'empty': an empty sequence is returned
            log.append(['fn', 'call'])
            state['in_fn'] = True
            raise_outcome(inj['fn'], state)
            state['fnOk'] = True
            return () if inj['ser'] == 'empty' else (a, a + 1)

        @srpc(Integer, _evmgr=mev)
        def h(a):
            # a method that declares no return value
            log.append(['fn', 'call'])
            state['in_fn'] = True
            raise_outcome(inj['fn'], state)
            state['fnOk'] = True

        @srpc(Integer, _returns=(ByteArray if fam == 'http' else Iterable(Integer)), _evmgr=mev)
        def g(a):
            log.append(['fn', 'call'])
            state['in_fn'] = True
            raise_outcome(inj['fn'], state)
            state['fnOk'] = True
            if fam == 'http':
                # HttpRpc out: a binary result produced lazily, chunk by chunk
                yield b'first-chunk-'
                if inj['ser'] == 'late':
                    raise Boom(SECRET)          # the producer of the body fails after its first chunk
                yield b'second-chunk'
            else:
                yield a
                yield a + 1

    inp = PROTS[fam][0](validator='soft')
    outp = PROTS[fam][1]()
    # the service class is also part of ANOTHER application, which has served a call of the same method before:
    # whose listeners see the events of a call is decided by the application that serves it
    sib_log = []
    sib = Application([S], 'tns', name='Sibling', in_protocol=PROTS[fam][0](validator='soft'), out_protocol=PROTS[fam][1]())
    for e in CTX_EVENTS:
        sib.event_manager.add_listener(e, (lambda e: lambda ctx: sib_log.append(e))(e))
    state['sibling'] = (sib, sib_log)
    app = Application([S], 'tns', in_protocol=inp, out_protocol=outp)
    # a one-shot listener that takes itself off the list while the event is being fired, registered BEFORE the others
    for e in ('method_call', 'method_return_object', 'method_exception_object'):
        def once(ctx, e=e, box=[]):
            if not box:
                box.append(1)
                app.event_manager.del_listener(e, box_fn[e])
        box_fn = state.setdefault('once', {})
        box_fn[e] = once
        app.event_manager.add_listener(e, once)
    # a SIBLING service of the same base adds listeners of its own for the same events: they are the sibling's alone
    class Sib(Base):
        pass
    for e in CTX_EVENTS:
        Sib.event_manager.add_listener(e, (lambda e: lambda ctx: log.append(['foreign', e]))(e))
    for e in CTX_EVENTS:
        app.event_manager.add_listener(e, L('app', e))
        mev.add_listener(e, L('meth', e))
        h1 = svc_handlers[e]
        S.event_manager.add_listener(e, L('svc2', e))
        S.event_manager.add_listener(e, h1)      # (inherited already) registered twice: must run once
    if inj.get('fin') == 'raise_closed':
        def boom_closed(ctx): raise Boom('closed listener')
        app.event_manager.add_listener('method_context_closed', boom_closed)
    return app


def body_for(s):
    """-> (environ-extras, body bytes).  For wsgi scenarios the body is exactly
    len*UNIT bytes with the padding *inside* the document."""
    fam, cls = s['cfg']['family'], s['req']['class']
    meth = 'zzz' if cls == 'unknown' else 'p' if s['inj'].get('ser') == 'empty' else {'gen': 'g', 'none': 'h'}.get(s['inj'].get('res'), 'f')
    arg = 'notint' if cls == 'badargs' else '5'
    env = {'REQUEST_METHOD': 'POST', 'PATH_INFO': '/', 'QUERY_STRING': '',
           'CONTENT_TYPE': 'text/xml; charset=utf-8'}
    PAD = '%PAD%'
    if fam == 'xml':
        body = '<tns:%s xmlns:tns="tns"><tns:a>%s</tns:a>%s</tns:%s>' % (meth, arg, PAD, meth)
    elif fam in ('soap11', 'soap12'):
        E = {'soap11': 'http://schemas.xmlsoap.org/soap/envelope/',
             'soap12': 'http://www.w3.org/2003/05/soap-envelope'}[fam]
        if cls == 'badenvelope':
            body = '<tns:%s xmlns:tns="tns"><tns:a>5</tns:a>%s</tns:%s>' % (meth, PAD, meth)
        else:
            body = ('<e:Envelope xmlns:e="%s" xmlns:tns="tns"><e:Body><tns:%s><tns:a>%s</tns:a>%s'
                    '</tns:%s></e:Body></e:Envelope>' % (E, meth, arg, PAD, meth))
        if fam == 'soap12':
            env['CONTENT_TYPE'] = 'application/soap+xml; charset=utf-8'
    elif fam == 'json':
        body = '{"%s": {"a": %s%s}}' % (meth, '"notint"' if cls == 'badargs' else arg, PAD)
        env['CONTENT_TYPE'] = 'application/json'
    elif fam == 'yaml':
        body = '%s:\n  a: %s\n%s' % (meth, arg, PAD)
        env['CONTENT_TYPE'] = 'text/yaml'
    elif fam == 'msgpack':
        import msgpack
        body = msgpack.packb({meth.encode(): {'a': 'notint' if cls == 'badargs' else 5}})
        env['CONTENT_TYPE'] = 'application/x-msgpack'
    elif fam == 'http':
        body = ''
        env.update(REQUEST_METHOD='GET', PATH_INFO='/' + meth, QUERY_STRING='a=' + arg)
    if isinstance(body, str):
        if s.get('units'):
            want = s['req']['len'] * UNIT
            pad = want - (len(body) - len(PAD))
            assert pad >= 0, (want, body)
            body = body.replace(PAD, ' ' * pad)
        else:
            body = body.replace(PAD, '')
        body = body.encode()
    if cls == 'badsyntax':
        if fam == 'msgpack':
            body = b'\xc1\xc1'
        elif fam == 'yaml':
            body = b'f: [a: {'
        else:
            body = body[:len(body) // 2]
    return env, body


class CountingInput(object):
    def __init__(self, data, log, unit):
        self.b = io.BytesIO(data); self.log = log; self.unit = unit; self.n = 0

    def read(self, n=-1):
        if self.unit:
            self.log.append(['read', n // self.unit if n >= 0 and n % self.unit == 0 else -7])
        d = self.b.read(n); self.n += len(d)
        return d

    def readline(self, *a):
        d = self.b.readline(*a); self.n += len(d); return d

    def __iter__(self):
        return iter(self.readline, b'')


def fault_info(err):
    if err is None:
        return [], 'none'
    code = getattr(err, 'faultcode', None)
    cls = 'fault'
    if isinstance(err, RequestTooLongError): cls = 'toolong'
    elif isinstance(err, ResourceNotFoundError): cls = 'notfound'
    elif isinstance(err, RequestNotAllowed): cls = 'notallowed'
    elif isinstance(err, InvalidCredentialsError): cls = 'auth'
    return (code.split('.') if isinstance(code, str) else ['?']), cls


def run(s):
    """-> trace record for TLC"""
    log, state = [], {'ctx': None, 'fnOk': False}
    units = bool(s.get('units'))
    app = build(s, log, state)
    env, body = body_for(s)
    if s['req'].get('kind', 'rpc') == 'rpc' and s['req']['class'] == 'valid':
        # the sibling application serves one call of the same method first (through a bare ServerBase), unrecorded
        sib, sib_log = state['sibling']
        inj_saved = dict(s['inj'])
        try:
            sv = ServerBase(sib)
            c0 = MethodContext(sv, MethodContext.SERVER)
            if s['cfg']['family'] == 'http':
                pass          # (HttpRpc needs a WSGI environ: the sibling is not primed for this family)
            else:
                c0.in_string = [body]
                for k_ in ('call', 'fn', 'ret', 'ser'):
                    s['inj'][k_] = 'ok'
                p0 = sv.generate_contexts(c0)[0]
                if not p0.in_error:
                    sv.get_in_object(p0)
                if not p0.in_error:
                    sv.get_out_object(p0)
                sv.get_out_string(p0)
                b''.join(p0.out_string)
                p0.close()
        except Exception:
            pass
        finally:
            s['inj'].update(inj_saved)
        del log[:]
        state['fnOk'] = False
        state['ctx'] = None
        state.pop('in_fn', None)
    U = UNIT if units else 0
    rec = {'scen': s}
    status = [0]; hdr_ok = [True]; clen = [-1]; body_bytes = [0]; bytes_ok = [True]
    inp = None
    if s['cfg']['tr'] == 'wsgi':
        maxlen = s['cfg']['maxlen'] * UNIT if units else 1 << 20
        block = s['cfg']['block'] * UNIT if units else 8192
        w = WsgiApplication(app, chunked=s['cfg']['chunked'], max_content_length=maxlen,
                            block_length=block)
        for e in WSGI_EVENTS + ['wsdl', 'wsdl_exception']:
            w.event_manager.add_listener(e, (lambda e: lambda ctx: (log.append(['wsgi', e]), state.__setitem__('ctx', ctx)))(e))
        if s['inj'].get('fin') == 'raise_wsgiclose':
            def boom_wclose(ctx): raise Boom('wsgi_close listener')
            w.event_manager.add_listener('wsgi_close', boom_wclose)
        if s['inj'].get('fin') == 'rewrite':
            def trailer(ctx):
                import itertools
                o = ctx.out_string
                ctx.out_string = (list(o) + [b'\n<!-- t -->']) if isinstance(o, (list, tuple)) else itertools.chain(o, [b'\n<!-- t -->'])
            w.event_manager.add_listener('wsgi_return', trailer)
        inp = CountingInput(body, log, U)
        env.update({'wsgi.url_scheme': 'http', 'SERVER_NAME': 'x', 'SERVER_PORT': '80',
                    'wsgi.input': inp})
        kind = s['req'].get('kind', 'rpc')
        if kind != 'rpc':
            env.update(REQUEST_METHOD='GET', QUERY_STRING='wsdl', PATH_INFO='/')
            env.pop('CONTENT_TYPE', None)
            if kind == 'wsdlerr':
                def boom(doc): raise Boom(SECRET)
                w.doc.wsdl11.event_manager.add_listener('wsdl_document_built', boom)
            if kind == 'wsdlrw':
                def rewrite(ctx):
                    ctx.transport.wsdl = ctx.transport.wsdl.replace(b'http://x', b'https://rewritten.example')
                w.event_manager.add_listener('wsdl', rewrite)
        if kind == 'wsdl2':
            # an earlier request of this transport had the document built (and cached)
            b''.join(w(dict(env), lambda st, h, e=None: None))
            del log[:]
            state['ctx'] = None
        d = s['req']['declared']
        if kind != 'rpc':
            pass
        elif not units:
            env['CONTENT_LENGTH'] = str(len(body))
        elif d == -1:
            pass
        elif d == -2:
            env['CONTENT_LENGTH'] = ''
        else:
            env['CONTENT_LENGTH'] = str(d * UNIT)

        def sr(st, headers, exc_info=None):
            try:
                status[0] = int(st.split()[0])
            except Exception:
                status[0] = -1
            ok = isinstance(st, str) and len(st) >= 4 and st[3] == ' '
            if sum(1 for h in headers if isinstance(h, tuple) and len(h) == 2 and isinstance(h[0], str) and h[0].lower() == 'content-length') > 1:
                ok = False          # two Content-Length headers: which one is the length?
            for h in headers:
                if not (isinstance(h, tuple) and len(h) == 2 and isinstance(h[0], str) and isinstance(h[1], str)):
                    ok = False
                elif h[0].lower() == 'content-length':
                    try: clen[0] = int(h[1])
                    except Exception: ok = False
            hdr_ok[0] = ok
            log.append(['sr', status[0]])
        it = None
        try:
            it = w(env, sr)
            log.append(['io', 'handover'])
            n = 0
            if s['abort'] != 0:
                for c in it:
                    n += 1
                    if n == 1: log.append(['io', 'chunk'])     # abstraction: first chunk only
                    if not isinstance(c, bytes): bytes_ok[0] = False
                    else: body_bytes[0] += len(c)
                    if s['abort'] == n: break
        except Exception as e:
            log.append(['escape', type(e).__name__])
            rec['escape_site'] = _site(e)
        # a PEP 3333 server calls close() on the iterable whatever happened
        if it is not None:
            try:
                if hasattr(it, 'close'): it.close()
                log.append(['io', 'iterclose'])
            except Exception as e:
                log.append(['escape', type(e).__name__])
                rec['escape_site'] = _site(e)
                log.append(['io', 'iterclose'])
    elif s['cfg']['tr'] == 'null':
        # the in-process transport: the call is made directly; a fault is RAISED to the caller (that is no escape)
        from spyne.server.null import NullServer
        try:
            ns_ = NullServer(app)
            meth = {'gen': 'g', 'none': 'h'}.get(s['inj'].get('res'), 'f')
            try:
                r_ = getattr(ns_.service, meth)(5)
                if hasattr(r_, '__next__'):
                    list(r_)
            except Fault:
                pass
        except Exception as e:
            log.append(['escape', type(e).__name__])
            rec['escape_site'] = _site(e)
    else:
        server = ServerBase(app)
        try:
            ctx = MethodContext(server, MethodContext.SERVER)
            ctx.in_string = [body]
            contexts = server.generate_contexts(ctx)
            p = contexts[0]
            state['ctx'] = p
            if not p.in_error:
                server.get_in_object(p)
            if not p.in_error:
                server.get_out_object(p)
            try:
                server.get_out_string(p)
            except Exception as e:
                if p.out_error is not None:
                    raise
                # what a transport does on the success arm (handle_rpc / twisted / etc.)
                p.out_error = Fault('Server', 'Internal Error')
                server.get_out_string(p)
            b''.join(p.out_string)
            p.close()
        except Exception as e:
            log.append(['escape', type(e).__name__])
            rec['escape_site'] = _site(e)
    ctx = state['ctx']
    err = getattr(ctx, 'out_error', None) if ctx is not None else None
    code, cls = fault_info(err)
    ierr = getattr(ctx, 'in_error', None) if ctx is not None else None
    declared_units = s['req']['declared'] if units else 0
    maxlen_u = s['cfg']['maxlen']
    declared_eff = maxlen_u if declared_units == -1 else (0 if declared_units == -2 else declared_units)
    rec['obs'] = log
    rec['k'] = {
        'tr': 'base' if s['cfg']['tr'] == 'null' else s['cfg']['tr'], 'rpc': s['req'].get('kind', 'rpc') == 'rpc', 'soap': s['cfg']['family'] in ('soap11', 'soap12'),
        'done': (not any(e[0] == 'escape' for e in log)) or ((s['inj'].get('fin', 'ok') in RAISING_FIN or (s['inj'].get('ser') == 'late' and s['cfg']['chunked'])) and log[-1] == ['io', 'iterclose']),
        'mayEscape': s['inj'].get('fin', 'ok') in RAISING_FIN or (s['inj'].get('ser') == 'late' and s['cfg']['chunked']), 'wcloseExpected': s['inj'].get('fin', 'ok') != 'raise_closed',
        'nodoc': s['cfg']['tr'] == 'null',
        'fault': err is not None, 'fnOk': state['fnOk'], 'redirect': s['inj']['fn'] == 'redirect' and ['fn', 'call'] in log,
        'infault': ierr is not None,
        # the method was matched: a well-formed request for an existing method that is not refused for its size
        'bound': False,
        'malformed': s['req'].get('kind', 'rpc') == 'rpc' and (s['req']['class'] != 'valid' or (units and s['cfg']['family'] != 'http'
                      and min(declared_eff, s['req']['len']) < s['req']['len'] and declared_eff <= maxlen_u)),
        'code': code, 'cls': cls, 'status': status[0],
        'statusKnown': True,
        'maxlen': maxlen_u if units else 1 << 20,
        'declared': declared_eff if units else len(body),
        'toolong': bool(units and declared_eff > maxlen_u and s['req'].get('kind', 'rpc') == 'rpc'),
        'nread': (-(-inp.n // UNIT) if units else inp.n) if inp is not None else 0,
        'aborted': s['abort'] != 99,
        'hdrOk': hdr_ok[0], 'clen': clen[0], 'bodyBytes': body_bytes[0], 'bytesOk': bytes_ok[0],
        'consumedAll': s['abort'] == 99,
    }
    k = rec['k']
    truncated = bool(units and s['cfg']['family'] != 'http' and min(declared_eff, s['req']['len']) < s['req']['len'])
    k['bound'] = bool(k['rpc'] and s['req']['class'] in ('valid', 'badargs') and not k['toolong'] and not truncated)
    return rec


def _site(e):
    import traceback
    tb = traceback.extract_tb(e.__traceback__)
    for fr in reversed(tb):
        if '/spyne/' in fr.filename:
            return '%s:%s' % (fr.filename.split('/spyne/', 1)[1], fr.name)
    return '?'
