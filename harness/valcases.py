"""Shared by C05 / C06 / C04: turn SpyneValidate cases into real applications and requests."""
import datetime, decimal, json, os
from . import tlc, pipeline_common as pc, gen as G, enc as E

TEXTS = {'ab_nl': 'ab\n', 'nl_ab': '\nab', 'uni3': '日本語', 'red_sp': 'red ', 'arabic3': '٣', 'fullwidth7': '７'}
BOUND = datetime.datetime(2020, 1, 1, 0, 0, 0)


def export(ctx, family=None):
    """family: 'thorough' adds SpyneValidate.CasesMore (default: the tier of the run)"""
    family = family or ctx.tier
    out = os.path.join(ctx.work, 'validate_cases_%s.json' % family)
    cfg = pc.write_cfg(os.path.join(ctx.work, 'expv.cfg'), ['INIT Init', 'NEXT Next', 'CHECK_DEADLOCK FALSE'])
    tlc.run('ExportValidate', cfg, ctx.work, env={'OUT_FILE': out, 'FAMILY': family}, timeout=1800)
    d = json.load(open(out))
    d['cases'].sort(key=lambda c: json.dumps(c, sort_keys=True))
    return d


NUMF = {'none': {}, 'ge5': {'ge': 5}, 'gt5': {'gt': 5}, 'le5': {'le': 5}, 'lt5': {'lt': 5}, 'ge5le7': {'ge': 5, 'le': 7},
        'ge5gt3': {'ge': 5, 'gt': 3}, 'le5lt7': {'le': 5, 'lt': 7},
        'ge5gt5': {'ge': 5, 'gt': 5}, 'le5lt5': {'le': 5, 'lt': 5}}
STRF = {'minlen2': {'min_len': 2}, 'maxlen3': {'max_len': 3}, 'len2to3': {'min_len': 2, 'max_len': 3},
        'pattern': {'pattern': 'a+b'}, 'pattern_maxlen3': {'pattern': 'a+b', 'max_len': 3},
        'pattern_derived': {'pattern': 'a+b', '__parent__': {'pattern': 'x+y', 'probe': 'xxy'}},
        'pattern_alt': {'pattern': 'a|ab'}}


def type_of(c):
    g = c['group']
    if g in ('num', 'big'):
        return {'k': 'prim', 'p': c['ty'], 'facets': NUMF[c['facet']]}
    if g == 'str':
        return {'k': 'prim', 'p': 'Unicode', 'facets': STRF[c['facet']]}
    if g == 'enum':
        return {'k': 'enum', 'name': 'Color', 'values': ['red', 'green']}
    if g == 'occ':
        return {'k': 'prim', 'p': 'Integer', 'min': c['mino'], 'max': 'inf' if c['maxo'] == 99 else c['maxo']}
    if g == 'nil' and c['ty'] == 'Obj':
        return {'k': 'obj', 'name': 'NObj', 'fields': [['q', {'k': 'prim', 'p': 'Integer'}]], 'nillable': c['nillable'], 'min': c['mino']}
    if g == 'nil':
        t = {'k': 'prim', 'p': c['ty'], 'nillable': c['nillable'], 'min': c['mino']}
        if c.get('dflt'):
            t['default'] = 9 if c['ty'] == 'Integer' else 'dflt'
        return t
    if g == 'date':
        from pytz import utc
        b = BOUND.replace(tzinfo=utc)
        B = {'dt': [b.year, b.month, b.day, 0, 0, 0, 0, 0]}
        if c['facet'] == 'gegt':
            return {'k': 'prim', 'p': 'DateTime', 'facets': {'ge': B, 'gt': {'dt': [2019, 12, 31, 23, 0, 0, 0, 0]}}}
        if c['facet'] == 'lelt':
            return {'k': 'prim', 'p': 'DateTime', 'facets': {'le': B, 'lt': {'dt': [2020, 1, 1, 1, 0, 0, 0, 0]}}}
        return {'k': 'prim', 'p': 'DateTime', 'facets': {c['facet']: B}}
    if g == 'decbound':
        import decimal
        f = {'le10_5': {'le': decimal.Decimal('10.5')}, 'lt1': {'lt': decimal.Decimal(1)}, 'ge10_5': {'ge': decimal.Decimal('10.5')}, 'gt1': {'gt': decimal.Decimal(1)}}[c['facet']]
        return {'k': 'prim', 'p': 'Decimal', 'facets': f}
    if g == 'nbound':
        return {'k': 'prim', 'p': 'DateTime', 'facets': {c['facet']: {'dt': [2020, 1, 1, 0, 0, 0, 0, 9999]}}}
    if g == 'zone':
        return {'k': 'prim', 'p': 'DateTime', 'facets': {c['facet']: {'dt': [2020, 1, 1, 0, 0, 0, 0, 0]}, 'as_timezone': {'fixed': 120}}}
    if g == 'attrreq':
        at = ({'k': 'attr', 'of': {'k': 'prim', 'p': 'Integer', 'min': 1}} if c['decl'] == 'min1'
              else {'k': 'attr', 'of': {'k': 'prim', 'p': 'Integer'}, 'use': 'required'})
        return {'k': 'obj', 'name': 'At_' + c['decl'], 'fields': [['v', at], ['w', {'k': 'prim', 'p': 'Integer'}]]}
    if g == 'subname':
        return {'k': 'obj', 'name': 'Sn', 'fields': [['x', {'k': 'prim', 'p': 'Integer', 'min': 1, 'sub_name': 'xx'}], ['w', {'k': 'prim', 'p': 'Integer'}]]}
    if g == 'inh':
        return {'k': 'obj', 'name': 'Der', 'fields': [['n', {'k': 'prim', 'p': 'Integer', 'min': 1}]],
                'base': {'k': 'obj', 'name': 'Bas', 'fields': [['m', {'k': 'prim', 'p': 'Integer', 'min': 1}]]}}
    if g == 'time':
        return {'k': 'prim', 'p': 'Time', 'facets': {('le' if c['facet'] == 'le25' else 'ge'): {'tm': [17, 0, 0, 250000]}}}
    if g == 'lex':
        return {'k': 'prim', 'p': c['ty'], 'facets': {}}
    if g == 'objarr':
        return {'k': 'arr', 'of': {'k': 'obj', 'name': 'El', 'fields': [['v', {'k': 'prim', 'p': 'Integer', 'min': 1}],
                                                                      ['w', {'k': 'prim', 'p': 'Integer'}]]}}
    raise ValueError(c)


def value_of(c, fam):
    """-> the value to send (may be Raw for the text families), or SKIP"""
    text = fam in ('xml', 'soap11', 'soap12', 'http')
    g = c['group']
    if g == 'num':
        x10 = c['x10']
        ty = c['ty']
        if ty == 'Decimal':
            return decimal.Decimal(x10) / 10
        if ty == 'Double':
            return x10 / 10.0
        if x10 % 10 == 0:
            return x10 // 10
        return E.Raw('%s.%d' % (('-' if x10 < 0 else '') + str(abs(x10) // 10), abs(x10) % 10)) if text else x10 / 10.0
    if g == 'big':
        return E.Raw(c['lit']) if text else int(c['lit'])
    if g in ('str', 'enum'):
        return TEXTS.get(c['text'], c['text'])
    if g == 'occ':
        return [7] * c['count'] if c['count'] else None
    if g == 'nil':
        if c['how'] == 'nil':
            return SKIP if fam == 'http' else E.NIL
        if c['how'] == 'absent':
            return None
        return {'q': 5} if c['ty'] == 'Obj' else 5 if c['ty'] == 'Integer' else datetime.date(2020, 1, 2) if c['ty'] == 'Date' else 'x'
    if g in ('date', 'nbound'):
        from pytz import FixedOffset, utc
        inst = BOUND.replace(tzinfo=utc) + datetime.timedelta(minutes=c['delta'])
        return inst.astimezone(FixedOffset(c['off']))
    if g == 'decbound':
        return E.Raw(c['lit']) if text else c['lit']          # (a decimal travels as its text in the dict documents)
    if g == 'zone':
        from pytz import utc
        inst = BOUND + datetime.timedelta(minutes=c['delta'])
        if c['how'] == 'z':
            return inst.replace(tzinfo=utc)
        return inst.replace(tzinfo=None) + datetime.timedelta(minutes=120)          # (no designator: wall-clock time at UTC+02:00)
    if g == 'attrreq':
        if c['decl'] == 'required' and c['how'] == 'absent' and fam not in ('xml', 'soap11', 'soap12'):
            return SKIP          # (use = required is a declaration of the XML schema: the other notations have ordinary members)
        return {'v': 5, 'w': 1} if c['how'] == 'present' else {'w': 1}
    if g == 'subname':
        return {'x': 5, 'w': 1} if c['how'] == 'present' else {'w': 1}
    if g == 'inh':
        if c['omit'] == 'both' and fam == 'http':
            return SKIP          # (the flat notation cannot spell an object without members: no key, no object)
        return {k: v for k, v in (('m', 1), ('n', 2)) if c['omit'] not in (k, 'both')}
    if g == 'time':
        return E.Raw('17:00:00' + c['frac']) if text else '17:00:00' + c['frac']
    if g == 'lex':
        return E.Raw(TEXTS.get(c['text'], c['text'])) if text else SKIP
    if g == 'objarr':
        if c['missing'] > c['n']:
            return SKIP
        n = c['n']
        idx = list(range(n)) if c['idx'] == 'contig' else ([2, 10] if n == 2 else [0, 2, 10] if n == 3 else list(range(0, 2 * n, 2)))
        items = []
        for k, i in enumerate(idx):
            o = {'v': 100 + k, 'w': k}
            if c['missing'] == k + 1:
                del o['v']
            items.append((i, o))
        return E.Sparse(items)
    raise ValueError(c)


SKIP = object()


def positions_of(c, fam):
    g = c['group']
    if g == 'objarr':
        return ['arg']
    pos = ['arg', 'field']
    if g == 'nil' and c['how'] == 'absent' and fam in ('json', 'yaml', 'msgpack', 'msgpack_bin', 'jsonrpc'):
        pos.append('nobody')          # the only argument is absent because the whole argument map is null: {"f": null}
    if g in ('num', 'big', 'str', 'enum', 'date', 'lex', 'time', 'zone', 'nbound', 'decbound'):
        pos.append('array')
        pos.append('rep')
        pos.append('repfield')
        if fam in ('xml', 'soap11', 'soap12'):
            pos.append('attr')
    return pos


def call_shape(c, pos, T, v, ok):
    """-> args [(name, texpr, value)] for the position; ok = a valid value of T (array filler)"""
    if pos in ('arg', 'nobody'):
        return [('v', T, v)]
    if pos == 'field':
        C = {'k': 'obj', 'name': 'C', 'fields': [['v', T], ['w', {'k': 'prim', 'p': 'Integer'}]]}
        return [('c', C, {'v': v, 'w': 1})]
    if pos == 'array':
        return [('a', {'k': 'arr', 'of': T}, [ok, v])]
    if pos == 'rep':
        return [('a', dict(T, max='inf'), [ok, v])]
    if pos == 'repfield':
        C = {'k': 'obj', 'name': 'C', 'fields': [['v', dict(T, max='inf')], ['w', {'k': 'prim', 'p': 'Integer'}]]}
        return [('c', C, {'v': [ok, v], 'w': 1})]
    if pos == 'attr':
        C = {'k': 'obj', 'name': 'C', 'fields': [['v', {'k': 'attr', 'of': T}], ['w', {'k': 'prim', 'p': 'Integer'}]]}
        return [('c', C, {'v': v, 'w': 1})]
    raise ValueError(pos)


class Runner(object):
    """Caches one application per (type, position, family, validator)."""

    def __init__(self):
        self.apps = {}
        self.seen = []

    def app(self, T, pos, fam, validator, shape):
        from spyne import Application
        from spyne.server.wsgi import WsgiApplication
        key = (json.dumps(T, sort_keys=True, default=str), pos, fam, validator)
        a = self.apps.get(key)
        if a is None:
            g = G.Gen()
            svc = G.make_service(g, [{'name': 'f', 'args': [[n, t] for n, t, _ in shape],
                                      'ret': {'k': 'prim', 'p': 'Integer'}, 'returns': lambda args: 1}], self.seen)
            inp, outp = E.protocols(fam, validator=validator)
            w = WsgiApplication(Application([svc], 'tns', in_protocol=inp, out_protocol=outp))
            a = self.apps[key] = (g, w)
            if len(self.apps) > 4000:
                self.apps.clear()
        return a

    def run(self, T, pos, fam, validator, shape):
        g, w = self.app(T, pos, fam, validator, shape)
        E.NOBODY[0] = pos == 'nobody'
        try:
            env, body = E.request(g, fam, 'f', shape)
        finally:
            E.NOBODY[0] = False
        del self.seen[:]
        res = E.send(w, env, body)
        ran = len(self.seen)
        if res['escape']:
            return {'ran': ran > 0, 'fault': False, 'client': False, 'escape': res['escape'], 'status': -1, 'args': None}
        code = E.fault_code(fam, res)
        isfault = code is not None or res['status'] >= 400
        return {'ran': ran > 0, 'nran': ran, 'fault': bool(isfault), 'client': bool(code) and (code == 'Client' or code.startswith('Client.')),
                'code': code, 'status': res['status'], 'escape': None,
                'args': [repr(a) for a in self.seen[0][1]] if self.seen else None, 'body': body[:300]}
