"""Minimal parser for TLC value syntax: ints, strings, <<seq>>, {set}, [rec |-> v], (k :> v @@ ...), TRUE/FALSE, model values."""
import re
_tok = re.compile(r'\s*(<<|>>|\|->|:>|@@|[\[\]{}(),]|"(?:[^"\\]|\\.)*"|-?\d+|[A-Za-z_][A-Za-z0-9_]*)')
def tokenize(s):
    pos, out = 0, []
    while pos < len(s):
        m = _tok.match(s, pos)
        if not m:
            if s[pos:].strip() == '': break
            raise ValueError('bad token at %r' % s[pos:pos+20])
        out.append(m.group(1)); pos = m.end()
    return out
def parse(s):
    toks = tokenize(s); v, i = _val(toks, 0)
    assert i == len(toks), toks[i:]
    return v
def _val(t, i):
    x = t[i]
    if x == '<<':
        out = []; i += 1
        while t[i] != '>>':
            v, i = _val(t, i); out.append(v)
            if t[i] == ',': i += 1
        return tuple(out), i + 1
    if x == '{':
        out = []; i += 1
        while t[i] != '}':
            v, i = _val(t, i); out.append(v)
            if t[i] == ',': i += 1
        return frozenset(out), i + 1
    if x == '[':
        d = {}; i += 1
        while t[i] != ']':
            k = t[i]; assert t[i+1] == '|->'; v, i = _val(t, i + 2); d[k] = v
            if t[i] == ',': i += 1
        return d, i + 1
    if x == '(':
        d = {}; i += 1
        while t[i] != ')':
            k, i = _val(t, i); assert t[i] == ':>'; v, i = _val(t, i + 1); d[k] = v
            if t[i] == '@@': i += 1
        return d, i + 1
    if x.startswith('"'): return bytes(x[1:-1], 'utf-8').decode('unicode_escape'), i + 1
    if re.fullmatch(r'-?\d+', x): return int(x), i + 1
    if x == 'TRUE': return True, i + 1
    if x == 'FALSE': return False, i + 1
    return x, i + 1
def parse_state(label):
    """label: '/\\ a = v\n/\\ b = w' -> dict"""
    st = {}
    for part in re.split(r'(?:^|\n)/\\ ', label):
        part = part.strip()
        if not part: continue
        name, val = part.split(' = ', 1)
        st[name] = parse(val)
    return st
def read_dot(path):
    nodes, edges, init = {}, [], None
    for line in open(path):
        m = re.match(r'(-?\d+) -> (-?\d+) \[label="((?:[^"\\]|\\.)*)"', line)
        if m: edges.append((m.group(1), m.group(2), m.group(3).replace('\\"', '"'))); continue
        m = re.match(r'(-?\d+) \[label="((?:[^"\\]|\\.)*)"(.*)', line)
        if m:
            lab = m.group(2).replace('\\n', '\n').replace('\\\\', '\\').replace('\\"', '"')
            nodes[m.group(1)] = parse_state(lab)
            if 'style = filled' in m.group(3): init = m.group(1)
    return nodes, edges, init


def parse_action(label):
    """'Add("B1","ea","h1")' -> ('Add', ('B1', 'ea', 'h1'));  'Subclass' -> ('Subclass', ())"""
    m = re.match(r'(\w+)(?:\((.*)\))?$', label.strip())
    name, args = m.group(1), m.group(2)
    if args is None or args.strip() == '':
        return name, ()
    return name, parse('<<' + args + '>>')


def bfs_paths(nodes, edges, init):
    """-> {node: [edge labels from init]} along a BFS tree"""
    from collections import deque, defaultdict
    adj = defaultdict(list)
    for a, b, l in edges:
        adj[a].append((b, l))
    path = {init: []}
    q = deque([init])
    while q:
        a = q.popleft()
        for b, l in adj[a]:
            if b not in path:
                path[b] = path[a] + [l]
                q.append(b)
    return path
