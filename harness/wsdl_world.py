"""A real WsgiApplication instrumented (instances only, no source changes) for
scheduling experiments on the lazy WSDL cache.

Shared accesses that become yield points:
   R/W  reads/writes of the transport attribute(s) that cache the document.  They are
        discovered, not named: an attribute of the transport that is None before a
        solo ?wsdl request and bytes after it.
   G    Wsdl11.get_interface_document()
   B/E  begin / end of Wsdl11.build_interface_document(url)
   acquire/release of every threading.Lock found in the transport (by type)
   S    start_response
"""
import io, threading
from .core import use_repo
use_repo()
from . import sched as sc


def make_app():
    from spyne import Application, Service, srpc, Integer, Unicode, ComplexModel, Array, Fault
    from spyne.protocol.soap import Soap11

    class P(ComplexModel):
        __namespace__ = 'tns'
        a = Integer
        s = Unicode

    class S1(Service):
        @srpc(Integer, _returns=Integer)
        def f(a): return a

        @srpc(P, _returns=Array(P))
        def g(p): return [p]

    class S2(Service):
        __port_types__ = ('PtA', 'PtB')

        @srpc(Integer, _returns=Integer, _port_type='PtA')
        def h(a): return a

        @srpc(Unicode, _returns=Unicode, _port_type='PtB')
        def k(s): return s
    return Application([S1, S2], 'tns', name='App', in_protocol=Soap11(), out_protocol=Soap11())


ENV = {'REQUEST_METHOD': 'GET', 'PATH_INFO': '/', 'QUERY_STRING': 'wsdl',
       'wsgi.url_scheme': 'http', 'SERVER_NAME': 'x', 'SERVER_PORT': '80'}


def solo_document():
    from spyne.server.wsgi import WsgiApplication
    w = WsgiApplication(make_app())
    before = {k: v for k, v in vars(w).items()}
    env = dict(ENV); env['wsgi.input'] = io.BytesIO(b'')
    doc = b''.join(w(env, lambda s, h, e=None: None))
    cache = [k for k, v in vars(w).items() if before.get(k, 0) is None and isinstance(v, bytes)]
    return doc, cache


class World(object):
    def __init__(self, sched, fail_first_build=False, cache_attrs=('_wsdl',), shared_yields=True):
        from spyne.server.wsgi import WsgiApplication
        self.s = sched
        self.w = w = WsgiApplication(make_app())
        self.builds = 0
        self.res = {}
        self.events = []           # (tid, kind, view after the access), logged by the accessing thread
        self.locks = sc.replace_locks(w, sched)
        for l in self.locks:
            object.__getattribute__(w, l).on_change = self.record
        self.cache_attrs = tuple(cache_attrs)
        world = self
        base = w.__class__
        names = set(self.cache_attrs)
        if shared_yields:
            class Traced(base):
                def __getattribute__(self, k):
                    if k in names:
                        sched.yield_point(('R', k))
                        v = base.__getattribute__(self, k)
                        world.record('R')
                        return v
                    return base.__getattribute__(self, k)

                def __setattr__(self, k, v):
                    if k in names:
                        sched.yield_point(('W', k))
                        base.__setattr__(self, k, v)
                        world.record('W')
                        return
                    base.__setattr__(self, k, v)
            w.__class__ = Traced
        w11 = w.doc.wsdl11
        og, ob = w11.get_interface_document, w11.build_interface_document
        failing = [fail_first_build]

        def get():
            if shared_yields:
                sched.yield_point(('G', ''))
            v = og()
            world.record('G')
            return v

        def build(url):
            if shared_yields:
                sched.yield_point(('B', ''))
            world.builds += 1
            world.record('B')
            if shared_yields:
                sched.yield_point(('E', ''))
            if failing[0]:
                # the failure strikes LATE in the real build (a wsdl_document_built listener that raises once): whatever the
                # failed attempt left behind in the Wsdl11 object is there when the next requester builds again
                failing[0] = False
                armed = [True]

                def boom(doc):
                    if armed[0]:
                        armed[0] = False
                        raise RuntimeError('injected build failure')
                w11.event_manager.add_listener('wsdl_document_built', boom)
            try:
                return ob(url)
            finally:
                world.record('E')
        w11.get_interface_document = get
        w11.build_interface_document = build

    def record(self, kind):
        t = self.s.tid()
        if t is not None:
            self.events.append({'t': t, 'k': kind, 'view': self.view()})

    def view(self):
        w = self.w
        cached = any(object.__getattribute__(w, a) is not None for a in self.cache_attrs)
        owner = 0
        for l in self.locks:
            o = object.__getattribute__(w, l).owner
            if o is not None:
                owner = o
        return [bool(cached), self.builds, owner]

    def request(self, t):
        def fn():
            env = dict(ENV); env['wsgi.input'] = io.BytesIO(b'')
            r = self.res.setdefault(t, {})

            def sr(status, headers, exc_info=None):
                self.s.yield_point(('S', ''))
                r['status'] = status
                self.record('S')
            try:
                r['body'] = b''.join(self.w(env, sr))
            except Exception as e:
                r['exc'] = '%s: %s' % (type(e).__name__, e)
        return fn


KIND = {'peek': 'R', 'read1': 'R', 'read2': 'R', 'store1': 'W', 'store2': 'W', 'getdoc1': 'G', 'getdoc2': 'G',
        'build': 'B', 'buildend': 'E', 'acquire': 'acquire', 'release': 'release', 'releasefail': 'release',
        'respond': 'S'}
