"""Glue between the SpyneSignatures case family (TLA+ records as JSON) and real Spyne objects:
type records -> generator expressions, value tuples <-> native values, XML -> token sequences."""
import base64, datetime, decimal, json, os, uuid
from . import tlc, pipeline_common as pc, gen as G, enc as E

XSI = 'http://www.w3.org/2001/XMLSchema-instance'


def export(ctx, family='cases'):
    out = os.path.join(ctx.work, 'signature_%s.json' % family)
    cfg = pc.write_cfg(os.path.join(ctx.work, 'exps.cfg'), ['INIT Init', 'NEXT Next', 'CHECK_DEADLOCK FALSE'])
    tlc.run('ExportSignatures', cfg, ctx.work, env={'OUT_FILE': out, 'FAMILY': family})
    d = json.load(open(out))
    d.sort(key=lambda c: json.dumps(c, sort_keys=True))
    return d


def texpr(t, f=None):
    """TLA type record (+ the field record carrying min/max) -> gen expression"""
    k = t['k']
    if k == 'prim':
        out = {'k': 'prim', 'p': t['p']}
        if 'dflt' in t:
            out['default'] = leaf_native(t['p'], t['dflt'])      # the type declares a default value
    elif k == 'obj':
        out = {'k': 'obj', 'name': t['name'], 'ns': t['ns'], 'fields': [[x['n'], texpr(x['t'], x)] for x in t['fields']],
               'base': texpr(t['base']) if t.get('hasbase') else None}
        if 'tname' in t:
            out['tname'] = t['tname']
    elif k == 'arr':
        out = {'k': 'arr', 'of': texpr(t['of'])}
    elif k == 'attr':
        out = {'k': 'attr', 'of': texpr(t['of'])}
    elif k == 'any':
        out = {'k': 'any'}
    elif k == 'enum':
        out = {'k': 'enum', 'name': t['name'], 'values': list(t['values'])}
    else:
        raise ValueError(t)
    if f is not None and 'sub' in f:
        out['sub_name'] = f['sub']
    if f is not None and f.get('exc'):
        out['exc'] = True
    if f is not None and k != 'attr':
        if f['min'] != 0:
            out['min'] = f['min']
        if f['max'] != 1:
            out['max'] = 'inf' if f['max'] == 99 else f['max']
    return out


def leaf_native(p, text):
    if p in ('Integer', 'Integer8', 'UnsignedInteger16', 'Integer16', 'Integer32', 'Integer64'): return int(text)
    if p == 'Unicode': return text
    if p == 'Boolean': return text == 'true'
    if p == 'Date': return datetime.date.fromisoformat(text)
    if p == 'DateTime':
        from pytz import FixedOffset
        d = datetime.datetime.fromisoformat(text)
        if d.utcoffset() is not None:
            d = d.replace(tzinfo=FixedOffset(int(d.utcoffset().total_seconds() // 60)))
        return d
    if p == 'Time': return datetime.time.fromisoformat(text)
    if p == 'Duration': return DURATIONS[text]
    if p == 'Double': return float(text)
    if p == 'Decimal': return decimal.Decimal(text)
    if p == 'Uuid': return uuid.UUID(text)
    if p == 'ByteArray': return base64.b64decode(text)
    raise ValueError(p)


DURATIONS = {'P1DT2S': datetime.timedelta(days=1, seconds=2), 'PT2H3M': datetime.timedelta(hours=2, minutes=3)}


def leaf_text(p, x):
    """native leaf -> canonical text (the spelling SpyneSignatures uses)"""
    if p == 'Duration' and isinstance(x, datetime.timedelta):
        return next((k for k, v in DURATIONS.items() if v == x), E.lex(x))
    if p == 'ByteArray':
        if isinstance(x, (list, tuple)):
            x = b''.join(x)
        return base64.b64encode(x).decode()
    if p == 'DateTime' and isinstance(x, datetime.datetime):
        return x.isoformat()
    if p == 'Decimal' and isinstance(x, decimal.Decimal) and x.is_finite():
        # equality is numeric: 1.50 and 1.5 are the same value
        s = format(x, 'f')
        if '.' in s:
            s = s.rstrip('0').rstrip('.')
        return s
    return E.lex(x)


def flat_fields(t):
    return (flat_fields(t['base']) if t.get('hasbase') else []) + list(t['fields'])


def runtime(t, v):
    """the class of an object value: the declared type or the registered subclass it names"""
    if t['k'] == 'obj' and isinstance(v, list) and len(v) == 3 and v[0] == 'obj' and v[1] != t['name']:
        for s in t.get('subs') or []:
            if s['name'] == v[1]:
                return s
    return t


def register_subs(gen, t):
    """subclasses exist (and are known to their base) before the interface is built"""
    if t['k'] in ('arr', 'attr'):
        return register_subs(gen, t['of'])
    if t['k'] == 'obj':
        for s in t.get('subs') or []:
            gen.cls(texpr(s))
        for f in flat_fields(t):
            register_subs(gen, f['t'])


def to_wire_value(t, v):
    """TLA value -> the native tree enc.py takes (dict for objects, list for sequences)"""
    if v == ['nil']:
        return None
    k = t['k']
    if v[0] == 'seq' and k != 'arr':
        return [to_wire_value(t, x) for x in v[1]]
    if k == 'prim':
        # (a duration is sent in the spelling of the case, which is one of the many that denote it)
        return E.Raw(v[1]) if t['p'] == 'Duration' else leaf_native(t['p'], v[1])
    if k == 'attr':
        return leaf_native(t['of']['p'], v[1])
    if k == 'any':
        return E.XmlTree(v[1])
    if k == 'arr':
        return [to_wire_value(t['of'], x) for x in v[1]]
    if k == 'obj':
        rt = runtime(t, v)
        d = {f['n']: to_wire_value(f['t'], x) for f, x in zip(flat_fields(rt), v[2])}
        if rt is not t:
            d['__rt__'] = texpr(rt)          # a subclass instance where the base is declared (xsi:type)
        return d
    raise ValueError(t)


def to_instance(gen, t, v, texp=None, memo=None):
    """TLA value -> what user code returns: Spyne instances for objects (memo: ONE instance per equal object value - a value
    that occurs twice is then the same Python object referenced twice)"""
    if v == ['nil']:
        return None
    k = t['k']
    if v[0] == 'seq' and k != 'arr':
        return [to_instance(gen, t, x, memo=memo) for x in v[1]]
    if k == 'prim':
        x = leaf_native(t['p'], v[1])
        # (a ByteArray value is a sequence of chunks whose concatenation is the value: hand it over in two uneven chunks)
        return ([x[:1], x[1:]] if len(x) >= 2 else [x]) if t['p'] == 'ByteArray' else x
    if k == 'attr':
        return leaf_native(t['of']['p'], v[1])
    if k == 'any':
        from lxml import etree
        if memo is not None and ('any', v[1]) in memo:
            return memo[('any', v[1])]          # ONE tree object wherever the value occurs
        x = etree.fromstring(E.TREES[v[1]])
        if memo is not None:
            memo[('any', v[1])] = x
        return x
    if k == 'arr':
        return [to_instance(gen, t['of'], x, memo=memo) for x in v[1]]
    if k == 'obj':
        key = json.dumps([t['ns'], t['name'], v], sort_keys=True)
        if memo is not None and key in memo:
            return memo[key]
        rt = runtime(t, v)
        cls = gen.cls(texpr(rt))
        o = cls(**{f['n']: to_instance(gen, f['t'], x, memo=memo) for f, x in zip(flat_fields(rt), v[2])})
        if memo is not None:
            memo[key] = o
        return o
    raise ValueError(t)


def from_native(t, x, repeated=False):
    """native value delivered to user code / decoded by a client -> TLA value"""
    if x is None:
        return ['nil']
    k = t['k']
    if repeated:
        return ['seq', [from_native(t, y) for y in x]]
    if k == 'prim':
        try:
            return ['leaf', leaf_text(t['p'], x)]
        except Exception:
            return ['leaf', '?%s' % type(x).__name__]
    if k == 'attr':
        return from_native(t['of'], x)
    if k == 'any':
        return ['xml', tree_name(x)]
    if k == 'enum':
        return ['leaf', str(x)]
    if k == 'arr':
        try:
            return ['seq', [from_native(t['of'], y) for y in x]]
        except TypeError:
            return ['leaf', '?%s' % type(x).__name__]
    if k == 'obj':
        name = type(x).get_type_name() if hasattr(type(x), 'get_type_name') else type(x).__name__
        vals = []
        xns = type(x).get_namespace() if hasattr(type(x), 'get_namespace') else None
        rt = next((s for s in t.get('subs') or [] if s.get('tname', s['name']) == name and ('tname' not in s or s['ns'] == xns)), t)
        if 'tname' in rt:
            name = rt['name']            # the model's name of the class (its public type name is shared with another class)
        for f in flat_fields(rt):
            y = getattr(x, f['n'], None) if not isinstance(x, dict) else x.get(f['n'])
            vals.append(from_native(f['t'], y, repeated=f['max'] > 1))
        return ['obj', name, vals]
    raise ValueError(t)


def tree_name(x):
    """an XML tree handed to user code / decoded by a client -> the name SpyneXmlDoc.TreeToks knows it by (compared as tokens: what
    its type markers denote is part of it)"""
    from lxml import etree
    try:
        got = tokens(x if hasattr(x, 'tag') else etree.fromstring(x))
    except Exception as e:
        return '?%s' % type(x).__name__
    for n, text in E.TREES.items():
        if tokens(text.encode()) == got:
            return n
    return '?tree:%s' % json.dumps(got)[:200]


def tokens(body):
    """XML bytes (or an element) -> token list of SpyneXmlDoc"""
    from lxml import etree
    root = body if hasattr(body, 'tag') else etree.fromstring(body)
    out = []

    def walk(e):
        q = etree.QName(e)
        out.append(['S', q.namespace or '', q.localname])
        xt = e.get('{%s}type' % XSI)
        if xt is not None:
            p, _, l = xt.rpartition(':')
            out.append(['X', e.nsmap.get(p or None, 'UNBOUND:' + p), l])
        attrs = [[etree.QName(k).localname, e.attrib[k]] for k in e.attrib if not k.startswith('{%s}' % XSI)]
        if attrs:
            out.append(['AS', attrs])
        if e.get('{%s}nil' % XSI) == 'true':
            out.append(['NIL'])
        kids = [c for c in e if isinstance(c.tag, str)]
        if not kids:
            # character data of a leaf: all text nodes (comments and PIs interrupt, they do not end it)
            txt = (e.text or '') + ''.join((c.tail or '') for c in e)
            if txt != '':
                out.append(['T', txt])
        for c in kids:
            walk(c)
        out.append(['E'])
    walk(root)
    return out


def style_of(case):
    return case.get('style', 'wrapped')


def to_raw_value(t, v):
    """TLA value -> native tree whose leaves are the exact request spellings (enc.Raw)"""
    if v == ['nil']:
        return None
    k = t['k']
    if v[0] == 'seq' and k != 'arr':
        return [to_raw_value(t, x) for x in v[1]]
    if k in ('prim', 'attr'):
        return E.Raw(v[1])
    if k == 'any':
        return E.XmlTree(v[1])
    if k == 'arr':
        return [to_raw_value(t['of'], x) for x in v[1]]
    if k == 'obj':
        rt = runtime(t, v)
        d = {f['n']: to_raw_value(f['t'], x) for f, x in zip(flat_fields(rt), v[2])}
        if rt is not t:
            d['__rt__'] = texpr(rt)
        return d
    raise ValueError(t)


def args_for_enc(case, spelled=False):
    if spelled:
        return [(f['n'], texpr(f['t'], f), to_raw_value(f['t'], v)) for f, v in zip(case['args'], case['reqvals'])]
    return [(f['n'], texpr(f['t'], f), to_wire_value(f['t'], v)) for f, v in zip(case['args'], case['vals'])]


def from_plain(t, x, repeated=False):
    """value decoded by a foreign client (zeep: dicts / lists / natives) -> TLA value"""
    if x is None:
        return ['nil']
    if repeated:
        return ['seq', [from_plain(t, y) for y in x]] if isinstance(x, (list, tuple)) else ['seq', [from_plain(t, x)]]
    k = t['k']
    if k == 'prim':
        try:
            if t['p'] == 'Uuid' and isinstance(x, str):
                return ['leaf', x.lower()]
            return ['leaf', leaf_text(t['p'], x)]
        except Exception:
            return ['leaf', '?%s' % type(x).__name__]
    if k == 'attr':
        return from_plain(t['of'], x)
    if k == 'arr':
        if isinstance(x, dict) and len(x) == 1:
            x = list(x.values())[0]
        if x is None:
            return ['seq', []]
        return ['seq', [from_plain(t['of'], y) for y in x]]
    if k == 'obj':
        if not isinstance(x, dict):
            return ['leaf', '?%s' % type(x).__name__]
        return ['obj', t['name'], [from_plain(f['t'], x.get(f['n']), repeated=f['max'] > 1) for f in flat_fields(t)]]
    raise ValueError(t)


def to_zeep_value(t, v):
    """TLA value -> what zeep takes: an array is an object whose single member is named after the item type"""
    if v == ['nil']:
        return None
    k = t['k']
    if v[0] == 'seq' and k != 'arr':
        return [to_zeep_value(t, x) for x in v[1]]
    if k == 'arr':
        return {t['item']: [to_zeep_value(t['of'], x) for x in v[1]]}
    if k == 'obj':
        return {f['n']: to_zeep_value(f['t'], x) for f, x in zip(flat_fields(t), v[2])}
    if k == 'prim' and t['p'] == 'Duration':
        return leaf_native('Duration', v[1])          # zeep spells it itself
    return to_wire_value(t, v)
