"""X04 (beyond the listed properties) - the JSON envelope protocols carry the documents of JsonDocument.

JsonP, HybridHttpJsonDocument and JsonRpc('spyne') are exercised with the SpyneDictCases family: the request is written by the
independent encoder of the conventions (dictdoc.py) and put into the envelope by hand; the reply's envelope is taken apart by
hand; TLC (TraceEnvelope) checks Delivered, EnvelopeOk and InsideIsSpec.  Not registered in MANIFEST.json; report in extras/X04.json.
"""
import io, json, os
from .. import tlc, gen as G, sigcases as S, dictdoc as D, enc as E


def world(c, env, seen, holder):
    from spyne import Application
    from spyne.protocol.json import JsonDocument, JsonP, HybridHttpJsonDocument, JsonRpc
    from spyne.server.wsgi import WsgiApplication
    gen = G.Gen()
    for t in list(c['rets']) + [f['t'] for f in c['args']]:
        S.register_subs(gen, t)
    rets = [S.texpr(t) for t in c['rets']]
    m = {'name': c['method'], 'args': [[f['n'], S.texpr(f['t'], f)] for f in c['args']],
         'ret': None if not rets else (rets[0] if len(rets) == 1 else rets), 'returns': lambda args: holder[0]}
    svc = G.make_service(gen, [m], seen)
    inp, outp = {'jsonp': (JsonDocument(), JsonP('cb')), 'hybrid': (HybridHttpJsonDocument(), JsonDocument()),
                 'jsonrpc': (JsonRpc('spyne'), JsonRpc('spyne'))}[env]
    return gen, WsgiApplication(Application([svc], c['tns'], in_protocol=inp, out_protocol=outp))


def run(ctx):
    cases = [c for c in D.export(ctx) if c['id'] in ('T1', 'T3', 'T4', 'T5', 'T7', 'D1')]
    if ctx.quick:
        cases = [c for i, c in enumerate(cases) if (i + ctx.seed) % 3 == 0]
    cfg = dict(fam='json', iw=True, ca='dict', poly=False)
    recs = []
    for c in cases:
        for env in ('jsonp', 'hybrid', 'jsonrpc'):
            seen, holder = [], [None]
            obs = {'ncalls': 0, 'args': [['leaf', '?not-called'] for _ in c['args']], 'inner': ['null'], 'callback': '', 'tail': '', 'ver': 0, 'keys': []}
            info = {}
            try:
                gen, w = world(c, env, seen, holder)
                vals = [D.to_instance(gen, t, v) for t, v in zip(c['rets'], c['rvals'])]
                holder[0] = None if not vals else (vals[0] if len(vals) == 1 else tuple(vals))
                doc = D.request_doc(c, cfg, 'map')
                path = '/'
                if env == 'hybrid':
                    (mname, args), = doc.items()
                    body, path = json.dumps(args).encode(), '/api/' + mname
                elif env == 'jsonrpc':
                    body = json.dumps({'ver': 1, 'body': doc}).encode()
                else:
                    body = json.dumps(doc).encode()
                res = E.send(w, {'REQUEST_METHOD': 'POST', 'PATH_INFO': path, 'QUERY_STRING': '', 'CONTENT_TYPE': 'application/json'}, body)
                info = {'request': body[:300].decode('utf8', 'replace'), 'response': res['body'][:300].decode('utf8', 'replace'), 'status': res['status'], 'escape': res['escape']}
                obs['ncalls'] = len(seen)
                if seen:
                    obs['args'] = D.unrev([S.from_native(f['t'], x, repeated=f['max'] > 1) for f, x in zip(c['args'], seen[0][1])])
                raw = res['body'].decode('utf8')
                if env == 'jsonp':
                    i = raw.index('(')
                    obs['callback'], obs['tail'] = raw[:i], raw[raw.rindex(')'):]
                    obs['inner'] = D.tree(json.loads(raw[i + 1:raw.rindex(')')]) if raw[i + 1:raw.rindex(')')].strip() else None)
                elif env == 'jsonrpc':
                    d = json.loads(raw)
                    obs['ver'], obs['keys'] = d.get('ver', 0), sorted(d.keys())
                    obs['inner'] = D.tree(d.get('body'))
                else:
                    obs['inner'] = D.tree(json.loads(raw) if raw.strip() else None)
            except Exception as e:
                info['driver'] = '%s: %s' % (type(e).__name__, e)
            recs.append({'c': c, 'env': env, 'obs': obs, 'info': info})
    res = tlc.validate_records('TraceEnvelope', ['INIT Init', 'NEXT Next', 'CONSTRAINT Report', 'CHECK_DEADLOCK FALSE'], ctx.work,
                               [{'c': r['c'], 'env': r['env'], 'obs': r['obs']} for r in recs], tag='env')
    nfail = 0
    from .c02 import case_class
    for k, r in enumerate(recs):
        cl = sorted(res[k][0])
        if not cl:
            continue
        nfail += 1
        ctx.violation('%s|env=%s|%s' % ('+'.join(cl), r['env'], case_class(r['c'])[:120]),
                      '%s: %s over %s: %s' % (cl, case_class(r['c']), r['env'], json.dumps(r['info'])[:500]), {'case': r['c'], 'env': r['env'], 'obs': r['obs'], 'info': r['info']})
    ctx.level = 'exploration'
    ctx.cov_add(traces_validated_against_impl=len(recs) - nfail, evaluations=len(recs), cases=len(cases), distinct_nontrivial=len(recs), exhaustive=not ctx.quick,
                rule='SpyneDictCases (T1, T3, T4, T5, T7, D1) x {JsonP, HybridHttpJsonDocument, JsonRpc(spyne)}; each exchange is a distinct (case, envelope)')
    ctx.sample({'envelope': recs[0]['env'], 'info': recs[0]['info']})
    ctx.sample({'envelope': recs[-1]['env'], 'info': recs[-1]['info']})
