"""C12 - concurrent requests do not interfere; the lazy WSDL is built once, served whole.

 M1  SpyneWsdlCache (one action per shared access of handle_wsdl_request) for 2, 3 (4)
     threads, with a failing first build: BuiltOnce, WholeDoc, CacheSound, LockHolder,
     LockFreeAtEnd, AllRespond; each design fault (StaleStore = the pinned code,
     NoLock, NoSecondCheck, PublishEarly) breaks a clause.
 M2  spec -> code: TLC behaviours are imposed on a real WsgiApplication at
     shared-access granularity (all 2-thread behaviours; an edge cover and random
     walks for 3 threads); the real (cached?, builds, lock owner) is compared with the
     TLC state after every step and every responder's bytes with the sequential build.
 M3  code -> spec: systematic exploration of real schedules with a preemption bound,
     at shared-access granularity and at line granularity (sys.settrace inside
     handle_wsdl_request / Wsdl11), of 2-3 racing ?wsdl requests; every run's access
     trace is validated by TLC against TraceWsdl; verdicts come from what the callers
     got (bytes == sequential document, builds <= 1, no deadlock, no exception).
 Mixed RPC requests over the shared caches: SpyneShared part below.
"""
import io, json, os, random, sys
from .. import tlc, tlaval, pipeline_common as pc
from .. import sched as sc


def mc(ctx, threads, deviations=(), mayfail=True, invariants=None, dump=None, liveness=True):
    inv = invariants or ['BuiltOnce', 'WholeDoc', 'OnlyFailerGets500', 'CacheSound', 'LockHolder', 'LockFreeAtEnd']
    cfg = pc.write_cfg(os.path.join(ctx.work, 'wsdl_%d_%s.cfg' % (threads, '_'.join(deviations) or 'design')), [
        'SPECIFICATION Spec', 'CONSTANT Threads = {%s}' % ', '.join(str(i) for i in range(1, threads + 1)),
        'CONSTANT Deviations = %s' % pc.tla_set(deviations), 'CONSTANT MayFail = %s' % ('TRUE' if mayfail else 'FALSE')]
        + ['INVARIANT %s' % i for i in inv] + (['PROPERTY AllRespond'] if liveness and not deviations else [])
        + ['CHECK_DEADLOCK FALSE'])
    return tlc.run('SpyneWsdlCache', cfg, ctx.work, workers=4, dump=dump, timeout=900)


def verdict_of_run(ctx, world, solo, where, schedule, expect_fail=False, dead=None):
    """Property-level observations of one concurrent run."""
    bad = []
    if dead:
        bad.append(('deadlock', 'threads did not finish: %s' % dead))
    limit = 2 if expect_fail else 1
    if world.builds > limit:
        bad.append(('built-%d-times' % world.builds, 'the WSDL was built %d times' % world.builds))
    n500 = 0
    for t, r in sorted(world.res.items()):
        if 'exc' in r:
            bad.append(('exception', 'requester %s: %s' % (t, r['exc'])))
        elif r.get('status', '').startswith('500') and expect_fail:
            n500 += 1
        elif r.get('body') != solo:
            bad.append(('wrong-document', 'requester %s got %d bytes, the sequential build gives %d' % (
                t, len(r.get('body') or b''), len(solo))))
    if n500 > 1:
        bad.append(('many-500', '%d requesters got the 500 of one failed build' % n500))
    for kind, what in bad:
        ctx.violation('wsdl-race|%s|%s' % (kind, where), '%s [%s]' % (what, where),
                      {'schedule': schedule, 'events': world.events[:80], 'where': where})
    return not bad


class _Collect(object):
    def __init__(self):
        self.v = []

    def violation(self, key, what, case=None):
        self.v.append((key, what, case))


def impose_chunk(args):
    from ..wsdl_world import World
    threads, solo, cache_attrs, prepared = args
    col = _Collect()
    divs = []
    KIND = {'Peek': 'R', 'Read1': 'R', 'Read2': 'R', 'Store1': 'W', 'Store2': 'W', 'GetDoc1': 'G',
            'GetDoc2': 'G', 'BuildBegin': 'B', 'BuildEnd': 'E', 'BuildFail': 'E', 'Acquire': 'acquire',
            'Release': 'release', 'ReleaseFail': 'release', 'Respond': 'S', 'RespondFail': 'S'}
    for steps in prepared:
        fails = any(n == 'BuildFail' for _, n, _ in steps)
        state = {'i': 0, 'div': None}
        tids = list(range(1, threads + 1))
        prim = list(tids)
        world = [None]

        def chooser(s, runnable, cur):
            w = world[0]
            if prim:
                t = prim.pop(0)
                return t if t in runnable else runnable[0]
            i = state['i']
            if i > 0 and state['div'] is None:
                wv = steps[i - 1][2]
                if w.view() != wv:
                    state['div'] = 'after step %d (%s by %s): real view %s, spec %s' % (i, steps[i - 1][1], steps[i - 1][0], w.view(), wv)
            if state['div'] is None and i < len(steps):
                t, name, _ = steps[i]
                pend = s.pending.get(t)
                if t not in runnable or pend is None or pend == 'finish' or pend[0] != KIND[name]:
                    state['div'] = 'step %d: spec expects %s by thread %s, thread announces %r' % (i, name, t, pend)
                else:
                    state['i'] = i + 1
                    return t
            return cur if cur is not None else runnable[0]
        s = sc.Sched(chooser)
        w = World(s, fail_first_build=fails, cache_attrs=cache_attrs)
        world[0] = w
        dead = None
        try:
            s.run({t: w.request(t) for t in tids})
        except sc.Deadlock as e:
            dead = str(e)
        verdict_of_run(col, w, solo, 'imposed-%d-threads' % threads, [(t, n) for t, n, _ in steps], expect_fail=fails, dead=dead)
        if state['div']:
            divs.append(state['div'])
    return col.v, divs


def impose_all(ctx, threads, solo, cache_attrs, mayfail, limit, rnd):
    from ..wsdl_world import World, KIND
    dump = os.path.join(ctx.work, 'wsdlgraph%d' % threads)
    r = mc(ctx, threads, mayfail=mayfail, dump=dump, liveness=False)
    if not r.ok:
        raise tlc.TlcError('SpyneWsdlCache design violated: %s' % r.violated)
    nodes, edges, init = tlaval.read_dot(dump + '.dot')
    adj = {}
    for a, b, l in edges:
        if a != b:
            adj.setdefault(a, []).append((b, l))
    # behaviours: all maximal paths if few, else an edge cover + random walks
    behaviours = []

    def count(a, memo={}):
        if a not in memo:
            memo[a] = 1 if a not in adj else sum(count(b) for b, _ in adj[a])
        return memo[a]
    total = count(init)
    if total <= limit:
        def dfs(a, path):
            if a not in adj:
                behaviours.append(list(path)); return
            for b, l in adj[a]:
                path.append((l, b)); dfs(b, path); path.pop()
        sys.setrecursionlimit(10000)
        dfs(init, [])
        exhaustive = True
    else:
        exhaustive = False
        paths = tlaval.bfs_paths(nodes, edges, init)
        covered = set()

        def finish(a, path):
            while a in adj:
                b, l = rnd.choice(adj[a])
                path.append((l, b)); covered.add((a, b, l)); a = b
            return path
        # edge cover
        nodepath = {init: []}
        from collections import deque
        q = deque([init])
        while q:
            a = q.popleft()
            for b, l in adj.get(a, []):
                if b not in nodepath:
                    nodepath[b] = nodepath[a] + [(l, b)]
                    q.append(b)
        for a, b, l in edges:
            if a == b or (a, b, l) in covered or len(behaviours) >= limit:
                continue
            covered.add((a, b, l))
            behaviours.append(finish(b, nodepath[a] + [(l, b)]))
        while len(behaviours) < limit:
            behaviours.append(finish(init, []))
    import multiprocessing as mp
    prepared = []
    for beh in behaviours:
        steps = []
        for label, dst in beh:
            name, args = tlaval.parse_action(label)
            nd = nodes[dst]
            steps.append((args[0], name, [nd['cached'] != 'none', nd['builds'], nd['lock']]))
        prepared.append(steps)
    nproc = 8
    chunks = [prepared[i::nproc] for i in range(nproc)]
    with mp.get_context('fork').Pool(nproc) as pool:
        results = pool.map(impose_chunk, [(threads, solo, cache_attrs, ch) for ch in chunks if ch], chunksize=1)
    ndiv = 0
    for viol, divs in results:
        for key, what, case in viol:
            ctx.violation(key, what, case)
        ndiv += len(divs)
        for d in divs[:1]:
            if len([n for n in ctx.notes if 'diverged' in n]) < 3:
                ctx.notes.append('imposed behaviour diverged (%d threads): %s' % (threads, d))
    ctx.cov_add(states=r.distinct, transitions=r.generated)
    ctx.coverage.setdefault('imposed', []).append({'threads': threads, 'behaviours': len(behaviours), 'of': total,
                                                  'exhaustive': exhaustive, 'diverged': ndiv, 'mayfail': mayfail})
    if behaviours:
        ctx.sample({'imposed_behaviour': [(lbl) for lbl, _ in behaviours[len(behaviours) // 2]]})
    return len(behaviours), ndiv


def explore_real(ctx, threads, solo, cache_attrs, bound, limit, line_level, fail_first=False):
    """code -> spec: enumerate real schedules; returns trace records for TLC."""
    from ..wsdl_world import World
    import spyne.server.wsgi as W, spyne.interface.wsdl.wsdl11 as WS
    targets = {W.__file__: {'handle_wsdl_request', '__call__', 'is_wsdl_request'},
               WS.__file__: None}
    tids = list(range(1, threads + 1))
    traces = []

    def run_once(chooser):
        s = sc.Sched(chooser)
        w = World(s, fail_first_build=fail_first, cache_attrs=cache_attrs, shared_yields=not line_level)
        workers = {}
        for t in tids:
            fn = w.request(t)
            if line_level:
                def traced(fn=fn):
                    sys.settrace(sc.line_tracer(s, targets))
                    try:
                        fn()
                    finally:
                        sys.settrace(None)
                workers[t] = traced
            else:
                workers[t] = fn
        dead = None
        try:
            s.run(workers)
        except sc.Deadlock as e:
            dead = str(e)
        return s, (w, dead)
    n = 0
    where = '%s-%d-threads%s' % ('line' if line_level else 'access', threads, '-failing-build' if fail_first else '')
    for prefix, s, (w, dead) in sc.explore(run_once, bound, limit):
        n += 1
        verdict_of_run(ctx, w, solo, where, list(prefix), expect_fail=fail_first, dead=dead)
        if not line_level:
            traces.append({'ev': w.events, 'threads': threads, 'prefix': list(prefix)})
    return n, traces


def validate_traces(ctx, traces, threads, mayfail):
    if not traces:
        return 0, 0
    tf = os.path.join(ctx.work, 'wsdl_traces_%d.ndjson' % threads)
    with open(tf, 'w') as f:
        for t in traces:
            f.write(json.dumps({'ev': t['ev']}) + '\n')
    cfg = pc.write_cfg(os.path.join(ctx.work, 'tracewsdl.cfg'), [
        'SPECIFICATION TSpec', 'CONSTANT Threads = {%s}' % ', '.join(str(i) for i in range(1, threads + 1)),
        'CONSTANT Deviations = {}', 'CONSTANT MayFail = %s' % ('TRUE' if mayfail else 'FALSE'),
        'CONSTRAINT Report', 'CHECK_DEADLOCK FALSE'])
    r = tlc.run('TraceWsdl', cfg, ctx.work, env={'TRACE_FILE': tf}, timeout=900)
    acc = set(p[1] for p in r.prints if p and p[0] == 'ACCEPT')
    return len(acc), len(traces)


def run(ctx):
    import time
    T = {}
    t0 = time.time()
    from ..wsdl_world import solo_document
    rnd = random.Random(ctx.seed)
    # ---- M1
    for n in ((2, 3) if ctx.quick else (2, 3, 4)):
        r = mc(ctx, n)
        if not r.ok:
            raise tlc.TlcError('SpyneWsdlCache design violated with %d threads: %s\n%s' % (n, r.violated, r.stdout[-1500:]))
        ctx.cov_add(states=r.distinct, transitions=r.generated)
        ctx.coverage.setdefault('m1', []).append({'module': 'SpyneWsdlCache', 'threads': n, 'distinct': r.distinct})
    for dev, inv in [('StaleStore', 'BuiltOnce'), ('NoLock', 'BuiltOnce'), ('NoSecondCheck', 'BuiltOnce'), ('PublishEarly', 'CacheSound')]:
        r = mc(ctx, 2, deviations=[dev], invariants=[inv])
        if r.violated != inv:
            raise tlc.TlcError('non-vacuity: %s does not break %s' % (dev, inv))
        ctx.coverage.setdefault('nonvacuity', []).append('%s breaks %s' % (dev, inv))
    T['m1'] = time.time() - t0; t0 = time.time()
    sys.stderr.write('C12 phase %s: %.0fs\n' % ('m1', T['m1'])); sys.stderr.flush()
    solo, cache_attrs = solo_document()
    if not cache_attrs:
        ctx.notes.append('no transport attribute caches the WSDL bytes any more: shared-access imposition skipped')
    nb = nd = 0
    if cache_attrs:
        a, b = impose_all(ctx, 2, solo, cache_attrs, True, 5000, rnd); nb += a; nd += b
        a, b = impose_all(ctx, 3, solo, cache_attrs, True, 300 if ctx.quick else 4000, rnd); nb += a; nd += b
    T['impose'] = time.time() - t0; t0 = time.time()
    sys.stderr.write('C12 phase %s: %.0fs\n' % ('impose', T['impose'])); sys.stderr.flush()
    # ---- code -> spec
    nruns = 0
    acc = tot = 0
    for threads, bound, limit, fail in ([(2, 3, 600, False), (2, 2, 200, True), (3, 2, 400, False)] if ctx.quick else
                                        [(2, 4, 6000, False), (2, 3, 3000, True), (3, 2, 6000, False), (3, 2, 3000, True), (4, 1, 3000, False)]):
        n, traces = explore_real(ctx, threads, solo, cache_attrs or ('_wsdl',), bound, limit, False, fail_first=fail)
        nruns += n
        a, t = validate_traces(ctx, traces, threads, True)
        acc += a; tot += t
    if acc != tot:
        ctx.notes.append('%d of %d real access traces are not behaviours of SpyneWsdlCache (model drift, not a verdict)' % (tot - acc, tot))
    T['explore_access'] = time.time() - t0; t0 = time.time()
    sys.stderr.write('C12 phase %s: %.0fs\n' % ('explore_access', T['explore_access'])); sys.stderr.flush()
    nline = 0
    for threads, bound, limit in ([(2, 1, 250)] if ctx.quick else [(2, 2, 6000), (3, 1, 3000)]):
        n, _ = explore_real(ctx, threads, solo, cache_attrs or ('_wsdl',), bound, limit, True)
        nline += n
    ctx.cov_add(traces_validated_against_impl=acc, access_traces=tot, imposed_behaviours=nb, imposed_diverged=nd,
                explored_schedules_access=nruns, explored_schedules_line=nline)
    T['explore_line'] = time.time() - t0; t0 = time.time()
    sys.stderr.write('C12 phase %s: %.0fs\n' % ('explore_line', T['explore_line'])); sys.stderr.flush()
    from . import c12_shared
    c12_shared.run(ctx, rnd)
    T['shared'] = time.time() - t0
    sys.stderr.write('C12 phase %s: %.0fs\n' % ('shared', T['shared'])); sys.stderr.flush()
    ctx.coverage['timing_s'] = {k: round(v, 1) for k, v in T.items()}
    ev = ctx.coverage
    ev['evaluations'] = nb + nruns + nline + ev.get('shared_runs', 0)
    ev['distinct_nontrivial'] = nb + nruns + nline + ev.get('shared_runs', 0)
    ev['rule'] = ('each evaluation is one concurrent execution of 2-4 real requests under a distinct imposed or enumerated '
                  'schedule (distinct by construction: different choice prefixes / TLC paths)')
    ctx.assumptions += ['schedules are explored at shared-access and at Python line granularity; code running inside C '
                        'extensions (lxml) with the GIL released is not interleaved',
                        'TLC 1.8; modules SpyneWsdlCache, TraceWsdl, SpyneShared']
