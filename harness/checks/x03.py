"""X03 (beyond the listed properties) - the object-level helpers write and read the same documents as the protocols.

Every complex (type, value) pair of the SpyneSignatures / SpynePolyCases families is written with
spyne.util.xml.get_object_as_xml, spyne.util.dictdoc.get_object_as_json and get_object_as_yaml and read back with
get_xml_as_object, json_loads and yaml_loads; TLC (TraceUtil) compares the documents with SpyneXmlDoc.EncElem /
SpyneDictDoc.Dv and the values read back with the originals.  Not registered in MANIFEST.json; report in extras/X03.json.
"""
import json, os
from .. import tlc, sigcases as S, gen as G, dictdoc as D
from . import c01, c16



def _lit(x):
    """the signature cases spell the empty text literally (the identifier u_empty belongs to the text pool of the dict cases)"""
    if isinstance(x, list):
        return [_lit(y) for y in x]
    return '' if x == 'u_empty' else x

def objects(ctx):
    seen, out = set(), []
    for c in S.export(ctx) + c16.export(ctx):
        if c.get('poly'):
            continue
        for t, v in list(zip([f['t'] for f in c['args']], c['vals'])) + list(zip(c['rets'], c['rvals'])):
            if t['k'] != 'obj' or v == ['nil'] or v[0] != 'obj' or v[1] != t['name']:
                continue
            key = json.dumps([t, v], sort_keys=True)
            if key not in seen:
                seen.add(key)
                out.append((t, v, c['id']))
    return out


def run(ctx):
    from spyne.util.xml import get_object_as_xml, get_xml_as_object
    from spyne.util.dictdoc import get_object_as_json, get_object_as_yaml, json_loads, yaml_loads
    from lxml import etree
    objs = objects(ctx)
    if ctx.quick:
        objs = [o for i, o in enumerate(objs) if o[2] != 'T2' or (i + ctx.seed) % 4 == 0]
    recs = []
    for t, v, cid in objs:
        gen = G.Gen()
        obs = {}
        err = {}
        try:
            cls = gen.cls(S.texpr(t))
            inst = S.to_instance(gen, t, v)
        except Exception as e:
            recs.append({'t': t, 'v': v, 'id': cid, 'obs': {'xml': [['?', 'build: %s' % e]]}, 'err': {'build': str(e)}})
            continue
        try:
            elt = get_object_as_xml(inst, cls)
            obs['xml'] = S.tokens(etree.tostring(elt))
            obs['xmlback'] = S.from_native(t, get_xml_as_object(elt, cls))
        except Exception as e:
            err['xml'] = '%s: %s' % (type(e).__name__, e)
            obs.setdefault('xml', [['?', err['xml']]])
            obs.setdefault('xmlback', ['leaf', '?raises'])
        try:
            s = get_object_as_json(inst, cls, ignore_wrappers=True, complex_as=dict)
            obs['json'] = _lit(D.tree(json.loads(s.decode('utf8') if isinstance(s, bytes) else s)))
            obs['jsonback'] = _lit(D.unrev(S.from_native(t, json_loads(s, cls, ignore_wrappers=True, complex_as=dict))))
        except Exception as e:
            err['json'] = '%s: %s' % (type(e).__name__, e)
            obs.setdefault('json', ['str', '?raises'])
            obs.setdefault('jsonback', ['leaf', '?raises'])
        try:
            import yaml
            s = get_object_as_yaml(inst, cls, ignore_wrappers=True, complex_as=dict)
            obs['yaml'] = _lit(D.tree(yaml.safe_load(s)))
            obs['yamlback'] = _lit(D.unrev(S.from_native(t, yaml_loads(s, cls, ignore_wrappers=True, complex_as=dict))))
        except Exception as e:
            err['yaml'] = '%s: %s' % (type(e).__name__, e)
            obs.setdefault('yaml', ['str', '?raises'])
            obs.setdefault('yamlback', ['leaf', '?raises'])
        recs.append({'t': t, 'v': v, 'id': cid, 'obs': obs, 'err': err})
    res = tlc.validate_records('TraceUtil', ['INIT Init', 'NEXT Next', 'CONSTRAINT Report', 'CHECK_DEADLOCK FALSE'], ctx.work,
                               [{'t': r['t'], 'v': r['v'], 'obs': r['obs']} for r in recs], tag='util')
    nbad = 0
    for i, r in enumerate(recs):
        cl = set(res[i][0])
        if not cl:
            continue
        nbad += 1
        arr_item_ns = cl == {'XmlIsSpec'} and any(tok[:2] == ['S', ''] for tok in r['obs'].get('xml', []))
        if arr_item_ns:
            ctx.violation('XmlIsSpec|reason=array-items-unqualified', 'get_object_as_xml writes the items of an array of objects without a namespace '
                          '(the array class was never part of an interface, nothing resolved the namespace of its item type): %s' % r['t']['name'],
                          {'type': r['t'], 'value': r['v'], 'xml': r['obs'].get('xml')})
            continue
        fake = {'id': r['id'], 'style': 'wrapped', 'args': [{'t': r['t'], 'min': 0, 'max': 1, 'n': 'o'}], 'rets': []}
        ctx.violation('%s|%s' % ('+'.join(sorted(cl)), c01.sig_class(fake).split('|rets=')[0]),
                      '%s for %s = %s: %s' % (sorted(cl), r['t']['name'], json.dumps(r['v'])[:200], json.dumps(r['err'] or r['obs'])[:400]),
                      {'type': r['t'], 'value': r['v'], 'observation': r['obs'], 'errors': r['err']})
    ctx.level = 'exploration'
    ctx.cov_add(traces_validated_against_impl=len(recs) - nbad, evaluations=len(recs), objects=len(recs), distinct_nontrivial=len(recs),
                exhaustive=not ctx.quick, rule='distinct (type, value) pairs of complex type from SpyneSignatures.Cases and SpynePolyCases')
    ctx.sample({'type': recs[0]['t']['name'], 'value': recs[0]['v'], 'xml_tokens': recs[0]['obs'].get('xml')})
