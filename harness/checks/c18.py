"""C18 - calling a method through NullServer behaves like calling it over the wire.

 M4  SpyneNull.Cases (body style x how each argument is passed {positional, keyword, both,
     keyword None, absent} x return kind {none, one, two, three, generator, Ignored, Fault,
     non-Fault}) with the expected argument packing and result of both paths, exported by
     TLC.  Both paths run on the SAME application object (a NullServer and the wire
     transports share it): direct call; XmlDocument and JsonDocument requests decoded by
     the protocols' conventions; the Soap11 loopback Spyne client where it supports the
     style.  TLC evaluates the clauses on (case, observations).
"""
import io, json, os
from .. import tlc, pipeline_common as pc

R = [7, 8, 9]


def pub(case_or_rename, i):
    """public name of argument i (0-based)"""
    r = case_or_rename['rename'] if isinstance(case_or_rename, dict) else case_or_rename
    return 'from' if r and i == 0 else 'a%d' % (i + 1)


CLOSED = [False]


def build(style, n, ret, seen, rename=False, dflt=False, aux=False, ostr=False, narrow=False):
    """-> (application, method name).  seen: list collecting the args of each invocation"""
    from spyne import Application, Service, srpc, Integer, Fault, ComplexModel, Iterable, Ignored
    from spyne.protocol.xml import XmlDocument

    class Res(ComplexModel):
        __namespace__ = 'tns'
        _type_info = [('r1', Integer), ('r2', Integer)]

    def outcome():
        if ret == 'none': return None
        if ret == 'cplx': return Res(r1=R[0], r2=R[1])
        if ret == 'ignored_cplx': return Ignored(R[0])
        if ret == 'one': return R[0]
        if ret == 'two': return R[0], R[1]
        if ret == 'three': return R[0], R[1], R[2]
        if ret == 'ignored': return Ignored(R[0])
        if ret == 'ignored_two': return Ignored(R[0])
        if ret == 'fault': raise Fault('Client.Custom', 'custom')
        if ret == 'exc': raise ValueError('boom')
    returns = {'none': None, 'one': Integer, 'two': (Integer, Integer), 'three': (Integer, Integer, Integer),
               'gen': Iterable(Integer), 'ignored': Integer, 'fault': Integer, 'exc': Integer,
               'cplx': Res, 'ignored_cplx': Res, 'ignored_two': (Integer, Integer)}[ret]
    kw = {}
    if returns is not None:
        kw['_returns'] = returns
    if rename:
        kw['_in_variable_names'] = {'a1': 'from'}
    if style == 'out_bare':
        kw['_body_style'] = 'out_bare'
    elif style in ('empty', 'bare', 'bare_rec', 'bare_inh'):
        kw['_body_style'] = 'bare'
    if style == 'bare':
        class C(ComplexModel):
            __namespace__ = 'tns'
            _type_info = [('a1', Integer), ('a2', Integer)]
        argt = [C]
    elif style == 'bare_inh':
        class CBase(ComplexModel):
            __namespace__ = 'tns'
            _type_info = [('a1', Integer)]

        class C(CBase):
            __namespace__ = 'tns'
            _type_info = [('a2', Integer)]
        argt = [C]
    elif style == 'bare_rec':
        from spyne import SelfReference

        class Node(ComplexModel):
            __namespace__ = 'tns'
            _type_info = [('a1', SelfReference), ('a2', Integer)]
        argt = [Node]
        NODE[0] = Node
    elif dflt:
        argt = [Integer(default=70 + i + 1) for i in range(n)]      # the TYPE of every argument declares a default
    else:
        argt = [Integer] * n

    def record(args):
        if style == 'bare_rec':
            c = args[0]
            nxt = None if c is None else c.a1
            # (what the function sees of its one argument: the value inside the field a1, and the field a2)
            seen.append([-1 if nxt is None or nxt.a2 is None else nxt.a2, -1 if c is None or c.a2 is None else c.a2][:n])
        elif style in ('bare', 'bare_inh'):
            c = args[0]
            seen.append([-1 if c is None or c.a1 is None else c.a1, -1 if c is None or c.a2 is None else c.a2])
        else:
            seen.append([-1 if a is None else a for a in args])
    if ret == 'gen':
        def body(*args):
            record(args)
            yield R[0]
            if ostr and CLOSED[0]:
                # the rows come from something that is released when the context is closed
                raise IOError('read after the context was closed')
            yield R[1]
    else:
        def body(*args):
            record(args)
            return outcome()
    # srpc introspects the signature for argument names: build a function with named parameters
    names = ['a%d' % (i + 1) for i in range(n)] if style not in ('bare', 'bare_rec', 'bare_inh') else ['c']
    src = 'def f(%s):\n    return body(%s)\n' % (', '.join(names), ', '.join(names))
    if ret == 'gen':
        src = 'def f(%s):\n    for x in body(%s):\n        yield x\n' % (', '.join(names), ', '.join(names))
    ns = {'body': body}
    exec(src, ns)
    S = type('S', (Service,), {'f': srpc(*argt, **kw)(ns['f'])})
    services = [S]
    if aux:
        from spyne.auxproc.sync import SyncAuxProc

        def auxbody(*args):
            # runs on the side; what it returns (or raises) is nobody's result
            AUXRAN.append([-1 if a is None else a for a in args])
            return {'one': 999, 'two': (999, 998), 'fault': 999}.get(ret)
        ns2 = {'body': auxbody}
        if narrow:
            exec('def f(a1):\n    return body(a1)\n', ns2)
            services.append(type('SAux', (Service,), {'__aux__': SyncAuxProc(), 'f': srpc(argt[0], **kw)(ns2['f'])}))
        else:
            exec(src, ns2)
            services.append(type('SAux', (Service,), {'__aux__': SyncAuxProc(), 'f': srpc(*argt, **kw)(ns2['f'])}))
    app = Application(services, 'tns', in_protocol=XmlDocument(), out_protocol=XmlDocument())

    def closed(ctx):
        CLOSED[0] = True
    app.event_manager.add_listener('method_context_closed', closed)
    return app


AUXRAN = []


NODE = [None]


def norm(v):
    """native result -> the tagged form of SpyneNull.Result"""
    from spyne import Ignored
    import types
    if isinstance(v, Ignored):
        return ['ignored', []]
    if v is None:
        return ['value', []]
    if isinstance(v, types.GeneratorType) or hasattr(v, '__next__'):
        v = list(v)
    if isinstance(v, (list, tuple)):
        if v and all(x is None for x in v):
            return ['value', []]            # nothing for every declared value: the empty response
        return ['value', [x if isinstance(x, (int, str)) else ('?None' if x is None else '?%s' % type(x).__name__) for x in v]]
    if isinstance(v, int):
        return ['value', [v]]
    # a response wrapper object of the Spyne client: its members in order
    try:
        l = list(v)
        if l and all(x is None for x in l):
            return ['value', []]
        return ['value', [x if isinstance(x, (int, str)) else ('?None' if x is None else '?%s' % type(x).__name__) for x in l]]
    except Exception:
        return ['value', ['?%s' % type(v).__name__]]


def fault_of(e):
    code = getattr(e, 'faultcode', None)
    if not isinstance(code, str):
        return ['escape', [type(e).__name__]]
    code = code.split(':', 1)[1] if ':' in code else code
    return ['fault', code.split('.')]


def read_xml(out):
    from lxml import etree
    if not out.strip():
        return ['value', []]
    root = etree.fromstring(out)
    if etree.QName(root).localname == 'Fault':
        code = root.find('faultcode').text
        return ['fault', (code.split(':', 1)[1] if ':' in code else code).split('.')]
    leaves = [e.text for e in root.iter() if len(e) == 0 and e.text is not None and e.text.strip() != '']
    try:
        return ['value', [int(x) for x in leaves]]
    except ValueError:
        return ['value', leaves]


def direct(app, case, seen):
    from spyne.server.null import NullServer
    ns = NullServer(app, ostr=True) if case.get('ostr') else NullServer(app)
    pos, kw = [], {}
    names = [pub(case, i) for i in range(len(case['modes']))]
    for i, m in enumerate(case['modes']):
        v, alt = 10 * (i + 1), 10 * (i + 1) + 5
        if case['style'] == 'bare_rec' and i == 0:
            v = NODE[0](a2=v)          # the field a1 is a Node: the value travels inside it
        if m == 'pos': pos.append(v)
        elif m == 'poszero': pos.append(0)
        elif m == 'kwzero': kw[names[i]] = 0
        elif m == 'kw': kw[names[i]] = v
        elif m == 'both': pos.append(alt); kw[names[i]] = v
        elif m == 'kwnil': pos.append(v); kw[names[i]] = None
    del seen[:]
    del AUXRAN[:]
    CLOSED[0] = False
    try:
        r = ns.service.f(*pos, **kw)
        if case.get('ostr'):
            res = read_xml(b''.join(r))          # the serialized response, as the wire carries it
        else:
            res = norm(r)
    except Exception as e:
        res = fault_of(e)
    return res, [list(s) for s in seen]


def packed(case):
    return [None if m == 'absent' else (0 if m in ('kwzero', 'poszero') else 10 * (i + 1)) for i, m in enumerate(case['modes'])]


def wire_json(app, case, seen):
    """JsonDocument request written with the json module, reply decoded by the documented conventions."""
    from spyne import Application
    from spyne.protocol.json import JsonDocument
    from spyne.server.wsgi import WsgiApplication
    app2 = Application(app.services, 'tns', in_protocol=JsonDocument(), out_protocol=JsonDocument())
    w = WsgiApplication(app2)
    vals = packed(case)
    body = json.dumps({'f': {pub(case, i): v for i, v in enumerate(vals) if v is not None}}).encode()
    del seen[:]
    del AUXRAN[:]
    CLOSED[0] = False
    try:
        status, out = call_wsgi(w, body, 'application/json')
    except Exception as e:
        return ['escape', [type(e).__name__]], [list(s) for s in seen]
    calls = [list(s) for s in seen]
    if not out.strip():
        return ['value', []], calls
    doc = json.loads(out.decode('utf8'))
    if isinstance(doc, dict) and 'faultcode' in doc:
        return ['fault', doc['faultcode'].split('.')], calls
    if doc is None:
        return ['value', []], calls
    if isinstance(doc, dict):
        return ['value', list(doc.values())], calls
    if isinstance(doc, list):
        return ['value', doc], calls
    return ['value', [doc]], calls


def call_wsgi(app_pair, body, ctype):
    w = app_pair
    env = {'REQUEST_METHOD': 'POST', 'PATH_INFO': '/', 'QUERY_STRING': '', 'CONTENT_TYPE': ctype,
           'CONTENT_LENGTH': str(len(body)), 'wsgi.input': io.BytesIO(body), 'wsgi.url_scheme': 'http',
           'SERVER_NAME': 'x', 'SERVER_PORT': '80'}
    st = []
    out = b''.join(w(env, lambda s, h, e=None: st.append(s)))
    return int(st[0].split()[0]), out


def wire_xml(app, case, seen):
    """XmlDocument request written by hand, reply read with lxml by the published conventions."""
    from lxml import etree
    from spyne.server.wsgi import WsgiApplication
    w = WsgiApplication(app)
    vals = packed(case)
    inner = ''.join(('<tns:a1><tns:a2>%d</tns:a2></tns:a1>' % v) if (case['style'] == 'bare_rec' and i == 0) else
                    '<tns:%s>%d</tns:%s>' % (pub(case, i), v, pub(case, i)) for i, v in enumerate(vals) if v is not None)
    body = ('<tns:f xmlns:tns="tns">%s</tns:f>' % inner).encode()
    del seen[:]
    del AUXRAN[:]
    CLOSED[0] = False
    try:
        status, out = call_wsgi(w, body, 'text/xml')
    except Exception as e:
        return ['escape', [type(e).__name__]], [list(s) for s in seen]
    if not out.strip():
        return ['value', []], [list(s) for s in seen]
    root = etree.fromstring(out)
    if etree.QName(root).localname == 'Fault':
        code = root.find('faultcode').text
        return ['fault', (code.split(':', 1)[1] if ':' in code else code).split('.')], [list(s) for s in seen]
    leaves = [e.text for e in root.iter() if len(e) == 0 and e.text is not None and e.text.strip() != '']
    try:
        return ['value', [int(x) for x in leaves]], [list(s) for s in seen]
    except ValueError:
        return ['value', leaves], [list(s) for s in seen]


def wire_client(app, case, seen, prot):
    """The loopback Spyne client (same protocol on both sides)."""
    from spyne import Application
    from spyne.server.wsgi import WsgiApplication
    from ..loopback import LoopbackClient
    app2 = Application(app.services, 'tns', in_protocol=prot(), out_protocol=prot())
    cl = LoopbackClient(WsgiApplication(app2), app2)
    vals = packed(case)
    del seen[:]
    del AUXRAN[:]
    CLOSED[0] = False
    try:
        res = norm(cl.service.f(*vals))
    except Exception as e:
        res = fault_of(e)
    return res, [list(s) for s in seen]


def histories(ctx, hs):
    """SpyneNull.Histories on ONE NullServer and ONE Soap11 endpoint of the same application: the header each call saw"""
    from spyne import Application, Service, rpc, Unicode, ComplexModel
    from spyne.protocol.soap import Soap11
    from spyne.server.null import NullServer
    from spyne.server.wsgi import WsgiApplication
    from lxml import etree

    class Hdr(ComplexModel):
        __namespace__ = 'tns'
        _type_info = [('who', Unicode)]

    def who(ctx):
        h = ctx.in_header
        return 'none' if h is None else h.who

    class S(Service):
        __in_header__ = Hdr

        @rpc(_returns=Unicode)
        def f(ctx): return who(ctx)

        @rpc(_returns=Unicode)
        def g(ctx): return who(ctx)

    class S2(Service):          # (a service that declares no request header)
        @rpc(_returns=Unicode)
        def h(ctx): return who(ctx)
    recs = []
    hs = sorted(hs, key=lambda h: json.dumps(h))
    E = 'http://schemas.xmlsoap.org/soap/envelope/'
    for h in hs:
        app = Application([S, S2], 'tns', in_protocol=Soap11(), out_protocol=Soap11())
        ns = NullServer(app)
        w = WsgiApplication(app)
        cur = None
        direct, wire = [], []
        for op in h:
            if op in ('set1', 'set2'):
                cur = 'h1' if op == 'set1' else 'h2'
                ns.set_options(soapheaders=Hdr(who=cur))
            elif op == 'clear':
                cur = None
                ns.set_options(soapheaders=None)
            else:
                m = op[4:]
                try:
                    direct.append(str(getattr(ns.service, m)()))
                except Exception as e:
                    direct.append('?%s' % type(e).__name__)
                hdr = '<e:Header><tns:Hdr><tns:who>%s</tns:who></tns:Hdr></e:Header>' % cur if cur else ''
                body = ('<e:Envelope xmlns:e="%s" xmlns:tns="tns">%s<e:Body><tns:%s/></e:Body></e:Envelope>' % (E, hdr, m)).encode()
                try:
                    st, out = call_wsgi(w, body, 'text/xml')
                    leaves = [e.text for e in etree.fromstring(out).iter() if len(e) == 0 and e.text]
                    wire.append(leaves[0] if len(leaves) == 1 else '?%r' % leaves)
                except Exception as e:
                    wire.append('?%s' % type(e).__name__)
        recs.append({'history': h, 'obs': {'direct': direct, 'wire': wire}, 'wire': 'soap11'})
    return recs


def run(ctx):
    from spyne.protocol.soap import Soap11
    from spyne.protocol.xml import XmlDocument
    out = os.path.join(ctx.work, 'null_cases.json')
    cfg = pc.write_cfg(os.path.join(ctx.work, 'expn.cfg'), ['INIT Init', 'NEXT Next', 'CHECK_DEADLOCK FALSE'])
    r0 = tlc.run('ExportNull', cfg, ctx.work, env={'OUT_FILE': out, 'FAMILY': ctx.tier}, timeout=1800)
    exported = json.load(open(out))
    cases = exported['cases']
    cases.sort(key=lambda c: json.dumps(c, sort_keys=True))
    recs = histories(ctx, exported['histories'])
    for c in cases:
        seen = []
        n = len(c['modes'])
        try:
            app = build(c['style'], n, c['ret'], seen, c['rename'], c['dflt'], c['aux'], c['ostr'], c.get('narrow', False))
        except Exception as e:
            ctx.violation('cannot-build|style=%s|n=%d|ret=%s|%s' % (c['style'], n, c['ret'], type(e).__name__),
                          'application for %s cannot be built: %s' % (c, e), {'case': c})
            continue
        dres, dargs = direct(app, c, seen)
        daux = list(AUXRAN)
        wires = [('xml',) + wire_xml(app, c, seen) + (list(AUXRAN),)]
        if c['style'] not in ('bare', 'bare_rec', 'bare_inh'):          # JsonDocument cannot take a bare complex request (documented limitation)
            wires.append(('json',) + wire_json(app, c, seen) + (list(AUXRAN),))
        if c['style'] in ('wrapped',) and c['ret'] not in ('gen',) and not c['aux']:      # (the Spyne client cannot call a method that has an auxiliary twin)
            for name, prot in (('soap11-client', Soap11), ('xml-client', XmlDocument)):
                wires.append((name,) + wire_client(app, c, seen, prot) + (list(AUXRAN),))

        def fix(args):
            # bare: the function sees the two fields of the one complex argument
            return [[-1 if a is None else a for a in call] for call in args]
        for name, wres, wargs, waux in wires:
            if name == 'xml-client' and c['ret'] in ('fault', 'exc'):
                continue      # the XmlDocument client does not decode faults (C09)
            obs = {'dres': dres, 'wres': wres, 'dcalls': len(dargs), 'wcalls': len(wargs), 'daux': daux, 'waux': waux,
                   'dargs': fix(dargs)[0] if dargs else ['?'], 'wargs': fix(wargs)[0] if wargs else ['?']}
            recs.append({'case': c, 'obs': obs, 'wire': name})
    tf = os.path.join(ctx.work, 'null_traces.ndjson')
    with open(tf, 'w') as f:
        for r in recs:
            f.write(json.dumps({k: v for k, v in r.items() if k in ('case', 'history', 'obs')}) + '\n')
    cfgt = pc.write_cfg(os.path.join(ctx.work, 'tracenull.cfg'), ['INIT Init', 'NEXT Next', 'CONSTRAINT Report', 'CHECK_DEADLOCK FALSE'])
    rt = tlc.run('TraceNull', cfgt, ctx.work, env={'TRACE_FILE': tf}, timeout=900)
    seen_ids = set()
    nfail = 0
    for p in rt.prints:
        if p and p[0] == 'V' and p[1] not in seen_ids:
            seen_ids.add(p[1])
            if p[2]:
                nfail += 1
                rec = recs[p[1] - 1]
                cl = sorted(p[2])
                if 'history' in rec:
                    ctx.violation('%s|history=%s' % ('+'.join(cl), '>'.join(rec['history'])),
                                  'clauses %s fail for the history %s: direct calls saw %s, wire calls saw %s' % (cl, rec['history'], rec['obs']['direct'], rec['obs']['wire']),
                                  {'history': rec['history'], 'observation': rec['obs']})
                    continue
                c = rec['case']
                ctx.violation('%s|wire=%s|style=%s|ret=%s|modes=%s%s%s' % ('+'.join(cl), rec['wire'], c['style'], c['ret'], ','.join(c['modes']) or '-', '|renamed' if c['rename'] else '',
                                                                          ('|defaults' if c['dflt'] else '') + ('|aux' if c['aux'] else '') + ('|narrow' if c.get('narrow') else '') + ('|ostr' if c['ostr'] else '')),
                              'clauses %s fail: direct %s args %s; wire(%s) %s args %s' % (
                                  cl, rec['obs']['dres'], rec['obs']['dargs'], rec['wire'], rec['obs']['wres'], rec['obs']['wargs']),
                              {'case': c, 'observation': rec['obs'], 'wire': rec['wire']})
    if len(seen_ids) != len(recs):
        raise tlc.TlcError('TraceNull evaluated %d of %d\n%s' % (len(seen_ids), len(recs), rt.stdout[-1500:]))
    ctx.cov_add(states=max(1, r0.distinct), transitions=max(1, r0.generated), traces_validated_against_impl=len(recs) - nfail,
                evaluations=len(recs), distinct_nontrivial=len(set(json.dumps(r.get('case', r.get('history')), sort_keys=True) + r['wire'] for r in recs)),
                exhaustive=True, cases=len(cases),
                rule='SpyneNull.Cases exported by TLC (style x per-argument passing mode x return kind), each run directly through '
                     'NullServer and over XmlDocument (hand-written request, lxml-read reply) and, for the wrapped style, through '
                     'the Soap11 and XmlDocument loopback clients; distinct = distinct (case, wire path)')
    ctx.level = 'exploration'
    ctx.sample({'history': recs[0]['history'], 'observation': recs[0]['obs']})
    ctx.sample({'case': recs[-1]['case'], 'observation': recs[-1]['obs'], 'wire': recs[-1]['wire']})
