"""C17 - XML input is parsed with safe defaults.

 M1  SpyneXmlAttack part 1: protocol instances constructed in any order with default or relaxed parser settings,
     requests served by any of them; Isolated / DefaultEndpointsSafe; the SharedSettings deviation violates them.
 M2  every script of part 1 (construction order x served instance x attack) is replayed in a real process: the request
     succeeds exactly when Resolves(the settings ITS instance was constructed with) - so the detectors are shown to
     fire on relaxed instances and default instances are shown unaffected by relaxed ones created before or after.
 M4  SpyneXmlAttack.Attacks: attack kind (external general / parameter entities over file, http, ftp; external DTD
     subsets; XInclude; internal entities; entity chains of growing fan-out and depth; quadratic blow-up; nesting 300 /
     5000; 50000 attributes) x position of a valid request (text of a string, of an integer, of a nested member, of an
     array item, an attribute value) x {XmlDocument, Soap11, Soap12} x {WSGI, ServerBase} x framing {plain, transport
     charset + encoding declaration, root part of multipart/related}.
 M3  the driver runs in a child process under strace: every open of the canary file / DTD and every connect to the
     loopback listener is attributed to the attack in flight; canary and entity replacement texts are searched in what
     user code received and in the response; wall time and resident-set growth are measured.  TLC (TraceXmlAttack)
     evaluates Fails(attack, observation).
"""
import json, os, re, subprocess, sys
from .. import tlc, pipeline_common as pc, core


def run(ctx):
    r = tlc.run('SpyneXmlAttack', 'MCXmlAttack.cfg', ctx.work, workers=4)
    if not r.ok:
        raise tlc.TlcError('SpyneXmlAttack: %s violated in the design model' % r.violated)
    rd = tlc.run('SpyneXmlAttack', 'MCXmlAttackDev.cfg', ctx.work, workers=4)
    if rd.violated != 'DefaultEndpointsSafe':
        raise tlc.TlcError('SpyneXmlAttack: the SharedSettings deviation is not detected')
    ctx.cov_add(states=r.distinct, transitions=r.generated)
    out = os.path.join(ctx.work, 'attacks.json')
    cfg = pc.write_cfg(os.path.join(ctx.work, 'expa.cfg'), ['INIT Init0', 'NEXT Next0', 'CONSTANT Deviations = {}', 'CONSTANT MaxInst = 3', 'CHECK_DEADLOCK FALSE'])
    tlc.run('ExportXmlAttack', cfg, ctx.work, env={'OUT_FILE': out, 'FAMILY': ctx.tier})
    d = json.load(open(out))
    d['attacks'].sort(key=lambda a: json.dumps(a, sort_keys=True))
    d['scripts'].sort(key=lambda a: json.dumps(a, sort_keys=True))
    if ctx.quick:
        # every kind x position x protocol stays; transports / framings rotate
        keep = []
        for i, a in enumerate(d['attacks']):
            if a['framing'] != 'plain' or a['transport'] == 'wsgi' or a['prot'] == 'schema' or (i + ctx.seed) % 2 == 0:
                keep.append(a)
        d['attacks'] = keep
    json.dump(d, open(out, 'w'))
    trace = os.path.join(ctx.work, 'syscalls.txt')
    env = dict(os.environ)
    cmd = ['strace', '-f', '-qq', '-e', 'trace=openat,open,connect,stat,newfstatat,statx', '-o', trace,
           sys.executable, '-m', 'harness.xmlattack_driver', ctx.work, out]
    p = subprocess.run(cmd, cwd=core.VERIF, env=env, stdout=subprocess.PIPE, stderr=subprocess.STDOUT, timeout=3000)
    obsf = os.path.join(ctx.work, 'attack_obs.json')
    if p.returncode != 0 or not os.path.exists(obsf):
        raise tlc.TlcError('attack driver failed (rc=%s): %s' % (p.returncode, p.stdout.decode('utf8', 'replace')[-2000:]))
    o = json.load(open(obsf))
    # ---- attribute syscalls to items
    cur = 0
    opened, net = {}, {}
    canary_names = (os.path.basename(o['canary']), os.path.basename(o['dtd']))
    for line in open(trace, errors='replace'):
        m = re.search(r'/C17MARK/(\d+)', line)
        if m:
            cur = int(m.group(1))
            continue
        if any(nm in line for nm in canary_names) and ('openat(' in line or 'open(' in line):
            opened.setdefault(cur, []).append(line.strip()[:200])
        if 'connect(' in line and 'htons(%d)' % o['port'] in line:
            net.setdefault(cur, []).append(line.strip()[:200])
    os.remove(trace)
    recs = []
    for r_ in o['results']:
        out_ = r_['out']
        n = r_['n']
        if r_['what'] == 'attack':
            obs = {'called': out_['called'], 'fault': out_['fault'], 'client': out_['client'], 'escape': out_['escape'], 'canary': out_['canary'],
                   'expanded': out_['expanded'], 'file_opened': n in opened, 'net_contact': (n in net) or out_['net_hits'] > 0,
                   'seconds10': out_['seconds10'], 'mb': out_['mb'], 'nodes': out_.get('nodes', 0), 'reqnodes': out_.get('reqnodes', 1)}
            recs.append({'what': 'attack', 'a': r_['a'], 'obs': obs, 'info': dict(out_, request=r_['request'], opened=opened.get(n), net=net.get(n))})
        else:
            k = r_['s']['serve']['kind']
            succeeded = {'ext_general_file': out_['canary'], 'ext_dtd_file': n in opened, 'nest_300': out_['called']}[k]
            recs.append({'what': 'script', 's': r_['s'], 'obs': {'succeeded': bool(succeeded)}, 'info': dict(out_, opened=opened.get(n))})
    tf = os.path.join(ctx.work, 'attack_traces.ndjson')
    with open(tf, 'w') as f:
        for r_ in recs:
            f.write(json.dumps({k: v for k, v in r_.items() if k != 'info'}) + '\n')
    cfgt = pc.write_cfg(os.path.join(ctx.work, 'tracea.cfg'), ['INIT Init1', 'NEXT Next1', 'CONSTRAINT Report', 'CONSTANT Deviations = {}',
                                                               'CONSTANT MaxInst = 3', 'CHECK_DEADLOCK FALSE'])
    rt = tlc.run('TraceXmlAttack', cfgt, ctx.work, env={'TRACE_FILE': tf}, timeout=1800)
    seen = {}
    for pr in rt.prints:
        if pr and pr[0] == 'V':
            seen[pr[1]] = set(pr[2])
    if len(seen) != len(recs):
        raise tlc.TlcError('TraceXmlAttack evaluated %d of %d\n%s' % (len(seen), len(recs), rt.stdout[-2000:]))
    nbad = 0
    for i, r_ in enumerate(recs):
        cl = seen[i + 1]
        if not cl:
            continue
        nbad += 1
        if r_['what'] == 'attack':
            a = r_['a']
            ctx.violation('%s|%s|pos=%s|prot=%s|transport=%s|framing=%s%s' % ('+'.join(sorted(cl)), a['kind'], a['pos'], a['prot'], a['transport'], a['framing'],
                                                                              ('' if a.get('validator', 'none') == 'none' else '|validator=' + a['validator']) + ('' if a.get('opts', 'none') == 'none' else '|opts=' + a['opts'])),
                          '%s: attack %s: %s' % (sorted(cl), a, json.dumps(r_['info'])[:600]), {'attack': a, 'observation': r_['obs'], 'info': r_['info']})
        else:
            s = r_['s']
            ctx.violation('%s|script|creates=%s|serve=%s:%s' % ('+'.join(sorted(cl)), ''.join('R' if x else 'D' for x in s['creates']), s['serve']['inst'], s['serve']['kind']),
                          '%s: instances constructed %s (R = relaxed), request %s: %s' % (sorted(cl), s['creates'], s['serve'], json.dumps(r_['info'])[:500]),
                          {'script': s, 'observation': r_['obs'], 'info': r_['info']})
    natt = sum(1 for r_ in recs if r_['what'] == 'attack')
    ctx.level = 'exploration'
    ctx.cov_add(traces_validated_against_impl=len(recs) - nbad, evaluations=len(recs), attacks=natt, scripts=len(recs) - natt,
                behaviours_replayed=len(recs) - natt, distinct_nontrivial=len(recs), exhaustive=not ctx.quick,
                max_tenths_of_second=max(r_['obs']['seconds10'] for r_ in recs if r_['what'] == 'attack'),
                max_resident_growth_mb=max(r_['obs']['mb'] for r_ in recs if r_['what'] == 'attack'),
                detector_positive_controls=sum(1 for r_ in recs if r_['what'] == 'script' and r_['obs']['succeeded']),
                rule='attacks are distinct members of SpyneXmlAttack.Attacks; scripts are distinct (construction order, served instance, attack) tuples')
    ctx.sample({'attack': recs[0]['a'], 'request': recs[0]['info']['request'][:300], 'observation': recs[0]['obs']})
    ctx.sample({'script': recs[natt]['s'], 'observation': recs[natt]['obs']})
