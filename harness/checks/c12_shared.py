"""C12, second half: mixed concurrent requests over the shared cells of one application.

 M1  SpyneShared (prefix allocator as separate test / read / probe / write / write /
     increment steps behind a mutex, idempotent cache fills as miss / compute / fill):
     Injective, Inverse, FillSound for 2-3 threads; the unlocked allocator (the pinned
     code) breaks Injective.
 M3  line-granularity exploration (preemption bound) of 2-3 real requests mixing
     polymorphic returns in two foreign namespaces, plain calls, a fault, a validation
     failure and ?wsdl; every caller's response must equal (prefix-independently) the
     response it gets alone, and the WSDL served after the race must be one that some
     sequential order of the same requests produces.
"""
import itertools, os, sys
from .. import tlc, pipeline_common as pc
from .. import sched as sc


def m1(ctx):
    for threads, same in ((2, False), (2, True), (3, False)):
        for dev, expect in (((), None), (('UnlockedAlloc',), 'Injective')):
            if dev and (same or threads == 3):
                continue
            cfg = pc.write_cfg(os.path.join(ctx.work, 'shared_%d_%s_%s.cfg' % (threads, same, '_'.join(dev))), [
                'SPECIFICATION Spec', 'CONSTANT Threads = {%s}' % ', '.join(str(i) for i in range(1, threads + 1)),
                'CONSTANT SameNs = %s' % ('TRUE' if same else 'FALSE'),
                'CONSTANT Deviations = %s' % pc.tla_set(dev),
                'INVARIANT Injective', 'INVARIANT Inverse', 'INVARIANT FillSound', 'INVARIANT MutexOk',
                'CHECK_DEADLOCK FALSE'] + ([] if dev else ['PROPERTY AllFinish']))
            r = tlc.run('SpyneShared', cfg, ctx.work, workers=4, timeout=600)
            if expect is None and not r.ok:
                raise tlc.TlcError('SpyneShared design violated: %s\n%s' % (r.violated, r.stdout[-1500:]))
            if expect is not None and r.violated != expect:
                raise tlc.TlcError('non-vacuity: %s does not break %s (%s)' % (dev, expect, r.violated))
            if expect is None:
                ctx.cov_add(states=r.distinct, transitions=r.generated)
                ctx.coverage.setdefault('m1', []).append({'module': 'SpyneShared', 'threads': threads, 'same_ns': same, 'distinct': r.distinct})
            else:
                ctx.coverage.setdefault('nonvacuity', []).append('%s breaks %s' % (dev[0], expect))


def explore_set(args):
    """One request set explored in its own process. -> (violations, runs)"""
    names, bound, limit = args
    from .. import shared_world as sw
    from spyne.server.wsgi import WsgiApplication
    tg = sw.targets()
    out = []
    solo = {}
    is_json = names[0] in sw.JSON_REQS or names[0] in sw.XML_REQS or names[0] in sw.JX_REQS or (names[0] in sw.LX_REQS and 'lwsdl' not in names)   # (no WSDL comparison)
    make = (sw.make_app_json if names[0] in sw.JSON_REQS else sw.make_app_xml if names[0] in sw.XML_REQS
            else sw.make_app_jx if names[0] in sw.JX_REQS else sw.make_app_lxml if names[0] in sw.LX_REQS else sw.make_app)
    for n in set(names):
        if n not in sw.WSDLS:
            r0 = sw.call(WsgiApplication(make()), n)
            solo[n] = (sw.canon(r0[1]), r0[2])
    seq_wsdl = set()
    for perm in (set(itertools.permutations(names)) if not is_json else ()):
        w = WsgiApplication(make())
        for n in perm:
            st, b, _h = sw.call(w, n)
            if n in sw.WSDLS:
                seq_wsdl.add(sw.canon_doc(b))
        seq_wsdl.add(sw.canon_doc(sw.call(w, 'wsdl')[1]))

    def run_once(chooser):
        s = sc.Sched(chooser)
        w = WsgiApplication(make())
        saved = sw.instrument(w, s)
        res = {}
        workers = {}
        for i, n in enumerate(names):
            def fn(i=i, n=n):
                sys.settrace(sc.line_tracer(s, tg, first_k=2))
                try:
                    res[i] = sw.call(w, n)
                except Exception as e:
                    res[i] = ('EXC', '%s: %s' % (type(e).__name__, e))
                finally:
                    sys.settrace(None)
            workers[i + 1] = fn
        dead = None
        try:
            s.run(workers)
        except sc.Deadlock as e:
            dead = str(e)
        finally:
            sw.restore(saved)
        return s, (w, res, dead)
    where = '+'.join(names)
    total = 0
    for prefix, s, (w, res, dead) in sc.explore(run_once, bound, limit):
        total += 1
        sched = list(prefix)
        if dead:
            out.append(('shared|deadlock|%s' % where, 'requests %s did not finish: %s' % (where, dead), {'schedule': sched}))
            continue
        for i, n in enumerate(names):
            r = res.get(i)
            if r is None or r[0] == 'EXC':
                out.append(('shared|exception|%s|%s' % (n, where), 'request %s raised %s under a concurrent schedule' % (n, r),
                            {'schedule': sched, 'requests': names}))
            elif n in sw.WSDLS:
                if sw.canon_doc(r[1]) not in seq_wsdl:
                    out.append(('shared|wsdl-differs|%s' % where,
                                'the ?wsdl served while racing with %s is not one any sequential order produces' % where,
                                {'schedule': sched, 'requests': names, 'len': len(r[1])}))
            elif (sw.canon(r[1]), r[2]) != solo[n]:   # prefix-independent comparison of the body; status line aside, the headers too
                out.append(('shared|response-differs|%s|%s' % (n, where),
                            'request %s got a different response than alone (racing with %s)' % (n, where),
                            {'schedule': sched, 'requests': names, 'got': r[1][-300:].decode('utf8', 'replace')}))
        if is_json:
            continue
        after = sw.call(w, 'wsdl')[1]
        if sw.canon_doc(after) not in seq_wsdl:
            pm = {k: v for k, v in w.app.interface.prefmap.items() if k.startswith('ns.')}
            out.append(('shared|later-wsdl-differs|%s' % where,
                        'after racing %s the application serves a WSDL no sequential order produces (prefix map %s)' % (where, pm),
                        {'schedule': sched, 'requests': names, 'prefmap': pm}))
    return out, total


def run(ctx, rnd):
    import multiprocessing as mp
    m1(ctx)
    sets = [('fp', 'fq'), ('fq', 'fp', 'f'), ('f', 'boom', 'invalid'), ('wsdl', 'fq'), ('g', 'fp', 'wsdl'),
            ('pt', 'pt2'), ('seg', 'pt'), ('pts', 'seg', 'pt'), ('tag1', 'tag2'), ('tag1', 'pt'),
            ('lat', 'utf'), ('utf', 'latdecl', 'utf16'), ('reg', 'chk1'), ('jreg', 'jchk1'), ('jchk1', 'jreg', 'jchk2'),
            ('vneg', 'vlong'), ('vlong', 'vok', 'vabc'), ('vwho', 'lwsdl'), ('vwholong', 'lwsdl', 'vok')]
    if not ctx.quick:
        sets += [('fp', 'fq', 'wsdl'), ('fp', 'fp'), ('wsdl', 'wsdl', 'fq'), ('f', 'g'), ('invalid', 'fq', 'boom'),
                 ('fp', 'fq', 'f', 'g')]
    bound, limit = (1, 250) if ctx.quick else (2, 4000)
    with mp.get_context('fork').Pool(min(len(sets), 14)) as pool:
        results = pool.map(explore_set, [(s, bound, limit) for s in sets], chunksize=1)
    total = 0
    for out, n in results:
        total += n
        for key, what, case in out:
            ctx.violation(key, what, case)
    ctx.cov_add(shared_runs=total, shared_request_sets=len(sets))
    ctx.sample({'mixed_request_set': sets[1], 'granularity': 'line', 'preemption_bound': bound})
