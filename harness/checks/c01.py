"""C01 - XML/SOAP wire fidelity.

 M4  SpyneSignatures.Cases (templates with holes over 11 leaf types x occurrence choices,
     complex types in two namespaces, wrapped and unwrapped arrays, arrays of objects,
     inheritance across namespaces, XML attributes, several arguments / return values,
     bare and out_bare styles) exported by TLC.
 M3  per case x {XmlDocument, Soap11, Soap12} x validator {None, soft, lxml}: the request is
     written by an independent encoder, sent through WsgiApplication; TLC (SpyneXmlDoc /
     TraceXml) checks that the request IS the published mapping of the values (ReqIsSpec),
     that the user function ran exactly once with equal values under Norm (Delivered), that
     the response document is the mapping of the returned value (RespIsSpec), and that the
     loopback Spyne client and zeep decode it to an equal value.
"""
import json, os
from .. import tlc, pipeline_common as pc, gen as G, enc as E, sigcases as S


class World(object):
    def __init__(self, case, fam, validator, poly=False, out_kw=None):
        from spyne import Application
        from spyne.server.wsgi import WsgiApplication
        self.case, self.fam = case, fam
        self.gen = G.Gen()
        self.seen = []
        rets = [S.texpr(t) for t in case['rets']]
        for t in list(case['rets']) + [f['t'] for f in case['args']] + list(case.get('inh') or []) + list(case.get('outh') or []):
            S.register_subs(self.gen, t)
        kw = {}
        if case['style'] in ('bare', 'out_bare'):
            kw['_body_style'] = case['style']
        ret = None if not rets else (rets[0] if len(rets) == 1 else rets)

        def returns(args):
            memo = {} if case.get('shared') else None
            vals = [S.to_instance(self.gen, t, v, memo=memo) for t, v in zip(case['rets'], case['rvals'])]
            if not vals: return None
            return vals[0] if len(vals) == 1 else tuple(vals)
        m = {'name': case['method'], 'args': [[f['n'], S.texpr(f['t'], f)] for f in case['args']],
             'ret': ret, 'returns': returns, 'kw': kw}
        if case.get('inh') and fam != 'xml':
            m['in_header'] = [S.texpr(t) for t in case['inh']]
            m['out_header'] = [S.texpr(t) for t in case['outh']]
            m['out_header_values'] = lambda: [S.to_instance(self.gen, t, v) for t, v in zip(case['outh'], case['outhvals'])]
        svc = G.make_service(self.gen, [m], self.seen)
        inp, outp = E.protocols(fam, validator=validator)
        if poly or out_kw:
            outp = type(outp)(**dict(out_kw or {}, polymorphic=poly))
            inp = type(inp)(validator=validator, **dict(out_kw or {}, polymorphic=poly))
        self.app = Application([svc], case['tns'], in_protocol=inp, out_protocol=outp)
        self.wsgi = WsgiApplication(self.app)

    def exchange(self, noise=None):
        c = self.case
        headers = None
        if c.get('inh') and self.fam != 'xml':
            headers = [(t['name'], S.texpr(t), S.to_wire_value(t, v)) for t, v in zip(c['inh'], c['inhvals'])]
        env, body = E.request(self.gen, self.fam, c['method'], S.args_for_enc(c, spelled=True), style=c['style'], noise=noise,
                              headers=headers)
        del self.seen[:]
        res = E.send(self.wsgi, env, body)
        obs = {'ncalls': len(self.seen), 'status': res['status'], 'escape': res['escape'] or ''}
        try:
            obs['req'] = S.tokens(body)
        except Exception as e:
            obs['req'] = [['?', str(e)]]
        if self.seen:
            got = self.seen[0][1]
            obs['args'] = [S.from_native(f['t'], x, repeated=f['max'] > 1) for f, x in zip(c['args'], got)]
            if headers is not None:
                ih = self.seen[0][2]
                if ih is None:
                    ih = [None] * len(c['inh'])
                elif not isinstance(ih, (list, tuple)):
                    ih = [ih]
                obs['inh'] = [S.from_native(t, x) for t, x in zip(c['inh'], list(ih) + [None] * len(c['inh']))]
        else:
            obs['args'] = [['leaf', '?not-called'] for _ in c['args']]
        try:
            obs['resp'] = S.tokens(res['body']) if res['body'].strip() else []
        except Exception as e:
            obs['resp'] = [['?', 'unparsable']]
        obs['raw'] = res['body'][:500].decode('utf8', 'replace')
        obs['request'] = body[:500].decode('utf8', 'replace')
        return obs


def client_decode(w):
    """The same call through the loopback Spyne client; -> decoded return values as TLA values, or None."""
    from ..loopback import LoopbackClient
    c = w.case
    if c['style'] != 'wrapped':
        return None          # the Spyne client supports the wrapped style only
    cl = LoopbackClient(w.wsgi, w.app)
    args = [S.to_instance(w.gen, f['t'], v) for f, v in zip(c['args'], c['vals'])]
    # the first argument positionally, the others by keyword (both calling conventions of the client)
    kwargs = {f['n']: a for f, a in list(zip(c['args'], args))[1:]}
    del w.seen[:]
    try:
        r = getattr(cl.service, c['method'])(*args[:1], **kwargs)
    except Exception as e:
        return [['leaf', '?client-raises-%s' % type(e).__name__] for _ in c['rets']]
    if w.seen:
        got = [S.from_native(f['t'], x, repeated=f['max'] > 1) for f, x in zip(c['args'], w.seen[0][1])]
        want = [S.from_native(f['t'], x, repeated=f['max'] > 1) for f, x in zip(c['args'], args)]
        if json.dumps(got) != json.dumps(want) and any(f['max'] <= 1 for f in c['args']):
            # what the client sent is not what it was given (reported through the decode clause)
            return [['leaf', '?client-sent-other-arguments'] for _ in c['rets']] or None
    if len(c['rets']) == 0:
        return []
    if len(c['rets']) == 1:
        return [S.from_native(c['rets'][0], r)]
    try:
        vals = list(r)
    except Exception:
        vals = [r]
    return [S.from_native(t, x) for t, x in zip(c['rets'], vals)] if len(vals) == len(c['rets']) else [['leaf', '?arity-%d' % len(vals)] for _ in c['rets']]


def zeep_decode(w):
    """The same call through zeep, generated from the served WSDL alone; -> (args the function saw, decoded values)."""
    from .. import zeepclient as Z
    c = w.case
    cl, tr = Z.make_client(w.wsgi)
    kw = {f['n']: S.to_zeep_value(f['t'], v) for f, v in zip(c['args'], c['vals'])}
    del w.seen[:]
    try:
        if c['style'] == 'bare':
            (n, v), = kw.items()
            r = getattr(cl.service, c['method'])(**(v or {}))
        else:
            r = getattr(cl.service, c['method'])(**kw)
    except Exception as e:
        return None, [['leaf', '?zeep-raises-%s:%s' % (type(e).__name__, str(e)[:60])] for _ in c['rets']]
    seen = None
    if w.seen:
        seen = [S.from_native(f['t'], x, repeated=f['max'] > 1) for f, x in zip(c['args'], w.seen[0][1])]
    p = Z.to_plain(r)
    if len(c['rets']) == 0:
        return seen, []
    if len(c['rets']) == 1:
        return seen, [S.from_plain(c['rets'][0], p)]
    if isinstance(p, dict):
        vals = [p.get('%sResult%d' % (c['method'], i)) for i in range(len(c['rets']))]
        return seen, [S.from_plain(t, x) for t, x in zip(c['rets'], vals)]
    return seen, [['leaf', '?zeep-shape'] for _ in c['rets']]


def sig_class(c):
    def tn(t):
        k = t['k']
        if k == 'prim': return t['p']
        if k == 'obj': return '%s{%s}' % (t['name'], ','.join('%s:%s%s' % (f['n'], tn(f['t']), '' if (f['min'], f['max']) == (0, 1) else '[%s,%s]' % (f['min'], f['max'])) for f in S.flat_fields(t)))
        if k == 'arr': return 'Array(%s)' % tn(t['of'])
        if k == 'any': return 'AnyXml'
        if k == 'enum': return 'Enum'
        return '@' + tn(t['of'])
    return '%s|%s|args=%s|rets=%s' % (c['id'], c['style'],
        ';'.join('%s%s' % (tn(f['t']), '' if (f['min'], f['max']) == (0, 1) else '[%s,%s]' % (f['min'], f['max'])) for f in c['args']),
        ';'.join(tn(t) for t in c['rets']))


_CASES = None


def _nil_item(v):
    """a nil ITEM inside a sequence (zeep leaves such items out of what it sends and reads them as empty objects)"""
    if isinstance(v, list):
        if len(v) == 2 and v[0] == 'seq':
            return any(x == ['nil'] for x in v[1]) or any(_nil_item(x) for x in v[1])
        return any(_nil_item(x) for x in v)
    return False


def _exchange_chunk(job):
    idxs, quick, seed = job
    fams = ['xml', 'soap11', 'soap12']
    vals = [None, 'soft', 'lxml']
    recs = []
    for i in idxs:
        c = _CASES[i]
        # every case runs under every family; validators rotate in the quick tier (all in thorough)
        for fi, fam in enumerate(fams):
            for vi, v in enumerate(vals):
                if quick and c['id'] == 'T2' and (i + fi + vi + seed) % 3 != 0:
                    continue
                if c['id'] == 'T9' and fam == 'xml':
                    continue          # XmlDocument has no envelope, hence no headers
                try:
                    w = World(c, fam, v, poly=bool(c.get('poly')))
                    # one validator per case sees the same document with comments sprinkled in
                    # one validator per case sees the same document with comments sprinkled in; now and then the document
                    # is preceded by a long comment that puts a multi-byte character across the transport's block boundary
                    noise = 'straddle' if (i + fi + vi) % 41 == 0 else 'comments' if (i + fi + vi) % 3 == 0 else 'nilfalse' if (i + fi + vi) % 7 == 1 else None
                    obs = w.exchange(noise=noise)
                    if v == 'soft' and c['id'] != 'T9' and (not quick or (i + fi) % 4 == seed % 4):
                        cd = client_decode(w)
                        if cd is not None:
                            obs['client'] = cd
                        # (zeep reads an empty xsd:string element as None: it cannot be the oracle for '' values)
                        if fam in ('soap11', 'soap12') and '["leaf", ""]' not in json.dumps(c['rvals']) and not c.get('poly') and c['id'] != 'T10' and not _nil_item(c['vals']) and not _nil_item(c['rvals']):
                            zargs, zd = zeep_decode(w)
                            obs['zeep'] = zd
                            if zargs is not None:
                                obs['zeepargs'] = zargs
                except Exception as e:
                    obs = {'ncalls': 0, 'status': -1, 'escape': 'build: %s: %s' % (type(e).__name__, e), 'req': [], 'resp': [],
                           'args': [['leaf', '?'] for _ in c['args']], 'raw': '', 'request': ''}
                recs.append({'c': c, 'fam': fam, 'validator': v, 'obs': obs})
    return recs


def run(ctx):
    global _CASES
    import multiprocessing
    cases = S.export(ctx)
    # same-named classes of different namespaces behind one base (SpynePolyCases.P5): what a type marker names is a
    # (namespace, name) pair resolved in the document, for every element of every request a server sees
    from . import c16
    cases = cases + [c for c in c16.export(ctx) if c['id'] == 'P5'] + S.export(ctx, 'any')
    _CASES = cases
    n = 12
    idx = list(range(len(cases)))
    size = (len(idx) + n * 4 - 1) // (n * 4)
    jobs = [(idx[a:a + size], ctx.quick, ctx.seed) for a in range(0, len(idx), size)]
    with multiprocessing.get_context('fork').Pool(n) as pool:
        parts = pool.map(_exchange_chunk, jobs)
    recs = [r for p_ in parts for r in p_]
    judge(ctx, recs, 'C01')
    ctx.level = 'exploration'
    ctx.cov_add(evaluations=len(recs), cases=len(cases), distinct_nontrivial=len(recs), exhaustive=not ctx.quick,
                rule='SpyneSignatures.Cases x {XmlDocument, Soap11, Soap12} x validator {None, soft, lxml}; each exchange is a distinct '
                     '(case, family, validator)')
    ctx.sample({'case': sig_class(recs[0]['c']), 'request': recs[0]['obs']['request'], 'response': recs[0]['obs']['raw']})
    j = len(recs) // 2
    ctx.sample({'case': sig_class(recs[j]['c']), 'family': recs[j]['fam'], 'request': recs[j]['obs']['request'][:300], 'response': recs[j]['obs']['raw'][:300]})


def judge(ctx, recs, pid, module='TraceXml', clauses_ignored=()):
    lines = []
    for r in recs:
        o = {k: v for k, v in r['obs'].items() if k in ('req', 'resp', 'args', 'ncalls', 'client', 'zeep', 'zeepargs', 'inh')}
        lines.append({'c': r['c'], 'fam': r['fam'], 'obs': o})
    res = tlc.validate_records(module, ['INIT Init', 'NEXT Next', 'CONSTRAINT Report', 'CHECK_DEADLOCK FALSE'], ctx.work, lines, tag='xml')

    class _P(object):
        prints = [('V', k + 1) + tuple(v) for k, v in sorted(res.items())]
        stdout = ''
    rt = _P()
    seen = set()
    nfail = 0
    for p in rt.prints:
        if p and p[0] == 'V' and p[1] not in seen:
            seen.add(p[1])
            cl = set(p[2]) - set(clauses_ignored)
            if cl:
                nfail += 1
                r = recs[p[1] - 1]
                o = r['obs']
                how = 'escape' if o.get('escape') else 'status=%s' % o.get('status')
                key = '%s|%s|fam=%s|val=%s|%s' % ('+'.join(sorted(cl)), sig_class(r['c']), r['fam'], r.get('validator'), how)
                ctx.violation(key, '%s: %s over %s/%s: at %s; request %s response %s' % (
                    sorted(cl), sig_class(r['c']), r['fam'], r.get('validator'), list(p[3]), o.get('request', '')[:160], o.get('raw', '')[:200]),
                    {'case': r['c'], 'family': r['fam'], 'validator': r.get('validator'), 'where': list(p[3]),
                     'request': o.get('request'), 'response': o.get('raw'), 'args_seen': o.get('args'), 'escape': o.get('escape')})
    if len(seen) != len(recs):
        raise tlc.TlcError('%s evaluated %d of %d\n%s' % (module, len(seen), len(recs), rt.stdout[-2500:]))
    ctx.cov_add(traces_validated_against_impl=len(recs) - nfail)
    return nfail
