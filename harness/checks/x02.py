"""X02 (beyond the listed properties) - auxiliary methods run after the response, in order, and cannot affect it.

 M1  SpyneAux: primary outcome x up to two auxiliary services (process_exceptions on/off, outcome ok / Fault / other
     exception); invariants AuxAfterResponse, AuxInOrder, AuxRunsIffDue, AuxAtMostOnce, PrimaryUnaffected, AuxClosedOnce;
     the AuxBeforeResponse deviation violates AuxAfterResponse.
 M3  every scenario is run on a real application (primary service + SyncAuxProc services, Soap11 and JsonDocument over
     WsgiApplication); the recorded history (function calls, start_response, body, context closes) is judged by TLC with
     the same clauses, the response is compared with the one of the application WITHOUT auxiliary services.
 Not registered in MANIFEST.json (no listed property is about auxiliary methods); report in extras/X02.json.
"""
import io, json, os
from .. import tlc, pipeline_common as pc


def build(s, fam, log, with_aux=True):
    from spyne import Application, Service, srpc, Integer, Fault
    from spyne.auxproc.sync import SyncAuxProc
    from spyne.protocol.soap import Soap11
    from spyne.protocol.json import JsonDocument
    from spyne.server.wsgi import WsgiApplication

    class Primary(Service):
        @srpc(Integer, _returns=Integer)
        def f(a):
            log.append(['fn', 'primary'])
            if s['po'] == 'fault':
                raise Fault('Server.Primary', 'primary fails')
            return a + 1
    services = [Primary]
    if with_aux:
        def mk(n, a):
            def f(x):
                log.append(['fn', 'aux', n + 1])
                if a['out'] == 'fault':
                    raise Fault('Server.Aux', 'aux fails')
                if a['out'] == 'exc':
                    raise KeyError('aux breaks')
                return 0
            return type(str('Aux%d' % (n + 1)), (Service,), {'__aux__': SyncAuxProc(process_exceptions=a['px']),
                                                             'f': srpc(Integer, _returns=Integer)(f)})
        for n, a in enumerate(s['aux']):
            services.append(mk(n, a))
    P = Soap11 if fam == 'soap11' else JsonDocument
    app = Application(services, 'tns', in_protocol=P(), out_protocol=P())

    def closed(ctx):
        sc = ctx.descriptor.service_class.__name__ if ctx.descriptor is not None else '?'
        log.append(['closed', 'primary'] if sc == 'Primary' else ['closed', 'aux', int(sc[3:])])
    app.event_manager.add_listener('method_context_closed', closed)
    return WsgiApplication(app)


def call(w, fam, log):
    if fam == 'soap11':
        body = b'<e:Envelope xmlns:e="http://schemas.xmlsoap.org/soap/envelope/"><e:Body><tns:f xmlns:tns="tns"><tns:a>5</tns:a></tns:f></e:Body></e:Envelope>'
        ct = 'text/xml'
    else:
        body, ct = b'{"f": {"a": 5}}', 'application/json'
    env = {'REQUEST_METHOD': 'POST', 'PATH_INFO': '/', 'QUERY_STRING': '', 'CONTENT_TYPE': ct, 'CONTENT_LENGTH': str(len(body)),
           'wsgi.input': io.BytesIO(body), 'wsgi.url_scheme': 'http', 'SERVER_NAME': 'x', 'SERVER_PORT': '80'}
    st = []

    def sr(status, headers, exc=None):
        st.append(status)
        log.append(['sr', int(status.split()[0])])
    it = w(env, sr)
    out = b''
    try:
        for chunk in it:
            out += chunk
        log.append(['body'])
    finally:
        if hasattr(it, 'close'):
            it.close()
    return st[0] if st else '', out


def run(ctx):
    r = tlc.run('SpyneAux', 'MCAux.cfg', ctx.work, workers=4)
    if not r.ok:
        raise tlc.TlcError('SpyneAux: %s violated in the design model' % r.violated)
    rd = tlc.run('SpyneAux', 'MCAuxDev.cfg', ctx.work, workers=4)
    if rd.violated != 'InvAfterResponse':
        raise tlc.TlcError('SpyneAux: the AuxBeforeResponse deviation is not detected')
    ctx.cov_add(states=r.distinct, transitions=r.generated)
    out = os.path.join(ctx.work, 'aux_scenarios.json')
    cfg = pc.write_cfg(os.path.join(ctx.work, 'expaux.cfg'), ['INIT Init0', 'NEXT Next0', 'CONSTANT Deviations = {}', 'CHECK_DEADLOCK FALSE'])
    tlc.run('ExportAux', cfg, ctx.work, env={'OUT_FILE': out})
    scens = json.load(open(out))
    scens.sort(key=lambda s: json.dumps(s, sort_keys=True))
    recs = []
    for s in scens:
        for fam in ('soap11', 'json'):
            log, log0 = [], []
            esc = ''
            try:
                st, body = call(build(s, fam, log), fam, log)
                st0, body0 = call(build(s, fam, log0, with_aux=False), fam, log0)
                same = (st, body) == (st0, body0)
            except Exception as e:
                same = False
                esc = '%s: %s' % (type(e).__name__, e)
            recs.append({'s': s, 'fam': fam, 'h': log, 'same_response': bool(same), 'escape': esc})
    res = tlc.validate_records('TraceAux', ['INIT Init1', 'NEXT Next1', 'CONSTRAINT Report', 'CONSTANT Deviations = {}', 'CHECK_DEADLOCK FALSE'],
                               ctx.work, [{'s': r_['s'], 'h': r_['h'], 'same_response': r_['same_response']} for r_ in recs], tag='aux')
    nbad = 0
    for i, r_ in enumerate(recs):
        cl = set(res[i][0])
        if not cl:
            continue
        nbad += 1
        s = r_['s']
        what = ','.join('%s%s' % ('px:' if a['px'] else '', a['out']) for a in s['aux']) or 'none'
        failing = sorted({a['out'] for a in s['aux'] if a['out'] != 'ok'})
        if cl == {'AuxClosedIfRan'}:
            key = 'AuxClosedIfRan|aux-outcome=%s' % '+'.join(failing)
        else:
            key = '%s|primary=%s|aux=%s|fam=%s' % ('+'.join(sorted(cl)), s['po'], what, r_['fam'])
        ctx.violation(key, '%s: primary %s, auxiliary services [%s] over %s: history %s %s' % (sorted(cl), s['po'], what, r_['fam'], r_['h'], r_['escape']),
                      {'scenario': s, 'family': r_['fam'], 'history': r_['h'], 'same_response': r_['same_response'], 'escape': r_['escape']})
    ctx.level = 'exploration'
    ctx.cov_add(traces_validated_against_impl=len(recs) - nbad, evaluations=len(recs), scenarios=len(scens), distinct_nontrivial=len(recs), exhaustive=True,
                rule='every scenario of SpyneAux.Scenarios x {Soap11, JsonDocument}')
    ctx.sample({'scenario': recs[len(recs) // 2]['s'], 'history': recs[len(recs) // 2]['h']})
