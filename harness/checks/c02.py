"""C02 - dict-document wire fidelity (JSON, YAML, MessagePack, MessagePackRpc).

 M4  SpyneDictCases.DictCases (the SpyneSignatures templates without bare styles / SOAP headers, plus
     64-bit boundary integers, large decimals, a pool of Unicode scalar texts, empty containers and
     response values in which one instance is reachable twice) x configuration
     {family} x {ignore_wrappers} x {complex_as dict / positional list} x {polymorphic} x {validator None / soft}
     x {arguments by name / positional} x {MessagePack method key as bin / str}.
 M3  every exchange is real: the request is written by an encoder of the conventions (dictdoc.py) and
     encoded with the standard codecs; TLC (TraceDict over SpyneDictDoc) checks that the request IS the
     conventional document (ReqIsSpec), that the function was called once with equal values (Delivered),
     that the response tree is the conventional document of the returned value (RespIsSpec) and that an
     independent reader of the conventions decodes it to the value returned (Decodes).
"""
import json, os, multiprocessing
from .. import tlc, pipeline_common as pc, dictdoc as D, sigcases as S
from . import c01

FAMS = ('json', 'yaml', 'msgpack', 'msgpackrpc')
CFGS = [dict(iw=True, ca='dict', poly=False), dict(iw=False, ca='dict', poly=False),
        dict(iw=True, ca='list', poly=False), dict(iw=False, ca='dict', poly=True)]


def full(t, v):
    if v == ['nil']:
        return False
    if v[0] == 'seq':
        return all(full(t['of'] if t['k'] == 'arr' else t, x) for x in v[1])
    if t['k'] == 'obj':
        return all(f.get('exc') or full(f['t'], x) for f, x in zip(S.flat_fields(t), v[2]))
    return True


def plan(cases, quick, seed):
    """-> [(case index, cfg, validator, form, mkey)]"""
    jobs = []
    for i, c in enumerate(cases):
        if quick and c['id'] == 'T2' and (i + seed) % 6 != 0:
            continue
        allfull = all(full(f['t'], v) for f, v in zip(c['args'], c['vals'])) and all(full(t, v) for t, v in zip(c['rets'], c['rvals']))
        allargs = all(v != ['nil'] for v in c['vals']) and len(c['args']) > 0
        n = 0
        for fam in FAMS:
            for base in CFGS:
                if base['ca'] == 'list' and not allfull:
                    continue          # the positional form is defined for fully populated objects
                cfg = dict(base, fam=fam)
                for validator in (None, 'soft'):
                    n += 1
                    if quick and (i + n + seed) % 2:
                        continue
                    forms = ['map'] + (['list'] if allargs and (not quick or (i // 2 + n // 2) % 2 == 0) else [])
                    for form in forms:
                        mkeys = ['bytes', 'str'] if fam == 'msgpack' and (not quick or (i // 2 + n // 2) % 3 == 0) else ['bytes']
                        for mkey in mkeys:
                            jobs.append((i, cfg, validator, form, mkey))
                    if fam in D.PACKED and base['ca'] == 'dict' and base['iw'] and c['id'] in ('D1', 'T1', 'T3', 'T4') and (not quick or (i + n) % 3 == 0):
                        # the same request with every text (and every beyond-64-bit integer) sent as bin: how the server itself writes them
                        jobs.append((i, dict(cfg, rawas='bin'), validator, 'map', 'bytes'))
    return jobs


_CASES = None


def _work(chunk):
    worlds = {}
    out = []
    for (i, cfg, validator, form, mkey) in chunk:
        c = _CASES[i]
        key = (json.dumps([c['args'], c['rets']], sort_keys=True), json.dumps(cfg, sort_keys=True), validator)
        try:
            w = worlds.get(key)
            if w is None:
                if len(worlds) > 300:
                    worlds.clear()
                w = worlds[key] = D.World(c, cfg, validator)
            obs = w.exchange(c, form, mkey)
        except Exception as e:
            import traceback
            obs = {'req': ['null'], 'ncalls': 0, 'args': [['leaf', '?driver']] * len(c['args']), 'resp': ['null'],
                   'dec': [['leaf', '?driver']] * len(c['rets']), 'escape': 'driver: %s: %s' % (type(e).__name__, e),
                   'trace': traceback.format_exc()[-600:]}
        out.append(obs)
    return out


def collect(ctx, cases, jobs):
    global _CASES
    _CASES = cases
    # keep the jobs of one signature together (one application per signature and configuration)
    order = sorted(range(len(jobs)), key=lambda k: (json.dumps(jobs[k][1], sort_keys=True), str(jobs[k][2]),
                                                    json.dumps([cases[jobs[k][0]]['args'], cases[jobs[k][0]]['rets']], sort_keys=True)))
    n = 12
    size = (len(order) + n * 4 - 1) // (n * 4)
    chunks = [[jobs[k] for k in order[a:a + size]] for a in range(0, len(order), size)]
    with multiprocessing.get_context('fork').Pool(n) as pool:
        res = pool.map(_work, chunks)
    flat = [o for r in res for o in r]
    obs = [None] * len(jobs)
    for k, o in zip(order, flat):
        obs[k] = o
    return obs


def judge(ctx, cases, jobs, obs, pid='C02', module='TraceDict'):
    recs = []
    for (i, cfg, validator, form, mkey), o in zip(jobs, obs):
        oo = {k: v for k, v in o.items() if k in ('req', 'resp', 'args', 'ncalls', 'dec')}
        recs.append({'c': cases[i], 'cfg': cfg, 'form': form, 'obs': oo})
    res = tlc.validate_records(module, ['INIT Init', 'NEXT Next', 'CONSTRAINT Report', 'CHECK_DEADLOCK FALSE'], ctx.work, recs, tag='dict')
    seen = {k + 1: set(v[0]) for k, v in res.items()}
    nfail = 0
    for k, (job, o) in enumerate(zip(jobs, obs)):
        cl = seen[k + 1]
        if not cl:
            continue
        nfail += 1
        i, cfg, validator, form, mkey = job
        c = cases[i]
        how = 'escape' if o.get('escape') else 'status=%s' % o.get('status')
        key = '%s|%s|%s|iw=%s,ca=%s,poly=%s|val=%s|form=%s%s|%s' % (
            '+'.join(sorted(cl)), case_class(c), cfg['fam'], cfg['iw'], cfg['ca'], cfg['poly'], validator, form,
            ',mkey=str' if mkey == 'str' else '', how)
        ctx.violation(key, '%s: %s under %s validator=%s args-as-%s: request %s -> response %s %s' % (
            sorted(cl), case_class(c), cfg, validator, form, o.get('request', '')[:160], o.get('raw', '')[:200], o.get('escape') or ''),
            {'case': c, 'cfg': cfg, 'validator': validator, 'form': form, 'method_key': mkey, 'request': o.get('request'),
             'response': o.get('raw'), 'args_seen': o.get('args'), 'decoded': o.get('dec'), 'escape': o.get('escape'), 'trace': o.get('trace')})
    return nfail


def value_class(c):
    """the value-dependent part of a case's class (D1 / D2: the value is the point)"""
    if c['id'] == 'D1':
        v = c['vals'][0]
        return json.dumps(v)[:80]
    if c['id'] == 'D2':
        return 'share=%s|%s' % (c['share'], json.dumps(c['rvals'])[:120])
    return ''


def case_class(c):
    if c['id'].startswith('P'):
        from . import c16
        return c16.poly_class(c)
    s = c01.sig_class(c)
    v = value_class(c)
    return s + ('|' + v if v else '')


def poly_jobs(cases, first, quick, seed):
    """SpynePolyCases (class trees, runtime subclass where the base is declared): wrapper documents, polymorphic on / off"""
    jobs = []
    for i, c in enumerate(cases):
        if i < first or c['id'] in ('P5', 'P6', 'P8'):          # (P8: XML attributes; P5: classes sharing a type name across namespaces - dict documents cannot tell them apart)
            continue
        n = 0
        for fam in FAMS:
            for validator in (None, 'soft'):
                n += 1
                if quick and (i + n + seed) % 2 == 0:
                    continue
                jobs.append((i, dict(fam=fam, iw=False, ca='dict', poly=c['poly']), validator, 'map', 'bytes'))
    return jobs


def run(ctx):
    from . import c16
    cases = D.export(ctx)
    jobs = plan(cases, ctx.quick, ctx.seed)
    first = len(cases)
    cases = cases + [dict(c, share=False) for c in c16.export(ctx)]
    jobs += poly_jobs(cases, first, ctx.quick, ctx.seed)
    obs = collect(ctx, cases, jobs)
    nfail = judge(ctx, cases, jobs, obs)
    ctx.level = 'exploration'
    ctx.cov_add(traces_validated_against_impl=len(jobs) - nfail, evaluations=len(jobs), cases=len({j[0] for j in jobs}),
                distinct_nontrivial=len(jobs), exhaustive=not ctx.quick,
                rule='each exchange is a distinct (case, family, wrapper / complex_as / polymorphic setting, validator, '
                     'argument form, method-key spelling) tuple; cases are distinct members of SpyneDictCases.DictCases')
    k = len(jobs) // 2
    ctx.sample({'case': case_class(cases[jobs[0][0]]), 'cfg': jobs[0][1], 'request': obs[0].get('request'), 'response': obs[0].get('raw')})
    ctx.sample({'case': case_class(cases[jobs[k][0]]), 'cfg': jobs[k][1], 'request': obs[k].get('request'), 'response': obs[k].get('raw')})
