"""C11 - a request runs exactly the method it names.

 M1  SpyneDispatch: the step-wise table construction (one action per process_method
     call) computes Table(app), refuses exactly the applications with two primaries
     for one name, never crashes, is independent of the service-list order, and the
     primary is first; InsertArgsSwapped (the pinned code) crashes.
 M2  every application TLC enumerates (duplicate-free service lists from a pool with
     adversarially similar names, an auxiliary service, custom in-message / operation
     names) is built as real services - construction errors compared too - and every
     candidate wire name (all registered names and near misses x {unqualified, target
     namespace, other namespace}) is sent the way each protocol names a method; the
     per-function counters must equal the module's handles.
"""
import io, json, os
from .. import tlc, pipeline_common as pc

NEAR = ['zz', 'fResponse', 'A.f', 'h', 'k', 'op', 'q', 'f.', 'fg', 'G', 'Ff', 'f__', 'x', 'fff', '_f', 'ff_', 'H2', 'h2Response', 'S.f']
NEAR_TEXT_ONLY = ['f ', ' f', '', 'f\n', 'F ']          # not XML names: dict / URL families only
COUNTS = {}


def build_pool():
    from spyne import Service, srpc, Integer
    from spyne.auxproc.sync import SyncAuxProc

    def bump(k):
        COUNTS[k] = COUNTS.get(k, 0) + 1
        return 1

    def mk():
        class A(Service):
            @srpc(_returns=Integer)
            def f(): return bump('A_f')

            @srpc(_returns=Integer)
            def ff(): return bump('A_ff')

        class B(Service):
            @srpc(_returns=Integer)
            def F(): return bump('B_F')

            @srpc(_returns=Integer)
            def f_(): return bump('B_fu')

            @srpc(_returns=Integer, _in_message_name='g')
            def h(): return bump('B_h')

        class C(Service):
            __aux__ = SyncAuxProc()

            @srpc(_returns=Integer)
            def f(): return bump('C_f')

            @srpc(_returns=Integer)
            def xf(): return bump('C_xf')

        class D(Service):
            @srpc(_returns=Integer, _in_message_name='f')
            def q(): return bump('D_q')

        class E(Service):
            @srpc(_returns=Integer, _in_message_name='f.g')
            def k(): return bump('E_k')

            @srpc(_returns=Integer, _operation_name='h2')
            def op(): return bump('E_op')

        class G(Service):
            __aux__ = SyncAuxProc()

            @srpc(_returns=Integer)
            def f(): return bump('G_f')

        class H(Service):
            @srpc(_returns=Integer, _in_message_name='{urn:elsewhere}f')
            def p(): return bump('H_p')
        class I(Service):
            @srpc(_returns=Integer, _in_message_name='{urn:elsewhere}k9')
            def r(): return bump('I_r')

            @srpc(_returns=Integer)
            def k9(): return bump('I_k9')
        return {'A': A, 'B': B, 'C': C, 'D': D, 'E': E, 'G': G, 'H': H, 'I': I}
    return mk


def senders():
    """name -> (in protocol factory, out protocol factory, request builder(local, ns) -> env or None)"""
    from spyne.protocol.xml import XmlDocument
    from spyne.protocol.soap import Soap11
    from spyne.protocol.json import JsonDocument
    from spyne.protocol.msgpack import MessagePackRpc, MessagePackDocument
    from spyne.protocol.http import HttpRpc
    import msgpack, re
    from urllib.parse import quote
    xmlname = re.compile(r'[A-Za-z_][A-Za-z0-9_.\-]*\Z')
    base = {'wsgi.url_scheme': 'http', 'SERVER_NAME': 'x', 'SERVER_PORT': '80', 'QUERY_STRING': ''}

    def post(body, ctype):
        e = dict(base); e.update(REQUEST_METHOD='POST', PATH_INFO='/', CONTENT_TYPE=ctype,
                                  CONTENT_LENGTH=str(len(body))); e['wsgi.input'] = io.BytesIO(body)
        return e

    def tag(local, ns):
        if not xmlname.match(local):
            return None
        if ns == 'none':
            return '<%s/>' % local
        return '<n:%s xmlns:n="%s"/>' % (local, 'tns' if ns == 'tns' else 'urn:other')

    def xml(local, ns):
        t = tag(local, ns)
        return None if t is None else post(t.encode(), 'text/xml')

    def soap(local, ns):
        t = tag(local, ns)
        return None if t is None else post(('<e:Envelope xmlns:e="http://schemas.xmlsoap.org/soap/envelope/"><e:Body>%s'
                                            '</e:Body></e:Envelope>' % t).encode(), 'text/xml')

    def js(local, ns):
        if ns != 'none':
            return None
        return post(json.dumps({local: {}}).encode(), 'application/json')

    def mprpc(local, ns):
        if ns != 'none':
            return None
        return post(msgpack.packb([0, 1, local, []]), 'application/x-msgpack')

    def mpdoc(local, ns):
        if ns != 'none':
            return None
        return post(msgpack.packb({local.encode('utf8'): {}}), 'application/x-msgpack')

    def http(local, ns):
        if ns != 'none' or '/' in local:
            return None
        e = dict(base); e.update(REQUEST_METHOD='GET', PATH_INFO='/svc/x/' + local); e['wsgi.input'] = io.BytesIO(b'')
        return e
    return {'xml': (XmlDocument, XmlDocument, xml), 'soap11': (Soap11, Soap11, soap),
            'json': (JsonDocument, JsonDocument, js), 'mprpc': (MessagePackRpc, MessagePackRpc, mprpc),
            'msgpack': (MessagePackDocument, MessagePackDocument, mpdoc),
            'http': (HttpRpc, JsonDocument, http)}


def http_patterns(ctx):
    """SpyneHttpPattern.Route for every (verb, host, path) against a real HttpRpc application."""
    from spyne import Application, Service, srpc, Integer, Unicode
    from spyne.protocol.http import HttpRpc, HttpPattern
    from spyne.protocol.json import JsonDocument
    from spyne.server.wsgi import WsgiApplication
    out = os.path.join(ctx.work, 'httppattern.json')
    cfg = pc.write_cfg(os.path.join(ctx.work, 'exph.cfg'), ['INIT Init', 'NEXT Next', 'CHECK_DEADLOCK FALSE'])
    tlc.run('ExportHttpPattern', cfg, ctx.work, env={'OUT_FILE': out})
    exported = json.load(open(out))
    rows = exported['rows']
    ran = []
    from spyne import ComplexModel

    class Person(ComplexModel):
        __namespace__ = 'urn:models'
        name = Unicode

    class S(Service):
        @srpc(_returns=Integer, _patterns=[HttpPattern('/a', verb='GET')])
        def m1(): ran.append('m1'); return 1

        @srpc(Unicode, _returns=Integer, _patterns=[HttpPattern('/a/<x>')])
        def m2(x): ran.append('m2'); return 1

        @srpc(_returns=Integer, _patterns=[HttpPattern('/b')])
        def m3(): ran.append('m3'); return 1

        @srpc(_returns=Integer, _patterns=[HttpPattern('/a', verb='DELETE')])
        def m4(): ran.append('m4'); return 1

        @srpc(_returns=Integer)
        def m5(): ran.append('m5'); return 1

        @srpc(_returns=Integer, _patterns=[HttpPattern('/a/list')])
        def m6(): ran.append('m6'); return 1

        @srpc(_returns=Integer, _in_message_name='find', _patterns=[HttpPattern(verb='GET')])
        def lookup(): ran.append('m7'); return 1

        @srpc(Person, _returns=Integer, _body_style='bare', _patterns=[HttpPattern('/people/<name>')])
        def m8(p): ran.append('m8'); return 1

        @srpc(Unicode, _returns=Integer, _in_message_name='{urn:other}look', _patterns=[HttpPattern('/lookup/<k>')])
        def m9(k): ran.append('m9'); return 1

        @srpc(_returns=Integer, _patterns=[HttpPattern('/get.user')])
        def m10(): ran.append('m10'); return 1

        @srpc(Unicode, _returns=Integer, _patterns=[HttpPattern('/a+b/<x>')])
        def m11(x): ran.append('m11'); return 1

        @srpc(Unicode, _returns=Integer, _patterns=[HttpPattern('/item/{x}/rev')])
        def m12(x): ran.append('m12'); return 1
    try:
        w = WsgiApplication(Application([S], 'tns', in_protocol=HttpRpc(), out_protocol=JsonDocument()))
    except Exception as e:
        ctx.violation('httppattern|construction|%s' % type(e).__name__, 'application with HttpPatterns cannot be built: %s' % e, {})
        return 0
    n = 0
    for r in sorted(rows, key=lambda r: json.dumps(r, sort_keys=True)):
        env = {'REQUEST_METHOD': r['verb'], 'PATH_INFO': '/' + '/'.join(r['path']), 'QUERY_STRING': '',
               'HTTP_HOST': r['host'], 'SERVER_NAME': r['host'], 'SERVER_PORT': '80', 'wsgi.url_scheme': 'http',
               'wsgi.input': io.BytesIO(b'')}
        del ran[:]
        st = []
        try:
            b''.join(w(env, lambda s, h, e=None: st.append(s)))
            status = int(st[0].split()[0])
        except Exception as e:
            status = -1
        n += 1
        want = [] if r['route'] == 'notfound' else [r['route']]
        if ran != want or (not want and status != 404):
            ctx.violation('httppattern|route=%s|ran=%s|verb=%s|host=%s|path=%s' % (r['route'], '+'.join(ran) or 'nothing', r['verb'], r['host'], '/'.join(r['path'])),
                          'HttpPattern request %s %s%s ran %s (status %s), SpyneHttpPattern.Route says %s' % (
                              r['verb'], r['host'], env['PATH_INFO'], ran, status, r['route']), {'request': r, 'ran': list(ran), 'status': status})
    # ---- WsgiMounter
    from spyne.util.wsgi_wrapper import WsgiMounter
    who = []

    def mkapp(tag):
        def whoami():
            who.append(tag)
            return 1
        svc = type(str('Svc_' + tag), (Service,), {'whoami': srpc(_returns=Integer)(whoami)})
        return Application([svc], 'tns', name=str('App_' + tag), in_protocol=HttpRpc(), out_protocol=JsonDocument())
    mounts = sorted(exported['mounts'])
    import itertools
    for order in itertools.permutations(mounts):
        wm = WsgiMounter(dict((m_, mkapp(m_)) for m_ in order))
        for r in sorted(exported['mountrows'], key=lambda r: r['frag']):
            env = {'REQUEST_METHOD': 'GET', 'PATH_INFO': '/%s/whoami' % r['frag'], 'QUERY_STRING': '', 'SERVER_NAME': 'x', 'SERVER_PORT': '80',
                   'wsgi.url_scheme': 'http', 'wsgi.input': io.BytesIO(b'')}
            del who[:]
            st = []
            try:
                b''.join(wm(env, lambda s_, h, e=None: st.append(s_)))
                status = int(st[0].split()[0])
            except Exception as e:
                status = -1
            n += 1
            want = [] if r['route'] == 'notfound' else [r['route']]
            if who != want or (not want and status != 404):
                ctx.violation('mounter|route=%s|ran=%s|frag=%s' % (r['route'], '+'.join(who) or 'nothing', r['frag']),
                              'WsgiMounter%r: GET /%s/whoami ran %s (status %s), the mount table says %s' % (list(order), r['frag'], who, status, r['route']),
                              {'mount_order': list(order), 'fragment': r['frag'], 'ran': list(who), 'status': status})
    ctx.cov_add(httppattern_requests=n)
    return n


def run(ctx):
    from spyne import Application
    from spyne.server.wsgi import WsgiApplication
    maxs = 3 if ctx.quick else 4
    # ---- M1
    cfg = pc.write_cfg(os.path.join(ctx.work, 'mcd.cfg'), [
        'SPECIFICATION Spec', 'CONSTANT Deviations = {}', 'CONSTANT MaxServices = %d' % maxs,
        'INVARIANT BuildCorrect', 'INVARIANT NeverCrashes', 'INVARIANT OrderFree', 'INVARIANT PrimaryFirst',
        'PROPERTY Terminates', 'CHECK_DEADLOCK FALSE'])
    r = tlc.run('SpyneDispatch', cfg, ctx.work, workers=8, timeout=900)
    if not r.ok:
        raise tlc.TlcError('SpyneDispatch design violated: %s\n%s' % (r.violated, r.stdout[-1500:]))
    ctx.cov_add(states=r.distinct, transitions=r.generated)
    cfg2 = pc.write_cfg(os.path.join(ctx.work, 'mcd2.cfg'), [
        'SPECIFICATION Spec', 'CONSTANT Deviations = {"InsertArgsSwapped"}', 'CONSTANT MaxServices = 2',
        'INVARIANT NeverCrashes', 'CHECK_DEADLOCK FALSE'])
    r2 = tlc.run('SpyneDispatch', cfg2, ctx.work, workers=2)
    if r2.violated != 'NeverCrashes':
        raise tlc.TlcError('non-vacuity: InsertArgsSwapped does not break NeverCrashes')
    ctx.coverage['nonvacuity'] = ['InsertArgsSwapped breaks NeverCrashes']
    # ---- export
    out = os.path.join(ctx.work, 'dispatch.json')
    cfg3 = pc.write_cfg(os.path.join(ctx.work, 'expd.cfg'), ['INIT Init', 'NEXT Next', 'CONSTRAINT Stop',
                        'CONSTANT Deviations = {}', 'CONSTANT MaxServices = %d' % maxs, 'CHECK_DEADLOCK FALSE'])
    tlc.run('ExportDispatch', cfg3, ctx.work, env={'OUT_FILE': out}, timeout=900)
    d = json.load(open(out))
    names = sorted(d['names'])
    rows = sorted(d['rows'], key=lambda r: json.dumps(r['app']))
    mk = build_pool()
    snd = senders()
    fams = sorted(snd)
    nreq = napps = 0
    cands = names + NEAR + NEAR_TEXT_ONLY
    for row in rows:
        app_names = row['app']
        for fi, fam in enumerate(fams):
            inp, outp, build = snd[fam]
            svc = mk()
            err = None
            try:
                app = Application([svc[s] for s in app_names], 'tns', in_protocol=inp(), out_protocol=outp())
                w = WsgiApplication(app)
            except Exception as e:
                err = e
            napps += 1
            akey = 'app=%s' % ','.join(app_names)
            if row['refused']:
                if err is None:
                    ctx.violation('construction-accepted|%s' % '+'.join(sorted(app_names)),
                                  'two primary methods answer to one name but the application %s was constructed' % app_names,
                                  {'app': app_names})
                elif not isinstance(err, (ValueError, AssertionError, KeyError)) and type(err).__name__ != 'MethodAlreadyExistsError':
                    ctx.violation('construction-crash|%s|%s' % (type(err).__name__, akey),
                                  'constructing the conflicting application %s died with %s instead of a construction error'
                                  % (app_names, type(err).__name__), {'app': app_names, 'error': repr(err)})
                continue
            if err is not None:
                ctx.violation('construction-failed|%s' % type(err).__name__,
                              'constructing %s failed with %s: %s' % (app_names, type(err).__name__, err),
                              {'app': app_names, 'error': repr(err)})
                continue
            # SOAP over HTTP also carries a SOAPAction header: the BODY names the method, whatever the header says
            registered = sorted(n for n, fns in row['table'].items() if fns)
            for local in cands:
              for ns in ('none', 'tns', 'other'):
                actions = [None]
                if fam == 'soap11':
                    other = [n for n in registered if n != local][:1]
                    actions += ['"%s"' % n for n in other] + ['"tns/%s"' % n for n in other] + ['""', 'zz']
                for action in actions:
                    env = build(local, ns)
                    if env is None:
                        continue
                    if action is not None:
                        env['HTTP_SOAPACTION'] = action
                    want = list(row['table'].get(local, [])) if ns in ('none', 'tns') else []
                    COUNTS.clear()
                    st = []
                    try:
                        body = b''.join(w(env, lambda s, h, e=None: st.append(s)))
                        status = int(st[0].split()[0])
                    except Exception as e:
                        status, body = -1, ('%s: %s' % (type(e).__name__, e)).encode()
                    nreq += 1
                    got = dict(COUNTS)
                    exp = {fn: 1 for fn in want}
                    if got != exp:
                        ctx.violation('wrong-functions|fam=%s|name=%r|ns=%s|ran=%s' % (fam, local, ns, '+'.join(sorted(got)) or 'nothing'),
                                      'request naming %r (%s) ran %s, the routing table says %s' % (local, ns, got, want),
                                      {'app': app_names, 'family': fam, 'name': local, 'ns': ns, 'ran': got, 'expected': want,
                                       'status': status})
                    elif not want:
                        notfound = (status == 404) or (fam == 'soap11' and status == 500 and b'ResourceNotFound' in body)
                        if not notfound:
                            ctx.violation('not-a-notfound-fault|fam=%s|name=%r|ns=%s|status=%s' % (fam, local, ns, status),
                                          'unregistered name %r (%s) answered with status %s %r' % (local, ns, status, body[:120]),
                                          {'app': app_names, 'family': fam, 'name': local, 'ns': ns, 'status': status,
                                           'body': body[:300].decode('utf8', 'replace')})
                    elif status != 200:
                        ctx.violation('registered-name-fails|fam=%s|name=%r|status=%s' % (fam, local, status),
                                      'registered name %r answered with status %s' % (local, status),
                                      {'app': app_names, 'family': fam, 'name': local, 'ns': ns, 'body': body[:300].decode('utf8', 'replace')})
    nreq += http_patterns(ctx)
    ctx.cov_add(traces_validated_against_impl=nreq, applications=napps, evaluations=nreq,
                distinct_nontrivial=nreq, exhaustive=True,
                rule='every duplicate-free list of <= %d services from SpyneDispatch.Pool (TLC-enumerated) x protocol family, '
                     'x every candidate name (registered + near misses) x {unqualified, tns, other namespace}; each request is a '
                     'distinct (application, family, name, namespace)' % maxs)
    ctx.sample({'application': rows[len(rows) // 2]['app'], 'table': rows[len(rows) // 2]['table']})
    ctx.sample({'candidates': cands})
