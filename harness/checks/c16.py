"""C16 - inheritance and polymorphism preserve the runtime class.

 M4  SpynePolyCases.PolyCases: the tree Base <- Mid <- Leaf, Base <- Other in one namespace; declared type
     Base or Mid as argument / return value (optional and customized-mandatory), as a member of a holder,
     as item type of an array and of a repeated member holding mixed subclasses; runtime class ranging over
     the declared class and its descendants; polymorphic on / off.
 M3  XML family (XmlDocument, Soap11, Soap12 x validator None / soft / lxml): the request is written by the
     independent encoder (xsi:type marker + the subclass' fields), TLC (TraceXml over SpyneXmlDoc) checks
     ReqIsSpec, Delivered (the function receives an instance of the SAME subclass with equal fields),
     RespIsSpec (ancestors' fields first, the type marker resolving - through the namespace declarations in
     scope - to the runtime class; with polymorphism off exactly the declared class' fields) and
     ClientDecodes (the loopback Spyne client rebuilds the same subclass).
     Dict family (JSON, YAML, MessagePack, MessagePackRpc with ignore_wrappers=False x validator None / soft):
     the same through TraceDict over SpyneDictDoc (the wrapper key names the runtime class).
"""
import json, os
from .. import tlc, pipeline_common as pc, sigcases as S, dictdoc as D
from . import c01, c02


def export(ctx):
    out = os.path.join(ctx.work, 'poly_cases.json')
    cfg = pc.write_cfg(os.path.join(ctx.work, 'expp.cfg'), ['INIT Init', 'NEXT Next', 'CHECK_DEADLOCK FALSE'])
    tlc.run('ExportPolyCases', cfg, ctx.work, env={'OUT_FILE': out})
    d = json.load(open(out))
    d.sort(key=lambda c: json.dumps(c, sort_keys=True))
    return d


def runtime_names(c):
    names = set()

    def walk(v):
        if isinstance(v, list):
            if len(v) == 3 and v[0] == 'obj':
                names.add(v[1])
            for x in v:
                walk(x)
    walk(c['rvals'])
    return '+'.join(sorted(names - {'Holder'})) or '-'


_SIG = c01.sig_class


def poly_class(c):
    return '%s|poly=%s|runtime=%s' % (_SIG(c), c['poly'], runtime_names(c))


def run(ctx):
    cases = export(ctx)
    # ---- XML family
    recs = []
    for i, c in enumerate(cases):
        for fi, fam in enumerate(('xml', 'soap11', 'soap12')):
            for vi, v in enumerate((None, 'soft', 'lxml')):
                if ctx.quick and (i + fi + vi + ctx.seed) % 3 != 0:
                    continue
                if c['id'] == 'P6' and fam == 'xml':
                    continue          # XmlDocument has no envelope, hence no headers
                if c['id'] == 'P7':
                    continue          # late subclasses: the XML family resolves type markers in the interface built at start
                try:
                    w = c01.World(c, fam, v, poly=c['poly'])
                    obs = w.exchange()
                    if v != 'lxml':
                        cd = c01.client_decode(w)
                        if cd is not None:
                            obs['client'] = cd
                except Exception as e:
                    obs = {'ncalls': 0, 'status': -1, 'escape': 'build: %s: %s' % (type(e).__name__, e), 'req': [], 'resp': [],
                           'args': [['leaf', '?'] for _ in c['args']], 'raw': '', 'request': ''}
                recs.append({'c': c, 'fam': fam, 'validator': v, 'obs': obs})
    old = c01.sig_class
    c01.sig_class = poly_class
    try:
        nx = c01.judge(ctx, recs, 'C16')
    finally:
        c01.sig_class = old
    # ---- dict family
    jobs = []
    for i, c in enumerate(cases):
        n = 0
        if c['id'] in ('P5', 'P6', 'P8'):
            continue                # P5: classes that share a type name across namespaces: dict documents cannot tell them apart; P6: SOAP headers
        for fam in c02.FAMS:
            for validator in (None, 'soft'):
                n += 1
                if ctx.quick and (i + n + ctx.seed) % 2:
                    continue
                jobs.append((i, dict(fam=fam, iw=False, ca='dict', poly=c['poly']), validator, 'map', 'bytes'))
                if c['id'] == 'P4':
                    # the flat layout itself: plain maps, and the positional form for fully populated values
                    jobs.append((i, dict(fam=fam, iw=True, ca='dict', poly=False), validator, 'map', 'bytes'))
                    if all(c02.full(f['t'], v) for f, v in zip(c['args'], c['vals'])):
                        jobs.append((i, dict(fam=fam, iw=True, ca='list', poly=False), validator, 'list', 'bytes'))
    obs = c02.collect(ctx, cases, jobs)
    oldc = c02.case_class
    c02.case_class = poly_class
    try:
        nd = c02.judge(ctx, cases, jobs, obs, pid='C16')
    finally:
        c02.case_class = oldc
    ctx.level = 'exploration'
    ctx.cov_add(traces_validated_against_impl=len(jobs) - nd)
    ctx.cov_add(evaluations=len(recs) + len(jobs), cases=len(cases), xml_exchanges=len(recs), dict_exchanges=len(jobs),
                distinct_nontrivial=len(recs) + len(jobs), exhaustive=not ctx.quick,
                rule='PolyCases x {XmlDocument, Soap11, Soap12} x validator {None, soft, lxml} and x {JSON, YAML, MessagePack, '
                     'MessagePackRpc} (ignore_wrappers=False) x validator {None, soft}; each exchange is a distinct tuple')
    ctx.sample({'case': poly_class(recs[0]['c']), 'family': recs[0]['fam'], 'request': recs[0]['obs'].get('request', '')[:300], 'response': recs[0]['obs'].get('raw', '')[:300]})
    k = len(jobs) // 2
    ctx.sample({'case': poly_class(cases[jobs[k][0]]), 'cfg': jobs[k][1], 'request': obs[k].get('request'), 'response': obs[k].get('raw')})
