"""C05 - soft validation enforces exactly the declared constraints in every protocol.

 M4  SpyneValidate.Cases: one facet group and one probe each (numeric ranges, fixed-width
     bounds - exhaustively for the 8-bit types - 32/64-bit bounds as digit strings, string
     length, whole-string pattern, enumeration, occurrence counts 0..3 against min/max,
     nullability, instants written with four UTC offsets, lexical well-formedness) with
     Valid computed in TLA+; TLC checks that every facet is effective and that verdicts do
     not depend on the offset, and exports the table.  Every case x nesting position
     {argument, nested field, array member, XML attribute} x family {XML, SOAP 1.1/1.2, JSON,
     YAML, MessagePack, HttpRpc} is sent as a real request with validator='soft'; TLC compares
     `user function ran / Client fault` with Valid.
"""
import json, os
from .. import tlc, pipeline_common as pc, valcases as V


def case_class(c):
    g = c['group']
    if g == 'num':
        ty, x = c['ty'], c['x10']
        if c['facet'] == 'none' and ty not in ('Integer', 'Decimal', 'Double'):
            lo = {'Integer8': -128, 'Integer16': -32768, 'UnsignedInteger8': 0, 'UnsignedInteger16': 0}[ty]
            hi = {'Integer8': 127, 'Integer16': 32767, 'UnsignedInteger8': 255, 'UnsignedInteger16': 65535}[ty]
            v = x / 10.0
            where = 'min' if v == lo else 'max' if v == hi else 'below-min' if v < lo else 'above-max' if v > hi else 'inside'
            return '%s|none|%s' % (ty, where)
        return '%s|%s|x=%s' % (ty, c['facet'], x / 10.0)
    if g == 'big':
        return '%s|lit=%s' % (c['ty'], c['lit'])
    if g in ('str', 'enum'):
        return '%s|text=%s' % (c['facet'], c['text'])
    if g == 'occ':
        return 'min=%s,max=%s,count=%s' % (c['mino'], c['maxo'], c['count'])
    if g == 'nil':
        return '%s,nillable=%s,min=%s,%s%s' % (c['ty'], c['nillable'], c['mino'], c['how'], ',default' if c.get('dflt') else '')
    if g == 'date':
        return '%s|delta=%s|off=%s' % (c['facet'], c['delta'], c['off'])
    if g == 'decbound':
        return '%s|lit=%s' % (c['facet'], c['lit'][:12] + '..' + c['lit'][-6:])
    if g == 'nbound':
        return 'naive-%s|delta=%s|off=%s' % (c['facet'], c['delta'], c['off'])
    if g == 'zone':
        return '%s|delta=%s|%s' % (c['facet'], c['delta'], c['how'])
    if g == 'attrreq':
        return '%s|%s' % (c['decl'], c['how'])
    if g == 'subname':
        return c['how']
    if g == 'inh':
        return 'omit=%s' % c['omit']
    if g == 'time':
        return '%s|frac=%s' % (c['facet'], c['frac'])
    if g == 'lex':
        return '%s|text=%s' % (c['ty'], c['text'])
    if g == 'objarr':
        return 'n=%s,%s,missing=%s' % (c['n'], c['idx'], c['missing'])
    return '?'


def fam_group(fam):
    return {'xml': 'xml', 'soap11': 'xml', 'soap12': 'xml', 'json': 'dict', 'yaml': 'dict', 'msgpack': 'dict', 'msgpack_bin': 'dict_bin', 'http': 'flat', 'jsonrpc': 'envelope'}[fam]


_CASES = None
_OKV = None


def _collect_chunk(job):
    idxs, fams, with_lxml, positions = job
    runner = V.Runner()
    recs = []
    for ci in idxs:
        c = _CASES[ci]
        T = V.type_of(c)
        for fam in fams:
            v = V.value_of(c, fam)
            if v is V.SKIP:
                continue
            for pos in V.positions_of(c, fam):
                if positions is not None and pos not in positions:
                    continue
                okc = _OKV.get((c['group'], c['ty'], c.get('facet')))
                ok = V.value_of(okc, fam) if okc is not None else None
                if pos in ('array', 'rep', 'repfield') and (ok is None or ok is V.SKIP):
                    continue
                shape = V.call_shape(c, pos, T, v, ok)
                obs = runner.run(T, pos, fam, 'soft', shape)
                rec = {'case': c, 'pos': pos, 'fam': fam, 'obs': obs}
                if with_lxml and fam in ('xml', 'soap11', 'soap12'):
                    try:
                        o2 = runner.run(T, pos, fam, 'lxml', shape)
                        rec['lxml'] = o2
                    except Exception as e:
                        rec['lxml_error'] = '%s: %s' % (type(e).__name__, e)
                recs.append(rec)
    return recs


def collect(ctx, with_lxml=False, families=None, positions=None, family=None):
    """Run every case x position x family (in a pool of processes; cases of one type stay together so that the
    applications are shared); -> list of records (case, pos, fam, obs) in case order."""
    global _CASES, _OKV
    import multiprocessing
    d = V.export(ctx, family)
    cases = d['cases']
    fams = families or sorted(d['families'])
    ok_value = {}
    for c in cases:
        if c['valid'] and c['group'] in ('num', 'big', 'str', 'enum', 'date', 'lex', 'time', 'zone', 'nbound', 'decbound'):
            ok_value.setdefault((c['group'], c['ty'], c.get('facet')), c)
    _CASES, _OKV = cases, ok_value
    order = sorted(range(len(cases)), key=lambda k: (json.dumps(V.type_of(cases[k]), sort_keys=True, default=str), k))
    n = 12
    size = (len(order) + n * 3 - 1) // (n * 3)
    jobs = [(order[a:a + size], fams, with_lxml, positions) for a in range(0, len(order), size)]
    with multiprocessing.get_context('fork').Pool(n) as pool:
        parts = pool.map(_collect_chunk, jobs)
    recs = [r for p in parts for r in p]
    return d, recs


def judge(ctx, recs, schema=False):
    lines = []
    for r in recs:
        o = {'ran': bool(r['obs']['ran']), 'fault': bool(r['obs']['fault']), 'client': bool(r['obs']['client'])}
        if schema and 'lxml' in r:
            o['lxml'] = bool(r['lxml']['ran'])
        lines.append({'valid': r['case']['valid'], 'obs': o})
    res = tlc.validate_records('TraceValidate', ['INIT Init', 'NEXT Next', 'CONSTRAINT Report', 'CHECK_DEADLOCK FALSE'], ctx.work, lines,
                               chunk=20000, tag='val')
    out = {k: set(v[0]) for k, v in res.items() if v[0]}
    return out


def run(ctx):
    d, recs = collect(ctx)
    fails = judge(ctx, recs)
    n = 0
    for i, cl in sorted(fails.items()):
        cl = cl - {'SchemaDisagrees', 'ValidatorsDisagree'}
        if not cl:
            continue
        n += 1
        r = recs[i]
        c, o = r['case'], r['obs']
        how = 'escape:' + o['escape'].split(':')[0] if o.get('escape') else ('ran=%s,fault=%s,code=%s' % (o['ran'], o['fault'], o.get('code')))
        key = '%s|%s|%s|pos=%s|fam=%s|%s' % ('+'.join(sorted(cl)), c['group'], case_class(c), r['pos'], fam_group(r['fam']),
                                              'escape' if o.get('escape') else 'code=%s' % o.get('code'))
        if c['group'] == 'lex' and not o.get('escape'):
            # lexical leniency / strictness is a property of the leaf parser: one class per (type, text, family group)
            key = '%s|lex|%s|fam=%s' % ('+'.join(sorted(cl)), case_class(c), fam_group(r['fam']))
        ctx.violation(key, 'soft validation verdict differs from Valid: case %s at %s over %s: %s' % (c, r['pos'], r['fam'], how),
                      {'case': c, 'position': r['pos'], 'family': r['fam'], 'observation': {k: (v.decode('utf8', 'replace') if isinstance(v, bytes) else v) for k, v in o.items()}})
    ctx.level = 'exploration'
    ctx.cov_add(traces_validated_against_impl=len(recs) - n, evaluations=len(recs), cases=len(d['cases']),
                distinct_nontrivial=len(recs), exhaustive=True,
                rule='every case of SpyneValidate.Cases x nesting position x protocol family (each a distinct request); '
                     'Valid is computed by TLC')
    ctx.sample({'case': recs[0]['case'], 'position': recs[0]['pos'], 'family': recs[0]['fam'], 'ran': recs[0]['obs']['ran']})
    j = len(recs) // 2
    ctx.sample({'case': recs[j]['case'], 'position': recs[j]['pos'], 'family': recs[j]['fam'], 'ran': recs[j]['obs']['ran'],
                'request': recs[j]['obs'].get('body', b'')[:200].decode('utf8', 'replace')})
