"""X01 (beyond the listed properties) - the XML Schema parser is the inverse of the schema generator.

For every universe of SpyneSchema (three classes in three namespaces, member / array / inheritance / choice links, one
service) the schemas a real application publishes are written to files and read back with
spyne.interface.xml_schema.parser.XmlSchemaParser; TLC (TraceSchemaParse) checks that the classes read back are exactly
the reachable nodes of the universe: name, namespace, parent class and own members (name, type, repetition).
Not registered in MANIFEST.json (no listed property is about the parser); its report goes to extras/X01.json.
"""
import json, os, shutil, multiprocessing
from .. import tlc, pipeline_common as pc, schemaworld as W
from . import c06

XS = 'http://www.w3.org/2001/XMLSchema'


def describe_class(cls):
    from decimal import Decimal
    ext = getattr(cls, '__extends__', None)
    while ext is not None and ext.get_type_name() is ext.Empty:
        ext = getattr(ext, '__extends__', None)
    fields = []
    for k, v in cls._type_info.items():
        if ext is not None and k in ext.get_flat_type_info(ext):
            continue
        t = v
        many = v.Attributes.max_occurs not in (1, Decimal(1))
        tn = t.get_type_name()
        tns = t.get_namespace()
        orig = getattr(t, '__orig__', None)
        if orig is not None:
            tn, tns = orig.get_type_name(), orig.get_namespace()
        fields.append({'n': k, 't': tn, 'tns': tns, 'many': bool(many)})
    return {'name': cls.get_type_name(), 'ns': cls.get_namespace(), 'base': ext.get_type_name() if ext is not None else '-', 'fields': fields}


def _one(job):
    c, wd = job
    from lxml import etree
    from spyne.interface.xml_schema.parser import XmlSchemaParser
    wd = os.path.join(wd, str(os.getpid()))
    obs = {'parsed': True, 'descs': [], 'error': ''}
    try:
        w = W.World(c, 'xml', 'soft')
        doc = W.wsdl(w.wsgi)
        root = etree.fromstring(doc)
        os.makedirs(wd, exist_ok=True)
        files = {}
        for i, s in enumerate(root.iter('{%s}schema' % XS)):
            path = os.path.join(wd, 's%d.xsd' % i)
            files[s.get('targetNamespace')] = path
            with open(path, 'wb') as f:
                f.write(etree.tostring(s))
        p = XmlSchemaParser(files)
        ret = p.parse_schema_file(files['tns'])
        allret = dict(p.retval)
        for ns, sch in allret.items():
            for name, cls in sch.types.items():
                if hasattr(cls, '_type_info') and hasattr(cls, 'get_flat_type_info'):
                    obs['descs'].append(describe_class(cls))
    except Exception as e:
        obs['parsed'] = False
        obs['error'] = '%s: %s' % (type(e).__name__, str(e)[:300])
    return {'u': c['u'], 'case': c, 'obs': obs}


def run(ctx):
    cases = W.export(ctx)
    if ctx.quick:
        cases = [c for i, c in enumerate(cases) if (i + ctx.seed) % 8 == 0]
    wd = os.path.join(ctx.work, 'xsdp')
    with multiprocessing.get_context('fork').Pool(12) as pool:
        recs = pool.map(_one, [(c, wd) for c in cases], chunksize=8)
    shutil.rmtree(wd, ignore_errors=True)
    tf = os.path.join(ctx.work, 'parse_traces.ndjson')
    with open(tf, 'w') as f:
        for r in recs:
            f.write(json.dumps({'u': r['u'], 'obs': {'parsed': r['obs']['parsed'], 'descs': r['obs']['descs']}}) + '\n')
    cfgt = pc.write_cfg(os.path.join(ctx.work, 'tracep.cfg'), ['INIT Init', 'NEXT Next', 'CONSTRAINT Report', 'CONSTANT Deviations = {}', 'CHECK_DEADLOCK FALSE'])
    rt = tlc.run('TraceSchemaParse', cfgt, ctx.work, env={'TRACE_FILE': tf}, timeout=1800, workers=4)
    seen = {}
    for p in rt.prints:
        if p and p[0] == 'V':
            seen[p[1]] = (set(p[2]), sorted(p[3]), sorted(p[4]), set(p[5]))
    if len(seen) != len(recs):
        raise tlc.TlcError('TraceSchemaParse evaluated %d of %d\n%s' % (len(seen), len(recs), rt.stdout[-2000:]))
    nbad = 0
    for i, r in enumerate(recs):
        cl, missing, extra, reordered = seen[i + 1]
        if not cl:
            continue
        nbad += 1
        inherits = {m for m in missing if r['case']['base'].get(m, '-') != '-'}
        if missing and set(missing) <= inherits | reordered and set(extra) <= set(missing):
            if reordered:
                ctx.violation('ClassReadBackDiffers|reason=choice-members-reordered', 'the members of an xs:choice group are read back after the other '
                              'members instead of where they are declared: universe %s, classes %s' % (json.dumps(r['u'], sort_keys=True), sorted(reordered)),
                              {'universe': r['u'], 'read_back': r['obs']['descs']})
            if not inherits:
                continue
        if missing and inherits and set(missing) <= inherits | reordered and set(extra) <= set(missing):
            # only classes that EXTEND another class are affected: one class of defect whatever the universe
            ctx.violation('ClassNotReadBack|reason=extension-dropped', 'a complexType that extends another (xs:complexContent/xs:extension) is read back '
                          'without its parent and without its own members: universe %s, classes %s' % (json.dumps(r['u'], sort_keys=True), missing),
                          {'universe': r['u'], 'read_back': r['obs']['descs']})
            continue
        ctx.violation('%s|%s|classes=%s' % ('+'.join(sorted(cl)), c06.universe_class(r['case']), ','.join(missing or extra)),
                      'schema of universe %s read back: %s; not read back as declared: %s; read back differently: %s; %s' % (
                          json.dumps(r['u'], sort_keys=True), sorted(cl), missing, extra, r['obs']['error']),
                      {'universe': r['u'], 'read_back': r['obs']['descs'], 'error': r['obs']['error']})
    ctx.level = 'exploration'
    ctx.cov_add(traces_validated_against_impl=len(recs) - nbad, evaluations=len(recs), universes=len(recs), distinct_nontrivial=len(recs),
                exhaustive=not ctx.quick, rule='universes are distinct members of SpyneSchema.Universes')
    ctx.sample({'universe': recs[0]['u'], 'read_back': recs[0]['obs']['descs'][:3]})
