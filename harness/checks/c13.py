"""C13 - WSGI response protocol and request-size limit.

 M1  SpynePipeline (wsgi scenario family: body length x declared CONTENT_LENGTH x
     max_content_length x block_length x chunked x outcome x generator result x ?wsdl x
     client abort after k chunks) |= the C13 clauses; CloseBeforeBody / NonChunkedStrJoin
     deviations break the clauses they are said to break.
 M2+M3  every exported scenario is driven through the real WsgiApplication with a
     recording start_response, a counting wsgi.input and listeners; TLC evaluates the
     C13 clauses on each recorded history and checks conformance with the model.
     A second pass runs the same requests under wsgiref.validate.
"""
import random
from .. import pipeline_common as pc

CLAUSES = ['SrOnce', 'CloseAfterBody', 'WsgiCloseOnce', 'ClosedOnce', 'CreatedOnce', 'ReadBound',
           'TooLongRefused', 'WithinLimitRead', 'HeadersOk', 'ChunksBytes', 'ContentLength', 'NoEscape', 'FnAtMostOnce']
M1_INV = ['CreatedFirst', 'CreatedOnce', 'ClosedOnce', 'FnAtMostOnce', 'FnAfterCall', 'SrOnce',
          'CloseAfterBody', 'WsgiCloseOnce', 'NoFnOnInFault', 'BadReqIsClient', 'StatusTable',
          'NoEscape', 'ReadBound', 'TooLongRefused', 'WithinLimitRead', 'CountersAgree']


def pep3333(s):
    """Run the scenario's request under wsgiref.validate; -> None or the assertion text."""
    import io, sys
    from wsgiref.validate import validator
    from .. import drive_pipeline as dp
    log, state = [], {'ctx': None, 'fnOk': False}
    app = dp.build(s, log, state)
    env, body = dp.body_for(s)
    U = dp.UNIT
    from spyne.server.wsgi import WsgiApplication
    w = WsgiApplication(app, chunked=s['cfg']['chunked'], max_content_length=s['cfg']['maxlen'] * U,
                        block_length=s['cfg']['block'] * U)
    kind = s['req'].get('kind', 'rpc')
    env.update({'wsgi.url_scheme': 'http', 'SERVER_NAME': 'x', 'SERVER_PORT': '80',
                'wsgi.input': io.BytesIO(body), 'wsgi.version': (1, 0), 'wsgi.errors': io.StringIO(),
                'wsgi.multithread': False, 'wsgi.multiprocess': False, 'wsgi.run_once': False,
                'SCRIPT_NAME': '', 'SERVER_PROTOCOL': 'HTTP/1.1'})
    if kind != 'rpc':
        env.update(REQUEST_METHOD='GET', QUERY_STRING='wsdl', PATH_INFO='/')
        env.pop('CONTENT_TYPE', None)
    d = s['req']['declared']
    if kind == 'rpc':
        if d >= 0:
            env['CONTENT_LENGTH'] = str(d * U)
        elif d == -2:
            return None          # wsgiref.validate itself rejects CONTENT_LENGTH='' in environ checks
    v = validator(w)
    try:
        it = v(env, lambda st, h, e=None: (lambda b: None))
        n = 0
        if s['abort'] != 0:
            for c in it:
                n += 1
                if n == s['abort']:
                    break
        it.close()
    except AssertionError as e:
        return 'AssertionError: %s' % (e,)
    except Exception as e:
        if type(e).__name__ == 'Boom' and s['inj'].get('ser') == 'late' and s['cfg']['chunked']:
            # the producer of a lazily sent body failed after the status line was out: the failure is the server's to see
            # (SpynePipeline.BodyFails); the monitor has nothing to say about it
            return None
        return '%s' % type(e).__name__
    return None


def run(ctx):
    from .. import drive_pipeline as dp
    scenset = 'wsgiq' if ctx.quick else 'wsgi'
    sanity = [('CloseBeforeBody', 'CloseAfterBody'), ('NonChunkedStrJoin', 'NoEscape')]
    pc.check_design(ctx, scenset, M1_INV, sanity)
    scens = pc.export_scenarios(ctx, scenset)
    rnd = random.Random(ctx.seed)
    total = len(scens)
    recs = []
    for s in scens:
        s['units'] = True
        recs.append(dp.run(s))
    fails = pc.monitor(ctx, recs, CLAUSES)
    for i, cl in sorted(fails.items()):
        s = recs[i]['scen']
        key = '%s|%s|kind=%s|len=%s|declared=%s|max=%s|block=%s|chunked=%s|res=%s|abort=%s' % (
            '+'.join(sorted(cl)), pc.scen_key(s), s['req']['kind'], s['req']['len'], s['req']['declared'],
            s['cfg']['maxlen'], s['cfg']['block'], s['cfg']['chunked'], s['inj']['res'], s['abort'])
        ctx.violation(key, 'C13 clauses %s fail on the recorded history' % sorted(cl),
                      {'scenario': s, 'history': recs[i]['obs'], 'k': recs[i]['k']})
    acc = pc.conformance(ctx, recs, scenset)
    rej = [i for i in range(len(recs)) if i not in acc]
    if rej:
        ctx.notes.append('%d of %d histories are not behaviours of SpynePipeline (model drift, not a verdict); first: %s %s'
                         % (len(rej), len(recs), recs[rej[0]]['scen'], recs[rej[0]]['obs']))
    # PEP 3333 monitor of the standard library on a slice (quick) / everything (thorough)
    sub = scens if not ctx.quick else rnd.sample(scens, min(len(scens), 400))
    npep = 0
    for s in sub:
        msg = pep3333(s)
        npep += 1
        if msg:
            ctx.violation('pep3333|%s|%s' % (msg[:80], pc.scen_key(s)),
                          'wsgiref.validate rejects the exchange: %s' % msg, {'scenario': s})
    ctx.cov_add(traces_validated_against_impl=len(recs) - len(fails), scenarios=total,
                conformant_histories=len(acc), wsgiref_validate_runs=npep,
                evaluations=len(recs) + npep,
                distinct_nontrivial=len(set(json_key(r['scen']) for r in recs)),
                exhaustive=True,
                rule='every scenario of SpynePipeline.WsgiScenarios exported by TLC (body length x declared length x limit x '
                     'block x chunked x outcome x generator x ?wsdl x abort) driven once; distinct = distinct scenario records')
    ctx.sample({'scenario': recs[0]['scen'], 'history': recs[0]['obs']})
    mid = recs[len(recs) // 3]
    ctx.sample({'scenario': mid['scen'], 'history': mid['obs'], 'k': mid['k']})
    ctx.assumptions += ['TLC 1.8 and the modules SpynePipeline/PipelineProps', 'wsgiref.validate as a second PEP 3333 monitor',
                        'lengths are modelled in units of %d bytes' % dp.UNIT]


def json_key(s):
    import json
    return json.dumps(s, sort_keys=True)
