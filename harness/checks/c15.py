"""C15 - deriving a model never changes another model; field order is deterministic.

 M1  SpyneModel: every derivation/evolution history up to MaxOps over a pool
     (Integer, Unicode, class A, class B(A)): Frame (no operation changes the
     projection of a model it is not documented to change), DerivesOne, Requested,
     ParentsFirst.
 M2  spec -> code: every edge of the state graph (MaxOps = 2 quick / 3 thorough-sampled)
     is replayed on fresh real classes; after the step EVERY pooled model is projected
     (attributes, ordered flat fields with the attributes of each field's type) and
     compared with TLC's `view`.
 M3  code -> spec: longer pseudo-random histories are executed on real classes, each step
     logged with its arguments and the projection of every model, and validated by TLC
     against TraceModel (the same actions, view' = logged view).
 The replay runs in worker processes under different PYTHONHASHSEED values.
"""
import json, os, random, subprocess, sys
from .. import tlc, tlaval, pipeline_common as pc

KWD = _KWD0 = {'min1': {'min_occurs': 1}, 'nil0': {'nillable': False}, 'ge5': {'ge': 5}, 'len3': {'max_len': 3},
       'pk1': {'pk': True}, 'pk0': {'pk': False}, 'v03': {'values': ['', 'abc']}, 'v36': {'values': ['abc', 'abcdef']}}

def _pa(kw):
    # (a fresh literal every time, as user code writes it)
    from spyne.protocol.json import JsonDocument
    return {'paexc': {'pa': {JsonDocument: {'exc': True}}}, 'pasub': {'pa': {JsonDocument: {'sub_name': 'u'}}}}[kw]


class _Kwd(dict):
    def __missing__(self, k):
        return _pa(k)


KWD = _Kwd(_KWD0)
VALS = {(): 'none', ('', 'abc'): 'v03', ('abc', 'abcdef'): 'v36'}
NOGE, NOLEN, INF = -999, 999, 99


def fresh_pool():
    from spyne import Integer, Unicode, ComplexModel
    A = type('A', (ComplexModel,), {'__namespace__': 'tns', '_type_info': [('a', Integer), ('s', Unicode)]})
    B = type('B', (A,), {'__namespace__': 'tns', '_type_info': [('b', Integer)]})
    Mx1 = type('Mx1', (ComplexModel,), {'__namespace__': 'tns', '__mixin__': True, '_type_info': [('m1', Integer), ('m2', Unicode)]})
    Mx2 = type('Mx2', (ComplexModel,), {'__namespace__': 'tns', '__mixin__': True, '_type_info': [('n1', Integer)]})
    D = type('D', (Mx1, Mx2), {'__namespace__': 'tns', '_type_info': [('d', Integer)]})
    O = type('O', (ComplexModel,), {'__namespace__': 'tns', '_type_info': [('p', Integer), ('q', Unicode(order=0)), ('r', Integer(order=1)),
                                                                           ('t', Unicode(order=0))]})
    return [None, Integer, Unicode, A, B, D, O]       # 1-based


def attrs_of(c):
    a = c.Attributes
    from decimal import Decimal

    def num(v, inf):
        try:
            if v in (float('inf'), Decimal('inf')): return inf
            if v in (float('-inf'), Decimal('-inf')): return -inf
        except Exception:
            pass
        return int(v)
    return {'ge': num(getattr(a, 'ge', float('-inf')), 999) if hasattr(a, 'ge') else NOGE,
            'minlen': num(getattr(a, 'min_len', 0), 999), 'maxlen': num(getattr(a, 'max_len', float('inf')), NOLEN),
            'mino': num(a.min_occurs, INF), 'maxo': num(a.max_occurs, INF), 'nil': bool(a.nillable),
            'pk': {None: -1, True: 1, False: 0}.get(((getattr(a, 'sqla_column_args', None) or ((), {}))[-1]).get('primary_key'), -7),
            'vals': VALS.get(tuple(sorted(getattr(a, 'values', None) or ())), '?'), 'pa': pa_of(a)}


def pa_of(a):
    from spyne.protocol.json import JsonDocument
    t = getattr(a, 'prot_attrs', None) or {}
    d = dict(t.get(JsonDocument, None) or {})
    extra = sorted(str(k) for k in t.keys() if k is not JsonDocument)
    ks = sorted({'exc': 'exc', 'sub_name': 'sub'}.get(k, k) for k in d.keys()) + ['other:' + x for x in extra]
    return '+'.join(ks) if ks else 'none'


def base_of(c):
    from spyne import Integer, Unicode, Array, ComplexModelBase
    if issubclass(c, Array): return 'arr'
    if issubclass(c, ComplexModelBase): return 'cls'
    if issubclass(c, Integer): return 'int'
    if issubclass(c, Unicode): return 'str'
    return '?'


def norm_attrs(a, base):
    # attributes that do not exist for a kind are reported at their neutral value
    if base != 'int':
        a = dict(a, ge=NOGE)
    else:
        a = dict(a, ge=NOGE if a['ge'] <= -999 else a['ge'])
    if base != 'str':
        a = dict(a, minlen=0, maxlen=NOLEN, vals='none')
    if base not in ('int', 'str'):
        a = dict(a, pk=-1, pa='none')
    return a


def verdicts(c):
    b = base_of(c)
    try:
        if b == 'int':
            return [bool(c.validate_native(c, v)) for v in (-1, 5, 7)]
        if b == 'str':
            return [bool(c.validate_string(c, s) and c.validate_native(c, s)) for s in ('', 'abc', 'abcdef')]
    except Exception as e:
        return ['raises %s' % type(e).__name__]
    return []


def project(c):
    b = base_of(c)
    kind = 'prim' if b in ('int', 'str') else b
    out = {'kind': kind, 'base': b, 'attrs': norm_attrs(attrs_of(c), b), 'verd': verdicts(c), 'fields': []}
    if kind == 'arr':
        (k, v), = c._type_info.items()
        out['fields'] = [{'n': 'item', 'base': base_of(v), 'attrs': norm_attrs(attrs_of(v), base_of(v)), 'verd': verdicts(v)}]
    elif kind == 'cls':
        for k, v in c.get_flat_type_info(c).items():
            out['fields'].append({'n': k, 'base': base_of(v), 'attrs': norm_attrs(attrs_of(v), base_of(v)), 'verd': verdicts(v)})
    return out


def apply_op(pool, op):
    """op = (name, args...) with 1-based model ids; appends new models to pool."""
    from spyne import Array, Mandatory, ComplexModel
    name = op[0]
    if name == 'CustPrim':
        pool.append(pool[op[1]].customize(**KWD[op[2]]))
    elif name == 'CustProt':
        pool.append(pool[op[1]].customize(prot=form_protocol(), **(KWD[op[2]] if op[2] != 'none' else {})))
    elif name == 'Customize':
        pool.append(pool[op[1]].customize(**KWD[op[2]]))
    elif name == 'ChildAttrs':
        pool.append(pool[op[1]].customize(child_attrs={op[2]: KWD[op[3]]}))
    elif name == 'ChildAttrsAll':
        pool.append(pool[op[1]].customize(child_attrs_all=KWD[op[2]]))
    elif name == 'ArrayOf':
        pool.append(Array(pool[op[1]]))
    elif name == 'Mandatory':
        pool.append(Mandatory(pool[op[1]]))
    elif name == 'Subclass':
        pool.append(type('Sub%d' % len(pool), (pool[op[1]],), {'__namespace__': 'tns', '_type_info': [(op[2], pool[op[3]])]}))
    elif name == 'AppendField':
        pool[op[1]].append_field(op[2], pool[op[3]])
    elif name == 'InsertField':
        pool[op[1]].insert_field(0, op[2], pool[op[3]])
    elif name == 'Publish':
        # the model in the signature of a service of a NEW application (the interface names anonymous types in place)
        from spyne import Application, Service, srpc
        from spyne.protocol.soap import Soap11
        PUB[0] += 1
        k = PUB[0]

        def body():
            return None
        body.__name__ = str('pub%d' % k)
        svc = type(str('PubSvc%d' % k), (Service,), {body.__name__: srpc(_returns=pool[op[1]])(body)})
        Application([svc], 'tns', name='Pub%d' % k, in_protocol=Soap11(), out_protocol=Soap11())
    else:
        raise ValueError(op)


PUB = [0]
_FORM = []


def form_protocol():
    """ONE protocol object whose class declares type attributes of its own (they travel with every derivation made for it)"""
    if not _FORM:
        from spyne.protocol import ProtocolBase

        class FormProtocol(ProtocolBase):
            type_attrs = {'empty_is_none': True}
        _FORM.append(FormProtocol())
    return _FORM[0]


def names_of(pool):
    """type names of every pooled model and of its parts (item type of an array, member types of a class)"""
    out = []
    for c in pool[1:]:
        def tn(x):
            n = x.get_type_name()
            return n if isinstance(n, str) else ''
        names = [tn(c)]
        if base_of(c) == 'arr':
            (k, v), = c._type_info.items()
            names.append('%s:%s' % (k, tn(v)))
        out.append(names)
    return out


def view_of(pool):
    return [project(c) for c in pool[1:]]


def tla_view(v):
    """TLC's view (tuple of records) -> same shape as view_of()"""
    out = []
    for m in v:
        out.append({'kind': m['kind'], 'base': m['base'], 'attrs': dict(m['attrs']), 'verd': list(m['verd']),
                    'fields': [{'n': f['n'], 'base': f['base'], 'attrs': dict(f['attrs']), 'verd': list(f['verd'])} for f in m['fields']]})
    return out


def diff(real, want):
    for i, (r, w) in enumerate(zip(real, want)):
        if r != w:
            for k in ('kind', 'base', 'attrs', 'verd'):
                if r[k] != w[k]:
                    return i + 1, '%s: real %s, spec %s' % (k, r[k], w[k])
            rf = [(f['n']) for f in r['fields']]; wf = [(f['n']) for f in w['fields']]
            if rf != wf:
                return i + 1, 'field order/names: real %s, spec %s' % (rf, wf)
            for a, b in zip(r['fields'], w['fields']):
                if a != b:
                    return i + 1, 'field %s: real %s %s, spec %s %s' % (a['n'], a['base'], a['attrs'], b['base'], b['attrs'])
    if len(real) != len(want):
        return 0, 'pool size: real %d, spec %d' % (len(real), len(want))
    return None


def replay_worker(path_in, path_out):
    """Runs in a subprocess (own PYTHONHASHSEED): replays histories, writes mismatches."""
    from ..core import use_repo
    use_repo()
    jobs = json.load(open(path_in))
    out = []
    for ops, want in jobs:
        pool = fresh_pool()
        err = None
        try:
            for op in ops:
                apply_op(pool, tuple(op))
            real = view_of(pool)
        except Exception as e:
            err = '%s: %s' % (type(e).__name__, e)
            real = None
        if err:
            out.append({'ops': ops, 'error': err})
        else:
            d = diff(real, want)
            if d:
                out.append({'ops': ops, 'model': d[0], 'why': d[1]})
    json.dump(out, open(path_out, 'w'))


def random_worker(path_in, path_out):
    """Executes pseudo-random histories on real classes, logs op + full view per step."""
    from ..core import use_repo
    use_repo()
    seed, n, depth = json.load(open(path_in))
    rnd = random.Random(seed)
    traces = []
    for _ in range(n):
        pool = fresh_pool()
        names0 = names_of(pool)
        steps = []
        for _ in range(depth):
            op = pick_op(rnd, pool)
            if op is None:
                break
            try:
                apply_op(pool, op)
                steps.append({'op': [str(x) if not isinstance(x, int) else x for x in op], 'view': view_of(pool), 'names': names_of(pool)})
            except Exception as e:
                steps.append({'op': list(op), 'error': '%s: %s' % (type(e).__name__, e)})
                break
        traces.append({'steps': steps, 'names0': names0})
    json.dump(traces, open(path_out, 'w'))


def directed_histories():
    """Histories aimed at what publication may rename: two arrays (or an array and a Mandatory variant) over ONE type,
    each published in an application of its own, in both orders; classes and their variants published one after the other."""
    out = []
    N = len(fresh_pool())          # id of the first derived model
    for p, kw in ((1, 'ge5'), (1, 'min1'), (2, 'len3'), (2, 'nil0')):
        for order in ((N + 1, N + 2), (N + 2, N + 1)):
            out.append([('CustPrim', p, kw), ('ArrayOf', N), ('ArrayOf', N), ('Publish', order[0]), ('Publish', order[1])])
        out.append([('CustPrim', p, kw), ('ArrayOf', N), ('Publish', N + 1), ('ArrayOf', N), ('Publish', N + 2), ('Publish', N)])
        out.append([('CustPrim', p, kw), ('ArrayOf', N), ('Mandatory', N + 1), ('Publish', N + 2), ('ArrayOf', N), ('Publish', N + 3), ('Publish', N + 1)])
    # a variant that remembers child attributes for ALL fields and for one FUTURE field, then the class grows, then further variants
    for c in (3, 4, 5, 6):
        for t in (1, 2):
            out.append([('ChildAttrsAll', c, 'min1'), ('ChildAttrs', N, 'y', 'nil0'), ('AppendField', c, 'y', t), ('ChildAttrsAll', N + 1, 'nil0'),
                        ('Customize', N + 1, 'min1'), ('ChildAttrsAll', c, 'nil0')])
            out.append([('ChildAttrs', c, 'y', 'nil0'), ('ChildAttrsAll', N, 'min1'), ('InsertField', c, 'y', t), ('Customize', N + 1, 'nil0'),
                        ('ChildAttrsAll', N + 1, 'min1'), ('ChildAttrsAll', c, 'min1')])
            out.append([('ChildAttrsAll', c, 'nil0'), ('ChildAttrs', N, 'y', 'min1'), ('Customize', N + 1, 'min1'), ('AppendField', c, 'y', t),
                        ('ChildAttrsAll', N + 2, 'min1'), ('ChildAttrsAll', 3 if c != 3 else 4, 'min1')])
    for c in (3, 4, 5, 6):
        out.append([('ArrayOf', c), ('ArrayOf', c), ('Publish', N), ('Publish', N + 1)])
        out.append([('Customize', c, 'min1'), ('ArrayOf', N), ('ArrayOf', N), ('Publish', N + 2), ('Publish', N + 1), ('Publish', c)])
    return out


def directed_worker(path_in, path_out):
    from ..core import use_repo
    use_repo()
    traces = []
    for ops in json.load(open(path_in)):
        pool = fresh_pool()
        names0 = names_of(pool)
        steps = []
        for op in ops:
            op = tuple(op)
            try:
                apply_op(pool, op)
                steps.append({'op': list(op), 'view': view_of(pool), 'names': names_of(pool)})
            except Exception as e:
                steps.append({'op': list(op), 'error': '%s: %s' % (type(e).__name__, e)})
                break
        traces.append({'steps': steps, 'names0': names0})
    json.dump(traces, open(path_out, 'w'))


def pick_op(rnd, pool):
    """Mirror of the enabling conditions of SpyneModel (TLC rejects a trace whose step is not enabled)."""
    ids = list(range(1, len(pool)))
    cls_ids = [i for i in ids if base_of(pool[i]) == 'cls']
    prim_ids = [i for i in ids if base_of(pool[i]) in ('int', 'str')]
    allnames = set()
    for i in cls_ids:
        allnames |= set(pool[i].get_flat_type_info(pool[i]).keys())
    for _ in range(50):
        k = rnd.choice(['CustPrim', 'CustProt', 'Customize', 'ChildAttrs', 'ChildAttrsAll', 'ArrayOf', 'ArrayOf', 'Mandatory', 'Subclass',
                        'AppendField', 'InsertField', 'Publish', 'Publish'])
        if k == 'Publish':
            return (k, rnd.choice(ids))
        if k in ('CustPrim', 'CustProt'):
            i = rnd.choice(prim_ids)
            return (k, i, rnd.choice((['min1', 'nil0', 'ge5', 'pk1', 'pk0', 'paexc', 'pasub'] if base_of(pool[i]) == 'int' else ['min1', 'nil0', 'len3', 'pk1', 'pk0', 'v03', 'v36', 'paexc', 'pasub'])
                                     + (['none', 'none'] if k == 'CustProt' else [])))
        if k in ('Customize', 'ChildAttrsAll'):
            return (k, rnd.choice(cls_ids), rnd.choice(['min1', 'nil0']))
        if k == 'ChildAttrs':
            i = rnd.choice(cls_ids)
            fti = pool[i].get_flat_type_info(pool[i])
            if 'y' not in allnames and rnd.random() < 0.35:
                return (k, i, 'y', rnd.choice(['min1', 'nil0']))
            f = rnd.choice(list(fti.keys()))
            b = base_of(fti[f])
            return (k, i, f, rnd.choice({'int': ['min1', 'nil0', 'ge5'], 'str': ['min1', 'nil0', 'len3']}.get(b, ['min1', 'nil0'])))
        if k == 'ArrayOf':
            return (k, rnd.choice(prim_ids + cls_ids))
        if k == 'Mandatory':
            return (k, rnd.choice(ids))
        if k == 'Subclass':
            roots = [i for i in cls_ids if i in (3, 4, 5, 6) or pool[i].__name__.startswith('Sub')]
            i = rnd.choice(roots)
            if 'x' in pool[i].get_flat_type_info(pool[i]):
                continue
            return (k, i, 'x', rnd.choice([1, 2]))
        if k in ('AppendField', 'InsertField'):
            if 'y' in allnames:
                continue
            return (k, rnd.choice(cls_ids), 'y', rnd.choice([1, 2]))
    return None


def run_workers(ctx, func, inputs):
    """One subprocess per input, each under its own PYTHONHASHSEED."""
    procs = []
    for n, payload in enumerate(inputs):
        pi = os.path.join(ctx.work, '%s_in_%d.json' % (func, n)); po = os.path.join(ctx.work, '%s_out_%d.json' % (func, n))
        json.dump(payload, open(pi, 'w'))
        env = dict(os.environ, PYTHONHASHSEED=str((n * 7919 + 1) % 4294967295))
        code = 'import sys; sys.path.insert(0, %r); from harness.checks import c15; c15.%s(%r, %r)' % (
            os.path.dirname(os.path.dirname(os.path.dirname(os.path.abspath(__file__)))), func, pi, po)
        procs.append((subprocess.Popen([sys.executable, '-c', code], env=env, stdout=subprocess.PIPE, stderr=subprocess.STDOUT), po))
    outs = []
    for p, po in procs:
        o, _ = p.communicate()
        if p.returncode != 0:
            raise tlc.TlcError('replay worker failed:\n' + o.decode('utf8', 'replace')[-2000:])
        outs.append(json.load(open(po)))
    return outs


def op_key(ops):
    return '>'.join(o[0] for o in ops)


def run(ctx):
    maxops = 2
    cfg = pc.write_cfg(os.path.join(ctx.work, 'mcmodel.cfg'), [
        'SPECIFICATION Spec', 'CONSTANT MaxOps = %d' % maxops, 'INVARIANT ParentsFirst', 'PROPERTY Frame',
        'PROPERTY DerivesOne', 'PROPERTY Requested', 'CHECK_DEADLOCK FALSE'])
    dump = os.path.join(ctx.work, 'modelgraph')
    r = tlc.run('SpyneModel', cfg, ctx.work, workers=8, dump=dump, timeout=1200)
    if not r.ok:
        raise tlc.TlcError('SpyneModel design violated: %s\n%s' % (r.violated, r.stdout[-2000:]))
    ctx.cov_add(states=r.distinct, transitions=r.generated)
    if not ctx.quick:
        cfg3 = pc.write_cfg(os.path.join(ctx.work, 'mcmodel3.cfg'), [
            'SPECIFICATION Spec', 'CONSTANT MaxOps = 3', 'INVARIANT ParentsFirst', 'PROPERTY Frame',
            'PROPERTY DerivesOne', 'PROPERTY Requested', 'CHECK_DEADLOCK FALSE'])
        r3 = tlc.run('SpyneModel', cfg3, ctx.work, workers=16, timeout=3000, big=True)
        if not r3.ok:
            raise tlc.TlcError('SpyneModel (3 ops) violated: %s' % r3.violated)
        ctx.cov_add(states=r3.distinct, transitions=r3.generated)
    nodes, edges, init = tlaval.read_dot(dump + '.dot')
    # path of ops to every node from the `last` labels along the BFS tree
    parent = {init: None}
    from collections import deque
    adj = {}
    for a, b, l in edges:
        adj.setdefault(a, []).append(b)
    q = deque([init])
    while q:
        a = q.popleft()
        for b in adj.get(a, []):
            if b not in parent:
                parent[b] = a
                q.append(b)

    def ops_to(nid):
        ops = []
        while parent[nid] is not None:
            ops.append(list(nodes[nid]['last']))
            nid = parent[nid]
        return list(reversed(ops))
    jobs = []
    for nid in nodes:
        if nid == init:
            continue
        jobs.append((ops_to(nid), tla_view(nodes[nid]['view'])))
    jobs.sort(key=lambda j: json.dumps(j[0]))
    if ctx.quick:
        # every one-step history; a third of the two-step ones, rotating with the seed (the thorough tier replays all)
        jobs = [j for k, j in enumerate(jobs) if len(j[0]) < 2 or (k + ctx.seed) % 3 == 0]
    nproc = 8
    outs = run_workers(ctx, 'replay_worker', [jobs[i::nproc] for i in range(nproc)])
    nmis = 0
    for out in outs:
        for m in out:
            nmis += 1
            ops = m['ops']
            if 'error' in m:
                ctx.violation('history-raises|%s|%s' % (op_key(ops), m['error'].split(':')[0]),
                              'history %s raises %s' % (ops, m['error']), m)
            else:
                ctx.violation('projection|%s|model=%s|%s' % (op_key(ops), m['model'], m['why'].split(':')[0]),
                              'after %s model %s differs from SpyneModel: %s' % (ops, m['model'], m['why']), m)
    # ---- code -> spec: random deeper histories validated by TLC
    depth, per = (6, 250) if ctx.quick else (7, 1500)
    outs = run_workers(ctx, 'random_worker', [[ctx.seed * 1000 + i, per, depth] for i in range(nproc)])
    traces = [t for out in outs for t in out]
    dh = directed_histories()
    traces += [t for out in run_workers(ctx, 'directed_worker', [dh[0::2], dh[1::2]]) for t in out]
    tf = os.path.join(ctx.work, 'model_traces.ndjson')
    with open(tf, 'w') as f:
        for t in traces:
            f.write(json.dumps(t) + '\n')
    traces = [t['steps'] for t in traces]
    cfgt = pc.write_cfg(os.path.join(ctx.work, 'tracemodel.cfg'), ['SPECIFICATION TSpec', 'CONSTANT MaxOps = 99',
                        'CONSTRAINT Report', 'CHECK_DEADLOCK FALSE'])
    rt = tlc.run('TraceModel', cfgt, ctx.work, env={'TRACE_FILE': tf}, timeout=1800)
    acc = set(p[1] for p in rt.prints if p and p[0] == 'ACCEPT')
    at = {}
    for p in rt.prints:
        if p and p[0] == 'AT':
            at[p[1]] = max(at.get(p[1], 0), p[2])
    for i, t in enumerate(traces):
        if (i + 1) in acc:
            continue
        k = at.get(i + 1, 1)
        ops = [s['op'] for s in t[:k]]
        bad = t[k - 1] if k - 1 < len(t) else {}
        if 'error' in bad:
            ctx.violation('history-raises|%s|%s' % (op_key(ops), bad['error'].split(':')[0]), 'history %s raises %s' % (ops, bad['error']), {'ops': ops})
        else:
            ctx.violation('trace-rejected|%s' % op_key(ops),
                          'TLC rejects the recorded history at step %d (%s): the real projections after it are not what SpyneModel allows' % (k, ops[-1] if ops else '?'),
                          {'ops': ops, 'view_after': bad.get('view')})
    ctx.cov_add(traces_validated_against_impl=len(acc) + len(jobs) - nmis, graph_nodes_replayed=len(jobs), random_histories=len(traces),
                random_histories_accepted=len(acc), evaluations=len(jobs) + len(traces),
                distinct_nontrivial=len(jobs) + len(set(json.dumps([s['op'] for s in t]) for t in traces)), exhaustive=False,
                hash_seeds=nproc,
                rule='every state of SpyneModel up to %d operations replayed from scratch (distinct histories); plus %d pseudo-random '
                     'histories of depth %d; 8 worker processes with distinct PYTHONHASHSEED' % (maxops, len(traces), depth))
    ctx.sample({'history': jobs[len(jobs) // 2][0]})
    ctx.sample({'random_history': [s['op'] for s in traces[0]]})
