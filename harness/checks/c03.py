"""C03 - HttpRpc flat key/value fidelity.

 M1  SpyneFlatIdx: the sparse -> contiguous index bookkeeping as a state machine over every arrival order of
     the wire indexes {0, 1, 2, 10, 11}; invariants RankInv / OrderInv / MapInv; the AppendNew deviation shows
     OrderInv is not vacuous.  M2: every edge of its state graph is replayed on the real `_s2cmi`.
 M4  SpyneFlat.FlatCases (signature templates + shapes three levels deep with arrays inside arrays of objects,
     repeated object members, repeated primitives) x hier_delim {., /, :} x index choice {contiguous, sparse -
     2, 10, 11, .. whose string order is not their numeric order} x pair order {asc, desc, rot, zip}
     x strict_arrays x validator {None, soft} x {query string, form body}.
 M3  every request is real (GET /f?... or POST form through WsgiApplication); TLC (TraceFlat) checks that the
     pairs sent ARE Pairs(case, cfg) of the spec (ReqIsSpec), that the order is a permutation of the canonical
     sequence, and Delivered (called once, equal values, every array in index order).  Conversely: Spyne's own
     object_to_simple_dict of the value is the canonical bag (OwnFlatIsSpec) and simple_dict_to_object reads
     it back (OwnFlatReadsBack); a primitive return value through an HttpRpc out protocol is its exact text
     (bytes for binary data) and the declared out header travels as HTTP headers (ExactText, HeadersSent).
"""
import base64, json, os
from .. import tlc, tlaval, pipeline_common as pc, flat as F, sigcases as S, enc as E
from . import c01

DELIMS = ('.', '/', ':')


def replay_idx(ctx):
    from spyne.protocol.dictdoc.simple import _s2cmi
    r = tlc.run('SpyneFlatIdx', 'MCFlatIdx.cfg', ctx.work, workers=4)
    if not r.ok:
        raise tlc.TlcError('SpyneFlatIdx: %s violated in the design model' % r.violated)
    rd = tlc.run('SpyneFlatIdx', 'MCFlatIdxDev.cfg', ctx.work, workers=4)
    if rd.violated != 'OrderInv':
        raise tlc.TlcError('SpyneFlatIdx: AppendNew deviation not detected')
    dump = os.path.join(ctx.work, 'flatidx')
    tlc.run('SpyneFlatIdx', 'MCFlatIdx.cfg', ctx.work, workers=1, dump=dump)
    nodes, edges, init = tlaval.read_dot(dump + '.dot')
    from collections import deque, defaultdict
    adj = defaultdict(list)
    for a, b, l in edges:
        adj[a].append(b)
    path = {init: [init]}
    q = deque([init])
    while q:
        a = q.popleft()
        for b in adj[a]:
            if b not in path:
                path[b] = path[a] + [b]
                q.append(b)
    nrep = 0
    for a, b, l in edges:
        if a == b:
            continue
        seq = path[a] + [b]
        m, lst = {}, []
        for n in seq[1:]:
            st = nodes[n]
            kind, i, k = st['act']
            if kind == 'new':
                cidx = _s2cmi(m, i)
                lst.insert(cidx, i)
            else:
                cidx = m.get(i)
            want_m = {int(x): y for x, y in st['m'].items()} if isinstance(st['m'], dict) else {j + 1: y for j, y in enumerate(st['m'])}
            ok = cidx == k and lst == list(st['lst']) and m == want_m
            if not ok:
                ctx.violation('IndexBookkeeping|%s|i=%s' % (kind, i),
                              '_s2cmi diverges from SpyneFlatIdx after %s: got position %s map %s list %s, spec position %s map %s list %s' % (
                                  [nodes[x]['act'] for x in seq[1:]], cidx, m, lst, k, want_m, list(st['lst'])), {'steps': [list(nodes[x]['act']) for x in seq[1:]]})
                break
        nrep += 1
    ctx.cov_add(states=r.distinct, transitions=r.generated, behaviours_replayed=nrep)
    return nrep


def plan(cases, quick, seed):
    jobs = []
    for i, c in enumerate(cases):
        if quick and c['id'] == 'T2' and (i + seed) % 12 != 0:
            continue
        if quick and c['id'] == 'T1' and (i + seed) % 3 != 0:
            continue
        n = 0
        for delim in DELIMS:
            for idx in ('contig', 'sparse'):
                for order in ('asc', 'desc', 'rot', 'zip'):
                    for strict in (False, True):
                        if strict and idx == 'sparse':
                            continue          # strict arrays ask for contiguous indexes
                        for validator in (None, 'soft'):
                            n += 1
                            heavy = c['id'] in ('F3', 'T4')
                            if quick and (i + n + seed) % (2 if heavy else 6) != 0:
                                continue
                            jobs.append((i, dict(delim=delim, idx=idx, order=order, strict=strict), validator, False))   # (form bodies need werkzeug, which is not installed here)
    return jobs


def flat_class(c):
    return c01.sig_class(c)


_CASES = None


def _world(worlds, c, cfg, validator, **kw):
    key = (json.dumps([c['args'], c['rets']], sort_keys=True), cfg['delim'], cfg.get('strict', False), validator, json.dumps(kw, sort_keys=True))
    w = worlds.get(key)
    if w is None:
        if len(worlds) > 400:
            worlds.clear()
        w = worlds[key] = F.World(c, cfg, validator, **kw)
    return w


def _req_chunk(jobs):
    """the request exchanges of one chunk of jobs (one worker process; applications are cached per signature)"""
    worlds = {}
    recs = []
    for (i, cfg, validator, form) in jobs:
        c = _CASES[i]
        try:
            w = _world(worlds, c, cfg, validator)
            pairs = F.request_pairs(c, cfg)
            res = w.send(c, pairs, form=form)
            obs = {'pairs': [list(p) for p in pairs], 'ncalls': len(w.seen), 'args': w.delivered(c)}
            info = {'query': F.query(pairs)[:500], 'status': res['status'], 'escape': res['escape'], 'response': res['body'][:200].decode('utf8', 'replace')}
        except Exception as e:
            obs = {'pairs': [], 'ncalls': 0, 'args': [['leaf', '?driver'] for _ in c['args']]}
            info = {'escape': 'driver: %s: %s' % (type(e).__name__, e)}
        recs.append({'kind': 'req', 'i': i, 'cfg': cfg, 'validator': validator, 'form': form, 'obs': obs, 'info': info})
    return recs


def run(ctx):
    nrep = replay_idx(ctx)
    d = F.export(ctx)
    cases = d['cases']
    jobs = plan(cases, ctx.quick, ctx.seed)
    global _CASES
    import multiprocessing
    _CASES = cases
    recs = []
    worlds = {}

    def world(c, cfg, validator, **kw):
        return _world(worlds, c, cfg, validator, **kw)
    # (the jobs of one signature stay together: one application per signature and configuration; the exchanges run in a pool)
    jobs.sort(key=lambda j: (json.dumps([cases[j[0]]['args'], cases[j[0]]['rets']], sort_keys=True), j[1]['delim'], j[1]['strict'], str(j[2])))
    nproc = 12
    size = max(1, (len(jobs) + nproc * 4 - 1) // (nproc * 4))
    chunks = [jobs[a:a + size] for a in range(0, len(jobs), size)]
    with multiprocessing.get_context('fork').Pool(nproc) as pool:
        for part in pool.map(_req_chunk, chunks):
            for r in part:
                r['c'] = cases[r.pop('i')]
                recs.append(r)
    # ---- Spyne's own flat form of every value, and back
    for i, c in enumerate(cases):
        if ctx.quick and c['id'] == 'T2' and (i + ctx.seed) % 12 != 0:
            continue
        # (shared: equal object values are ONE instance referenced from several places - a DAG, which is not a cycle)
        for delim, shared in [(dl, sh) for dl in (DELIMS if not ctx.quick else DELIMS[(i % 3):(i % 3) + 1]) for sh in ((False, True) if c['id'] == 'F3' else (False,))]:
            cfg = dict(delim=delim, idx='contig', order='asc', strict=False)
            memo = {} if shared else None
            try:
                w = world(c, cfg, None)
                mcls = w.app.interface.service_method_map['{%s}%s' % (c['tns'], c['method'])][0].in_message
                inst = mcls()
                for f, v in zip(c['args'], c['vals']):
                    setattr(inst, f['n'], S.to_instance(w.gen, f['t'], v, memo=memo))
                doc = w.inp.object_to_simple_dict(mcls, inst)
                own = []
                back_doc = {}
                for k, v in doc.items():
                    # a repeated primitive is a list of values (a ByteArray value itself is a list of byte strings)
                    vs = v if isinstance(v, list) and not (v and all(isinstance(y, (bytes, bytearray)) for y in v)) else [v]
                    back_doc[k] = [F.flat_text(x) for x in vs]
                    own.extend([k, x] for x in back_doc[k])
                back = w.inp.simple_dict_to_object(None, back_doc, mcls, None)
                backv = [S.from_native(f['t'], getattr(back, f['n'], None), repeated=f['max'] > 1) for f in c['args']]
                obs = {'own': own, 'back': backv}
                info = {'own': own[:30]}
            except Exception as e:
                obs = {'own': [['?', '%s: %s' % (type(e).__name__, e)]], 'back': [['leaf', '?raises'] for _ in c['args']]}
                info = {'escape': '%s: %s' % (type(e).__name__, e)}
            recs.append({'kind': 'o2d', 'c': c, 'cfg': cfg, 'validator': None, 'form': False, 'obs': obs, 'info': dict(info, shared=shared)})
    # ---- primitive return values through an HttpRpc out protocol, with a declared out header
    for i, c in enumerate(d['retcases']):
        cfg = dict(delim='.', idx='contig', order='asc', strict=False)
        t = c['rets'][0]
        try:
            w = world(c, cfg, 'soft', out='http', headers=True)
            v = S.to_instance(w.gen, t, c['rvals'][0])
            w.holder[0] = v
            import datetime, pytz
            # (an instant given in a zone east of Greenwich: HTTP dates are always GMT)
            w.holder[1] = [w.hcls(**{'X-Count': 5, 'X-Tag': 'abc', 'Expires': datetime.datetime(2013, 1, 1, 1, 30, 0, tzinfo=pytz.FixedOffset(120))})]
            res = w.send(c, F.request_pairs(c, cfg))
            body = res['body']
            text = base64.b64encode(body).decode() if t['p'] == 'ByteArray' else body.decode('utf8', 'replace')
            obs = {'status': res['status'], 'body': text, 'headers': [[k, str(x)] for k, x in res['headers']], 'want_headers': [['X-Count', '5'], ['X-Tag', 'abc'], ['Expires', 'Mon, 31 Dec 2012 23:30:00 GMT']]}
            info = {'status': res['status'], 'body': text[:100], 'headers': obs['headers'], 'escape': res['escape']}
        except Exception as e:
            obs = {'status': -1, 'body': '?driver', 'headers': [], 'want_headers': []}
            info = {'escape': 'driver: %s: %s' % (type(e).__name__, e)}
        recs.append({'kind': 'ret', 'c': c, 'cfg': cfg, 'validator': 'soft', 'form': False, 'obs': obs, 'info': info})
    res = tlc.validate_records('TraceFlat', ['INIT Init', 'NEXT Next', 'CONSTRAINT Report', 'CHECK_DEADLOCK FALSE'], ctx.work,
                               [{'kind': r['kind'], 'c': r['c'], 'cfg': r['cfg'], 'obs': r['obs']} for r in recs], chunk=6000, parallel=6, tag='flat')
    seen = {k + 1: set(v[0]) for k, v in res.items()}
    nbad = 0
    for k, r in enumerate(recs):
        cl = seen[k + 1]
        if not cl:
            continue
        nbad += 1
        c, cfg = r['c'], r['cfg']
        val = c['rvals'][0][1] if r['kind'] == 'ret' else ''
        ctx.violation('%s|%s|%s%s|delim=%s,idx=%s,order=%s,strict=%s|val=%s%s' % (
            '+'.join(sorted(cl)), r['kind'], flat_class(c), '|value=%s' % val if r['kind'] == 'ret' else '', cfg['delim'], cfg['idx'], cfg['order'], cfg['strict'],
            r['validator'], '|form' if r['form'] else ''),
            '%s: %s %s under %s validator=%s: %s' % (sorted(cl), r['kind'], flat_class(c), cfg, r['validator'], json.dumps(r['info'])[:500]),
            {'case': c, 'cfg': cfg, 'validator': r['validator'], 'form': r['form'], 'info': r['info'], 'delivered': r['obs'].get('args') or r['obs'].get('back')})
    ctx.level = 'exploration'
    ctx.cov_add(traces_validated_against_impl=len(recs) - nbad, evaluations=len(recs) + nrep, cases=len(cases), requests=len(jobs),
                distinct_nontrivial=len(recs) + nrep, exhaustive=not ctx.quick,
                rule='each record is a distinct (case, delimiter, index choice, pair order, strict_arrays, validator, transport form) tuple, '
                     'an own-flat-form round trip of a distinct case, or a distinct return value; plus one replay per edge of the SpyneFlatIdx graph')
    ctx.sample({'case': flat_class(recs[0]['c']), 'cfg': recs[0]['cfg'], 'query': recs[0]['info'].get('query')})
    j = len(jobs) // 2
    ctx.sample({'case': flat_class(recs[j]['c']), 'cfg': recs[j]['cfg'], 'query': recs[j]['info'].get('query')})
