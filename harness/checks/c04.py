"""C04 - user code only ever receives values of the declared types.

 M4  SpyneMutate.Mutants: a valid request of the fixed zoo application, mutated at one position by one
     type-directed operator (xsi:type retagged with every class of the interface, XSD builtins and unknown
     names; hostile leaf texts - attribute names of the model classes; structure where a leaf is declared and
     text where a structure is; every JSON value kind where another is declared; wrapper keys renamed;
     flat keys respelled).
 M3  every mutant is sent to a long-lived server (all mutants of a configuration go through ONE application,
     in exported order and then in reverse, so that consecutive requests can interfere) for
     XmlDocument / Soap11 / Soap12 x validator {None, soft, lxml} x polymorphic on / off,
     JSON / YAML / MessagePack x soft (plain and wrapper documents, polymorphic on / off) and HttpRpc x soft;
     the driver reports the SHAPE of every delivered value; TLC (TraceMutate) evaluates
     Called (ran once, every value Conforms to the declared type) or Refused (not run, Client fault).
"""
import json, os
from .. import tlc, pipeline_common as pc, zoo as Z, enc as E, dictdoc as D


def configs(quick):
    out = []
    for fam in ('xml', 'soap11', 'soap12'):
        for v in (None, 'soft', 'lxml'):
            for poly in (False, True):
                out.append(dict(group='xml', fam=fam, validator=v, poly=poly))
    for fam in ('json', 'yaml', 'msgpack'):
        out.append(dict(group='dict', fam=fam, validator='soft', poly=False))
        for poly in (False, True):
            out.append(dict(group='wrap', fam=fam, validator='soft', poly=poly))
    out.append(dict(group='flat', fam='http', validator='soft', poly=False))
    return out


def server(table, cfg):
    from spyne.protocol.xml import XmlDocument
    from spyne.protocol.soap import Soap11, Soap12
    from spyne.protocol.http import HttpRpc
    from spyne.protocol.json import JsonDocument
    g = cfg['group']
    if g == 'xml':
        P = {'xml': XmlDocument, 'soap11': Soap11, 'soap12': Soap12}[cfg['fam']]
        inp, outp = P(validator=cfg['validator'], polymorphic=cfg['poly']), P(polymorphic=cfg['poly'])
    elif g == 'flat':
        inp, outp = HttpRpc(validator=cfg['validator']), JsonDocument()
    else:
        kw = dict(ignore_wrappers=(g == 'dict'), polymorphic=cfg['poly'])
        inp, outp = D.protocol(cfg['fam'], validator=cfg['validator'], **kw), D.protocol(cfg['fam'], **kw)
    return Z.build(table, inp, outp)


def send(table, cfg, srv, m):
    wsgi, seen, classes, Color, gseen, hdrs = srv
    g = cfg['group']
    del seen[:]
    del hdrs[:]
    if g == 'xml':
        body, hdr = Z.xml_request(table, m, header=cfg['fam'] != 'xml')
        if cfg['fam'] != 'xml':
            body = '<e:Envelope xmlns:e="%s"><e:Header>%s</e:Header><e:Body>%s</e:Body></e:Envelope>' % (
                E.E11 if cfg['fam'] == 'soap11' else E.E12, hdr, body)
        body = body.encode('utf8')
        env = {'REQUEST_METHOD': 'POST', 'PATH_INFO': '/', 'QUERY_STRING': '',
               'CONTENT_TYPE': 'application/soap+xml; charset=utf-8' if cfg['fam'] == 'soap12' else 'text/xml; charset=utf-8'}
        fam = cfg['fam']
    elif g == 'flat':
        q = Z.flat_request(table, m)
        body = b''
        env = {'REQUEST_METHOD': 'GET', 'PATH_INFO': '/f', 'QUERY_STRING': q}
        fam = 'http'
    else:
        doc = Z.dict_request(table, m, wrappers=(g == 'wrap'), binary=cfg['fam'].startswith('msgpack'))
        body = D.dumps(cfg['fam'], doc)
        env = {'REQUEST_METHOD': 'POST', 'PATH_INFO': '/', 'QUERY_STRING': '', 'CONTENT_TYPE': D.CT[cfg['fam']]}
        fam = cfg['fam']
    res = E.send(wsgi, env, body)
    code = None if res['escape'] else E.fault_code(fam, res)
    fault = bool(code is not None or (res['status'] or 0) >= 400)
    obs = {'ncalls': len(seen), 'args': [Z.shape(x, Color) for x in seen[0]] if seen else [], 'hdr': Z.shape(hdrs[0], Color) if hdrs else ['nil'], 'fault': fault,
           'client': bool(code) and (code == 'Client' or code.startswith('Client.')), 'escape': bool(res['escape'])}
    info = {'request': (env.get('QUERY_STRING') or body[:700].decode('utf8', 'replace')), 'status': res['status'], 'code': code,
            'escape': res['escape'], 'response': res['body'][:300].decode('utf8', 'replace')}
    return obs, info


def prime(cfg, srv):
    wsgi, seen, classes, Color, gseen, hdrs = srv
    body = Z.xml_prime()
    if cfg['fam'] != 'xml':
        body = '<e:Envelope xmlns:e="%s"><e:Body>%s</e:Body></e:Envelope>' % (E.E11 if cfg['fam'] == 'soap11' else E.E12, body)
    del gseen[:]
    E.send(wsgi, {'REQUEST_METHOD': 'POST', 'PATH_INFO': '/', 'QUERY_STRING': '',
                  'CONTENT_TYPE': 'application/soap+xml; charset=utf-8' if cfg['fam'] == 'soap12' else 'text/xml; charset=utf-8'}, body.encode('utf8'))
    return len(gseen) == 1 and type(gseen[0]) is classes[('urn:app', 'Circle')]


def mutant_class(m):
    t = m['pos']['t']
    tn = t.get('p') or t.get('name') or ('%s(%s)' % ('Attr' if t['k'] == 'attr' else 'Array', t['of'].get('p') or t['of'].get('name')))
    return '%s|at=%s:%s|%s' % (m['op'], '.'.join(m['pos']['path']), tn, ':'.join(a for a in m['arg'] if a))


def run(ctx):
    table = Z.export(ctx)
    recs = []
    for cfg in configs(ctx.quick):
        srv = server(table, cfg)
        ms = [m for m in table['mutants'] if m['fam'] == cfg['group']]
        if cfg['fam'] == 'xml':
            ms = [m for m in ms if m['pos']['path'][0] != '@hdr']          # XmlDocument has no envelope, hence no header
        if cfg['group'] == 'dict' and cfg['fam'] != 'yaml':
            ms = [m for m in ms if m['arg'][0] not in Z.YAML_ONLY]         # kinds only YAML can spell
        if cfg['group'] == 'xml' and ctx.quick and cfg['validator'] == 'lxml' and not cfg['poly']:
            ms = ms[ctx.seed % 2::2]
        # the valid request first: it must be accepted by every configuration
        obs, info = send(table, cfg, srv, None)
        recs.append({'cfg': cfg, 'm': None, 'obs': obs, 'info': info, 'order': 'valid'})
        for order, seq in (('forward', ms), ('reverse', list(reversed(ms)))):
            if order == 'reverse' and cfg['group'] != 'xml':
                continue
            if cfg['group'] == 'xml':
                ok = prime(cfg, srv)
                if not ok:
                    ctx.violation('ValidRequestNotDelivered|prime|%s' % json.dumps(cfg, sort_keys=True),
                                  'the valid request of g with an identity xsi:type marker is not delivered under %s' % cfg, {'cfg': cfg})
            for m in seq:
                obs, info = send(table, cfg, srv, m)
                recs.append({'cfg': cfg, 'm': m, 'obs': obs, 'info': info, 'order': order})
    tf = os.path.join(ctx.work, 'mutant_traces.ndjson')
    with open(tf, 'w') as f:
        for r in recs:
            f.write(json.dumps({'obs': r['obs']}) + '\n')
    cfgt = pc.write_cfg(os.path.join(ctx.work, 'tracemut.cfg'), ['INIT Init', 'NEXT Next', 'CONSTRAINT Report', 'CHECK_DEADLOCK FALSE'])
    rt = tlc.run('TraceMutate', cfgt, ctx.work, env={'TRACE_FILE': tf}, timeout=1800, workers=4)
    seen = {}
    for p in rt.prints:
        if p and p[0] == 'V':
            seen[p[1]] = set(p[2])
    if len(seen) != len(recs):
        raise tlc.TlcError('TraceMutate evaluated %d of %d\n%s' % (len(seen), len(recs), rt.stdout[-2000:]))
    nbad = 0
    for i, r in enumerate(recs):
        cl = seen[i + 1]
        if r['m'] is None:
            if r['obs']['ncalls'] != 1 or cl:
                nbad += 1
                ctx.violation('ValidRequestNotDelivered|%s' % json.dumps(r['cfg'], sort_keys=True),
                              'the unmutated request is not delivered as declared under %s: %s' % (r['cfg'], r['info']), {'cfg': r['cfg'], 'info': r['info'], 'obs': r['obs']})
            continue
        if not cl:
            continue
        nbad += 1
        c = r['cfg']
        ctx.violation('%s|%s|%s|fam=%s|val=%s|poly=%s%s' % ('+'.join(sorted(cl)), c['group'], mutant_class(r['m']), c['fam'], c['validator'], c['poly'],
                                                         '' if r['order'] == 'forward' else '|after-other-requests'),
                      '%s: mutant %s under %s: ncalls=%s code=%s delivered=%s request=%s' % (
                          sorted(cl), mutant_class(r['m']), c, r['obs']['ncalls'], r['info']['code'], json.dumps(r['obs']['args'])[:300], r['info']['request'][:300]),
                      {'cfg': c, 'mutant': r['m'], 'order': r['order'], 'observation': r['obs'], 'info': r['info']})
    ctx.level = 'exploration'
    ncalled = sum(1 for r in recs if r['obs']['ncalls'] == 1)
    ctx.cov_add(traces_validated_against_impl=len(recs) - nbad, evaluations=len(recs), mutants=len(table['mutants']), configurations=len(configs(ctx.quick)),
                delivered=ncalled, refused=len(recs) - ncalled, distinct_nontrivial=len(recs), exhaustive=not ctx.quick,
                rule='each request is a distinct (mutant, configuration, order) tuple; mutants are the members of SpyneMutate.Mutants')
    ctx.sample({'mutant': mutant_class(recs[1]['m']), 'cfg': recs[1]['cfg'], 'request': recs[1]['info']['request'][:400], 'observation': recs[1]['obs']})
    j = len(recs) // 2
    ctx.sample({'mutant': mutant_class(recs[j]['m']) if recs[j]['m'] else 'valid', 'cfg': recs[j]['cfg'], 'request': recs[j]['info']['request'][:400], 'observation': recs[j]['obs']})
