"""C07 - WSDL/XSD are well-formed, closed, deterministic and drive a foreign client.

 M4  SpyneWsdl.Apps: applications assembled from a pool of method shapes (custom operation / message names, SOAP
     headers from two namespaces, declared faults - one with a namespace of its own -, bare / out_bare styles, foreign
     namespace arguments, port types) over one or two services (193 applications).
 M3  each application is built for real; the structure of its WSDL document (messages, parts, portType and binding
     operations, faults, headers, every QName reference) is extracted and TLC (TraceWsdlDoc over SpyneWsdl) checks per
     method OpOnce / InDeclaredPort / MessagesMatch / FaultsDeclared / HeadersDeclared / ZeepDrives and per document
     Closed / NoStrayOps / Deterministic.  Determinism: the documents are rebuilt twice in each of several fresh
     processes with different PYTHONHASHSEED values and compared byte for byte (sha256).  ZeepDrives: a zeep client
     generated from the served WSDL alone calls every method (with headers where declared) against the real server
     (validator=lxml) and must decode the value returned.
"""
import json, os, subprocess, sys
from .. import tlc, pipeline_common as pc, wsdlworld as W, core


def app_class(a):
    return '+'.join('%s(%s)' % (s['cls'], ','.join(sorted(m['name'] for m in s['methods']))) for s in a['services'])


def run(ctx):
    out = os.path.join(ctx.work, 'wsdl_apps.json')
    cfg = pc.write_cfg(os.path.join(ctx.work, 'expw.cfg'), ['INIT Init', 'NEXT Next', 'CHECK_DEADLOCK FALSE'])
    tlc.run('ExportWsdl', cfg, ctx.work, env={'OUT_FILE': out, 'FAMILY': ctx.tier})
    apps = json.load(open(out))
    apps.sort(key=lambda a: json.dumps(a, sort_keys=True))
    if ctx.quick:
        apps = [a for i, a in enumerate(apps) if len(a['services']) > 1 or sum(len(s['methods']) for s in a['services']) != 2 or (i + ctx.seed) % 3 == 0]
    json.dump(apps, open(out, 'w'))
    # ---- determinism: fresh processes, different hash seeds
    seeds = ['0', '1', '12345'] if ctx.quick else ['0', '1', '2', '12345', '987654321', 'random']
    digs = []
    procs = []
    for sd in seeds:
        env = dict(os.environ, PYTHONHASHSEED=sd)
        procs.append(subprocess.Popen([sys.executable, '-m', 'harness.wsdlworld', out], cwd=core.VERIF, env=env, stdout=subprocess.PIPE, stderr=subprocess.PIPE))
    for p in procs:
        o, e = p.communicate(timeout=1800)
        if p.returncode != 0:
            raise tlc.TlcError('wsdl digest child failed: %s' % e.decode('utf8', 'replace')[-1500:])
        digs.append(json.loads(o.decode().strip().splitlines()[-1]))
    recs = []
    for i, a in enumerate(apps):
        fam = 'soap11' if i % 3 else 'soap12'
        first_digest = None
        try:
            w, seen, classes = W.build(a, 'soap11')
            doc = W.wsdl(w)
            per, d = W.analyze(doc, a)
            z = W.zeep_call(w, seen, a, classes)
            # the first document of a fresh application that no schema validator has prepared
            import hashlib
            w0, _, _ = W.build(a, 'soap11', validator=None)
            doc0 = W.wsdl(w0)
            _, d0 = W.analyze(doc0, a)
            d['unresolved'] = d['unresolved'] + ['first-build: ' + x for x in d0['unresolved']]
            first_digest = hashlib.sha256(doc0).hexdigest()
            # serving histories: however the shared Wsdl11 object came to hold its document, what ?wsdl returns is THE document
            hist_digests = []
            for hname, hdoc in W.histories(a):
                _, dh = W.analyze(hdoc, a)
                d['unresolved'] = d['unresolved'] + ['%s: %s' % (hname, x) for x in dh['unresolved']]
                if dh['nops'] != d['nops']:
                    d['unresolved'] = d['unresolved'] + ['%s: %d portType operations' % (hname, dh['nops'])]
                hist_digests.append(hashlib.sha256(hdoc).hexdigest())
        except Exception as e:
            per, d, z = {}, {'wellformed': False, 'unresolved': ['build: %s: %s' % (type(e).__name__, e)], 'nops': 0}, {}
        d['digests'] = [dg[2 * i] for dg in digs] + [dg[2 * i + 1] for dg in digs] + ([first_digest] + hist_digests if first_digest else [])
        recs.append({'what': 'doc', 'a': a, 'd': d})
        for s in a['services']:
            for m in s['methods']:
                o = per.get(m['name']) or {'npt': 0, 'pts': [], 'nbind': 0, 'bindtypes': [], 'inres': False, 'inelem': '', 'outres': False, 'outelem': '',
                                           'ptfaults': [], 'bindfaults': [], 'faultsres': False, 'inhparts': [], 'outhparts': [], 'hdrres': False}
                o['zeep'] = z.get(m['name'], 'not attempted')
                recs.append({'what': 'method', 'a': a, 'm': m, 'o': o})
    tf = os.path.join(ctx.work, 'wsdl_traces.ndjson')
    with open(tf, 'w') as f:
        for r in recs:
            f.write(json.dumps(r) + '\n')
    cfgt = pc.write_cfg(os.path.join(ctx.work, 'tracew.cfg'), ['INIT Init', 'NEXT Next', 'CONSTRAINT Report', 'CHECK_DEADLOCK FALSE'])
    rt = tlc.run('TraceWsdlDoc', cfgt, ctx.work, env={'TRACE_FILE': tf}, timeout=1800, workers=4)
    seen_ = {}
    for pr in rt.prints:
        if pr and pr[0] == 'V':
            seen_[pr[1]] = set(pr[2])
    if len(seen_) != len(recs):
        raise tlc.TlcError('TraceWsdlDoc evaluated %d of %d\n%s' % (len(seen_), len(recs), rt.stdout[-2000:]))
    nbad = 0
    for i, r in enumerate(recs):
        cl = seen_[i + 1]
        if not cl:
            continue
        nbad += 1
        if r['what'] == 'doc':
            d = r['d']
            why = d['unresolved'][:3] if 'Closed' in cl else ''
            ctx.violation('%s|doc|%s|%s' % ('+'.join(sorted(cl)), app_class(r['a']), ';'.join(why)),
                          '%s: WSDL of %s: unresolved %s; distinct digests %d; portType operations %d' % (
                              sorted(cl), app_class(r['a']), d['unresolved'][:5], len(set(d['digests'])), d['nops']), {'app': r['a'], 'document': d})
        else:
            m, o = r['m'], r['o']
            ctx.violation('%s|method|%s|in=%s|zeep=%s' % ('+'.join(sorted(cl)), m['name'], app_class(r['a']), o['zeep'] if 'ZeepDrives' in cl else 'ok'),
                          '%s: method %s of %s: %s' % (sorted(cl), m['name'], app_class(r['a']), json.dumps(o)[:500]), {'app': r['a'], 'method': m, 'observation': o})
    ndoc = sum(1 for r in recs if r['what'] == 'doc')
    ctx.level = 'exploration'
    ctx.cov_add(traces_validated_against_impl=len(recs) - nbad, evaluations=len(recs), applications=ndoc, methods=len(recs) - ndoc,
                hash_seeds=len(seeds), builds_per_application=2 * len(seeds), distinct_nontrivial=len(recs), exhaustive=not ctx.quick,
                rule='applications are distinct members of SpyneWsdl.Apps; one record per application document and per exposed method')
    ctx.sample({'application': app_class(recs[0]['a']), 'document': recs[0]['d']})
    ctx.sample({'method': recs[1]['m']['name'], 'observation': recs[1]['o']})
