"""C06 - the published XML Schema is truthful about the wire.

 (a) for every application generated from SpyneSignatures (multi-namespace, inheritance,
     attributes, arrays, restrictions on every primitive through the SpyneValidate types) the
     schemas served in ?wsdl are extracted and compiled by lxml's XML Schema processor;
 (b) every response Spyne emits for a conformant value, every request the loopback Spyne client
     writes, and every request the spec-conformant encoder writes is validated against it;
 (c) for every SpyneValidate case over XmlDocument / Soap11 / Soap12 the verdicts of
     validator='lxml', validator='soft' and Valid (TLA+) are compared by TLC (SchemaAgrees).
"""
import io, json, os, shutil
from .. import tlc, pipeline_common as pc, sigcases as S, enc as E
from . import c01, c05

XS = 'http://www.w3.org/2001/XMLSchema'


def compile_schema(wsgi, workdir, tns):
    """?wsdl -> lxml.etree.XMLSchema for the target namespace (schemas written to files so that
    xs:import can be resolved).  Raises on any problem."""
    from lxml import etree
    env = {'REQUEST_METHOD': 'GET', 'PATH_INFO': '/', 'QUERY_STRING': 'wsdl', 'wsgi.input': io.BytesIO(b''),
           'wsgi.url_scheme': 'http', 'SERVER_NAME': 'x', 'SERVER_PORT': '80'}
    st = []
    doc = b''.join(wsgi(env, lambda s, h, e=None: st.append(s)))
    root = etree.fromstring(doc)
    schemas = root.findall('.//{%s}schema' % XS)
    os.makedirs(workdir, exist_ok=True)
    names = {}
    for i, s in enumerate(schemas):
        names[s.get('targetNamespace')] = 's%d.xsd' % i
    for s in schemas:
        for imp in s.findall('{%s}import' % XS):
            ns = imp.get('namespace')
            if imp.get('schemaLocation'):
                # what is published is this one document: a location hint names something a consumer cannot get
                raise ValueError('the published schema of %s imports %s from %r, which is not published' % (s.get('targetNamespace'), ns, imp.get('schemaLocation')))
            if ns in names:
                imp.set('schemaLocation', names[ns])
        # namespace declarations live on wsdl:definitions: serialise the subtree standalone
        with open(os.path.join(workdir, names[s.get('targetNamespace')]), 'wb') as f:
            f.write(etree.tostring(s))
    return etree.XMLSchema(etree.parse(os.path.join(workdir, names[tns])))


def message_element(fam, body):
    from lxml import etree
    root = etree.fromstring(body)
    if fam == 'xml':
        return root
    b = [e for e in root if etree.QName(e).localname == 'Body'][0]
    return b[0] if len(b) else None


def validate_docs(schema, fam, todo):
    """-> [(what, ok, error, doc)]"""
    out = []
    for what, doc in todo:
        try:
            el = message_element(fam, doc)
            if el is None:
                continue
            ok = schema.validate(el)
            err = str(schema.error_log.last_error) if not ok else ''
        except Exception as e:
            ok, err = False, '%s: %s' % (type(e).__name__, e)
        out.append((what, bool(ok), err, doc))
    return out


def universe_class(c):
    u = c['u']
    nss = [u['ns'][k] for k in 'PQR']
    shape = 'all-same' if len(set(nss)) == 1 else 'all-different' if len(set(nss)) == 3 else 'two'
    return 'pq=%s,pr=%s,qr=%s,direct=%s,ns=%s' % (u['pq'], u['pr'], u['qr'], u['direct'], shape)


def _observe_universe(job):
    from .. import schemaworld as W
    from ..loopback import LoopbackClient
    c, fam, wd = job
    wd = os.path.join(wd, str(os.getpid()))
    obs = {'compiled': True, 'docs': [], 'emitted': [], 'error': ''}
    try:
        w = W.World(c, fam, 'soft')
        doc = W.wsdl(w.wsgi)
        obs['docs'] = W.describe(doc)
    except Exception as e:
        obs['compiled'] = False
        obs['error'] = 'interface: %s: %s' % (type(e).__name__, e)
        return {'u': c['u'], 'case': c, 'fam': fam, 'obs': obs}
    try:
        schema = compile_schema(w.wsgi, wd, 'tns')
    except Exception as e:
        schema = None
        obs['compiled'] = False
        obs['error'] = '%s: %s' % (type(e).__name__, str(e)[:300])
    if schema is not None:
        env, body = E.request(w.gen, fam, 'f', w.call_args())
        res = E.send(w.wsgi, env, body)
        todo = [('spyne-response', res['body']), ('conformant-request', body)]
        try:
            cl = LoopbackClient(w.wsgi, w.app)
            getattr(cl.service, 'f')(*[W.instance(w.gen, t, v) for _, t, v in w.call_args()])
            todo.append(('spyne-client-request', cl.rp.last['request']))
        except Exception as e:
            obs['emitted'].append({'what': 'spyne-client-request', 'ok': False, 'error': '%s: %s' % (type(e).__name__, e), 'doc': ''})
        for what, ok, err, d in validate_docs(schema, fam, todo):
            obs['emitted'].append({'what': what, 'ok': ok, 'error': err[:300], 'doc': d[:700].decode('utf8', 'replace')})
        # Spyne's own schema validator must accept the conformant request too
        try:
            w2 = W.World(c, fam, 'lxml')
            del w2.seen[:]
            res2 = E.send(w2.wsgi, *E.request(w2.gen, fam, 'f', w2.call_args()))
            obs['emitted'].append({'what': 'conformant-request-under-validator-lxml', 'ok': len(w2.seen) == 1,
                                   'error': res2['body'][:300].decode('utf8', 'replace') if len(w2.seen) != 1 else '', 'doc': ''})
        except Exception as e:
            obs['compiled'] = False
            obs['error'] = 'validator=lxml: %s: %s' % (type(e).__name__, str(e)[:300])
    return {'u': c['u'], 'case': c, 'fam': fam, 'obs': obs}


def universes(ctx):
    """M1 SpyneSchema (add_class walk = closed forms, Closed); M3 real schemas judged by TraceSchema."""
    from .. import schemaworld as W
    from ..loopback import LoopbackClient
    r = tlc.run('SpyneSchema', 'MCSchema.cfg', ctx.work, workers=8)
    if not r.ok:
        raise tlc.TlcError('SpyneSchema: %s violated in the design model\n%s' % (r.violated, r.stdout[-1500:]))
    rd = tlc.run('SpyneSchema', 'MCSchemaDev.cfg', ctx.work, workers=8)
    if rd.violated != 'Closed':
        raise tlc.TlcError('SpyneSchema: the SkipRegistered deviation is not detected (vacuous Closed?)')
    ctx.cov_add(states=r.distinct, transitions=r.generated)
    cases = W.export(ctx)
    if ctx.quick:
        cases = [c for i, c in enumerate(cases) if (i + ctx.seed) % 4 == 0]
    wd = os.path.join(ctx.work, 'xsdu')
    import multiprocessing
    jobs = [(c, 'soap11' if (i % 2) else 'xml', wd) for i, c in enumerate(cases)]
    with multiprocessing.get_context('fork').Pool(12) as pool:
        recs = pool.map(_observe_universe, jobs, chunksize=8)
    shutil.rmtree(wd, ignore_errors=True)
    tf = os.path.join(ctx.work, 'schema_traces.ndjson')
    with open(tf, 'w') as f:
        for rec in recs:
            o = rec['obs']
            f.write(json.dumps({'u': rec['u'], 'obs': {'compiled': o['compiled'], 'docs': o['docs'],
                                                       'emitted': [{'ok': e['ok']} for e in o['emitted']]}}) + '\n')
    cfgt = pc.write_cfg(os.path.join(ctx.work, 'tracesch.cfg'), ['INIT Init', 'NEXT Next', 'CONSTRAINT Report', 'CONSTANT Deviations = {}',
                                                                 'CHECK_DEADLOCK FALSE'])
    rt = tlc.run('TraceSchema', cfgt, ctx.work, env={'TRACE_FILE': tf}, timeout=1800)
    seen = {}
    for p in rt.prints:
        if p and p[0] == 'V':
            seen[p[1]] = (set(p[2]), p[3])
    if len(seen) != len(recs):
        raise tlc.TlcError('TraceSchema evaluated %d of %d\n%s' % (len(seen), len(recs), rt.stdout[-1500:]))
    nbad = 0
    extra = 0
    for i, rec in enumerate(recs):
        fails, exact = seen[i + 1]
        if not exact and not fails:
            extra += 1
        if not fails:
            continue
        nbad += 1
        o = rec['obs']
        bad = [e for e in o['emitted'] if not e['ok']]
        ctx.violation('%s|%s' % ('+'.join(sorted(fails)), universe_class(rec['case'])),
                      'published schema of universe %s: %s %s' % (json.dumps(rec['u'], sort_keys=True), sorted(fails),
                                                                  o['error'] or (bad[0]['what'] + ': ' + bad[0]['error'] if bad else '')),
                      {'universe': rec['u'], 'family': rec['fam'], 'documents': o['docs'], 'error': o['error'], 'not_valid': bad[:2]})
    if extra:
        ctx.notes.append('%d universes import more namespaces than the closed form asks for (harmless; model drift, not a verdict)' % extra)
    ctx.cov_add(universes=len(recs), universes_ok=len(recs) - nbad)
    ctx.sample({'universe': recs[0]['u'], 'documents': recs[0]['obs']['docs']})
    return len(recs)


OUT_TEXT = {'lt_amp': 'a<b&c', 'sp_lead': '  x '}


def native_out(c):
    """the native value user code would return for a case with valid = TRUE (or SKIP)"""
    import decimal
    from .. import valcases as V
    g = c['group']
    if g == 'out':
        ty = c['ty']
        if ty == 'ByteArray': return [bytes(c['bytes'])]
        if ty == 'Decimal': return decimal.Decimal(c['lit'])
        if ty == 'Double': return float(c['lit'])
        if ty == 'Integer': return int(c['lit'])
        return OUT_TEXT[c['lit']]
    if g == 'big':
        return int(c['lit'])
    if g == 'lex':
        try:
            return S.leaf_native(c['ty'], c['text'].replace('+5', '5') if c['ty'] == 'Integer' else c['text'])
        except Exception:
            return V.SKIP
    if g == 'nil':
        if c['how'] != 'value' and not (c['nillable'] if c['mino'] > 0 else True):
            return V.SKIP           # None is not a conformant value of a mandatory non-nillable member
        return None if c['how'] != 'value' else V.value_of(c, 'json')
    if g == 'objarr':
        return V.SKIP
    if g == 'time':
        import datetime
        return datetime.time(17, 0, 0, c['us'])          # the native value the probe text denotes
    v = V.value_of(c, 'json')
    if g == 'occ' and c['maxo'] == 1 and v is not None:
        return v[0] if len(v) == 1 else V.SKIP          # a non-repeated member holds one value
    return v


def out_type(c):
    from .. import valcases as V
    if c['group'] == 'out':
        f = {} if c['facet'] == 'none' else {'encoding': c['facet']}
        return {'k': 'prim', 'p': c['ty'], 'facets': f}
    return V.type_of(c)


def out_shape(pos, T, v):
    if pos == 'ret':
        return T, v
    if pos == 'field':
        return {'k': 'obj', 'name': 'C', 'fields': [['v', T], ['w', {'k': 'prim', 'p': 'Integer'}]]}, {'v': v, 'w': 1}
    if pos == 'array':
        return {'k': 'arr', 'of': T}, [v, v]
    if pos == 'attr':
        return {'k': 'obj', 'name': 'C', 'fields': [['v', {'k': 'attr', 'of': T}], ['w', {'k': 'prim', 'p': 'Integer'}]]}, {'v': v, 'w': 1}
    if pos == 'attr_required':
        return {'k': 'obj', 'name': 'C', 'fields': [['v', {'k': 'attr', 'of': T, 'use': 'required'}], ['w', {'k': 'prim', 'p': 'Integer'}]]}, {'v': v, 'w': 1}


def outputs(ctx):
    """every conformant value, returned by a real service at every position: the response against the published schema"""
    from spyne import Application
    from spyne.server.wsgi import WsgiApplication
    from .. import valcases as V, gen as G, schemaworld as W
    d = V.export(ctx, 'base')          # (the dense thorough grids of C05 are about soft validation: the schema side keeps the base table)
    cases = [c for c in d['cases'] if c['valid'] and c['group'] not in ('zone', 'nbound')] + d['outcases']      # (zone: see the note at the validators' comparison)
    fams = ('xml',) if ctx.quick else ('xml', 'soap11', 'soap12')
    apps = {}
    wd = os.path.join(ctx.work, 'xsdo')
    recs = []
    for c in cases:
        v = native_out(c)
        if v is V.SKIP:
            continue
        T = out_type(c)
        if c['group'] in ('occ', 'nil'):
            poss = ['field']
        elif c['group'] == 'out' and c['ty'] == 'ByteArray' or T.get('k') == 'enum':
            poss = ['ret', 'field', 'array', 'attr', 'attr_required']
        else:
            poss = ['ret', 'field', 'array', 'attr', 'attr_required']
        for pos in poss:
            if pos in ('array', 'attr', 'attr_required') and v is None:
                continue
            if pos in ('attr', 'attr_required') and T.get('k') == 'obj':
                continue            # an attribute holds text, not an object
            for fam in fams:
                key = (json.dumps(T, sort_keys=True, default=str), pos, fam)
                a = apps.get(key)
                rt, rv = out_shape(pos, T, v)
                if a is None:
                    holder = [None]
                    g = G.Gen()
                    try:
                        svc = G.make_service(g, [{'name': 'f', 'args': [], 'ret': rt, 'returns': lambda args, holder=holder: holder[0]}], [])
                        inp, outp = E.protocols(fam, validator='soft')
                        w = WsgiApplication(Application([svc], 'tns', in_protocol=inp, out_protocol=outp))
                        schema = compile_schema(w, wd, 'tns')
                        a = (g, w, schema, holder, '')
                    except Exception as e:
                        a = (g, None, None, None, '%s: %s' % (type(e).__name__, str(e)[:300]))
                    apps[key] = a
                g, w, schema, holder, err = a
                rec = {'case': c, 'pos': pos, 'fam': fam, 'valid': True}
                if schema is None:
                    rec.update(emitted=False, error='schema: ' + err, doc='')
                else:
                    holder[0] = W.instance(g, rt, rv)
                    res = E.send(w, *E.request(g, fam, 'f', []))
                    (what, ok, err, doc), = validate_docs(schema, fam, [('spyne-response', res['body'])]) or [('spyne-response', False, 'empty body', b'')]
                    rec.update(emitted=ok, error=err, doc=doc[:600].decode('utf8', 'replace'))
                recs.append(rec)
    shutil.rmtree(wd, ignore_errors=True)
    tf = os.path.join(ctx.work, 'emitted_traces.ndjson')
    with open(tf, 'w') as f:
        for r in recs:
            f.write(json.dumps({'valid': True, 'obs': {'emitted': r['emitted']}}) + '\n')
    cfgt = pc.write_cfg(os.path.join(ctx.work, 'traceval2.cfg'), ['INIT Init', 'NEXT Next', 'CONSTRAINT Report', 'CHECK_DEADLOCK FALSE'])
    rt_ = tlc.run('TraceValidate', cfgt, ctx.work, env={'TRACE_FILE': tf}, timeout=1800)
    bad = {p[1] - 1 for p in rt_.prints if p and p[0] == 'V' and p[2]}
    n = len({p[1] for p in rt_.prints if p and p[0] == 'V'})
    if n != len(recs):
        raise tlc.TlcError('TraceValidate evaluated %d of %d\n%s' % (n, len(recs), rt_.stdout[-1500:]))
    for i in sorted(bad):
        r = recs[i]
        c = r['case']
        cc = ('%s|%s|%s' % (c['ty'], c['facet'], c['lit'] or 'bytes=%d' % len(c['bytes']))) if c['group'] == 'out' else c05.case_class(c)
        # the text of a leaf is the leaf writer's business wherever the leaf sits: one class per value
        where = '' if c['group'] == 'out' and c['ty'] != 'ByteArray' else '|pos=%s' % r['pos']
        ctx.violation('EmittedInvalid|%s|%s%s' % (c['group'], cc, where),
                      'the response Spyne writes for the conformant value of %s at %s over %s is not valid against the published schema: %s' % (
                          c, r['pos'], r['fam'], r['error'][:300]), {'case': c, 'position': r['pos'], 'family': r['fam'], 'response': r['doc'], 'error': r['error']})
    ctx.cov_add(emitted_values=len(recs), emitted_ok=len(recs) - len(bad), emitting_apps=len(apps))
    ctx.sample({'emitted': {'case': recs[0]['case'], 'position': recs[0]['pos'], 'response': recs[0]['doc'][:300]}})
    return len(recs)


def run(ctx):
    from ..loopback import LoopbackClient
    import time
    t0 = time.time()
    nuni = universes(ctx)
    t1 = time.time()
    nout = outputs(ctx)
    t2 = time.time()
    ctx.notes.append('wall: universes %.0fs, emitted values %.0fs' % (t1 - t0, t2 - t1))
    cases = S.export(ctx)
    sub = [c for i, c in enumerate(cases) if c['id'] != 'T2' or (i + ctx.seed) % (6 if ctx.quick else 1) == 0]
    n = 0
    ndocs = 0
    wd = os.path.join(ctx.work, 'xsd')
    for i, c in enumerate(sub):
        for fam in ('xml', 'soap11') if ctx.quick else ('xml', 'soap11', 'soap12'):
            if c['id'] == 'T9' and fam == 'xml':
                continue
            key0 = '%s|fam=%s' % (c01.sig_class(c), fam)
            try:
                # (every other application validates its requests against the schema: the validator's own copy of the
                #  documents - built when the application is - is not what is published)
                w = c01.World(c, fam, 'lxml' if i % 2 else 'soft')
                schema = compile_schema(w.wsgi, wd, c['tns'])
            except Exception as e:
                ctx.violation('schema-does-not-compile|%s|%s' % (type(e).__name__, key0),
                              'the published schema of %s does not compile: %s' % (c01.sig_class(c), str(e)[:300]), {'case': c, 'family': fam})
                continue
            n += 1
            # (b) Spyne's response, the spec-conformant request, the Spyne client's request
            obs = w.exchange()
            docs = [('response', obs['raw'].encode('utf8') if False else None)]
            env, body = E.request(w.gen, fam, c['method'], S.args_for_enc(c), style=c['style'])
            res = E.send(w.wsgi, env, body)
            todo = [('spyne-response', res['body']), ('conformant-request', body)]
            if c['style'] == 'wrapped' and c['id'] != 'T9':
                try:
                    cl = LoopbackClient(w.wsgi, w.app)
                    args = [S.to_instance(w.gen, f['t'], v) for f, v in zip(c['args'], c['vals'])]
                    getattr(cl.service, c['method'])(*args)
                    todo.append(('spyne-client-request', cl.rp.last['request']))
                except Exception:
                    pass
            for what, doc in todo:
                try:
                    el = message_element(fam, doc)
                    if el is None:
                        continue
                    ok = schema.validate(el)
                    err = str(schema.error_log.last_error) if not ok else ''
                except Exception as e:
                    ok, err = False, '%s: %s' % (type(e).__name__, e)
                ndocs += 1
                if not ok:
                    ctx.violation('invalid-against-own-schema|%s|%s' % (what, key0),
                                  '%s of %s is not valid against the schema Spyne publishes: %s' % (what, c01.sig_class(c), err[:300]),
                                  {'case': c, 'family': fam, 'document': doc[:600].decode('utf8', 'replace'), 'error': err})
    shutil.rmtree(wd, ignore_errors=True)
    # (c) lxml vs soft vs Valid on the facet cases
    # (the repeated-member positions are C05's business; the quick tier keeps the four structural ones here)
    d, recs = c05.collect(ctx, with_lxml=True, family='base', families=['xml', 'soap11', 'soap12'],
                          positions=('arg', 'field', 'array', 'attr') if ctx.quick else None)
    # (zone-less literals of a type with a declared zone: XML Schema orders values with and without a zone only partially - whether
    #  such a literal satisfies a bound that carries a zone is not decided by the schema; soft validation alone is judged there, C05)
    recs = [r for r in recs if r['case']['group'] not in ('zone', 'nbound')]
    fails = c05.judge(ctx, recs, schema=True)
    nf = 0
    for i, cl in sorted(fails.items()):
        r = recs[i]
        c = r['case']
        if 'lxml_error' in r:
            ctx.violation('schema-does-not-compile|%s|%s' % (c['group'], c05.case_class(c)),
                          'validator=lxml cannot be set up for %s: %s' % (c, r['lxml_error'][:200]), {'case': c})
            continue
        cl = cl & {'SchemaDisagrees', 'ValidatorsDisagree'}
        if not cl:
            continue
        nf += 1
        where = 'pos=%s|lxml=%s,soft=%s,valid=%s' % (r['pos'], r['lxml']['ran'], r['obs']['ran'], c['valid'])
        if c['group'] == 'lex':
            where = 'lxml=%s,soft=%s,valid=%s' % (r['lxml']['ran'], r['obs']['ran'], c['valid'])     # the leaf parser's business wherever the leaf sits
        ctx.violation('%s|%s|%s|%s' % ('+'.join(sorted(cl)), c['group'], c05.case_class(c), where),
            'schema validation %s, soft validation %s, Valid = %s for %s at %s over %s' % (
                'accepts' if r['lxml']['ran'] else 'rejects', 'accepts' if r['obs']['ran'] else 'rejects', c['valid'], c, r['pos'], r['fam']),
            {'case': c, 'position': r['pos'], 'family': r['fam'],
             'lxml': {k: (v.decode('utf8', 'replace') if isinstance(v, bytes) else v) for k, v in r['lxml'].items()}})
    ctx.level = 'exploration'
    ctx.cov_add(schemas_compiled=n, documents_validated=ndocs, verdict_triples=len(recs), evaluations=n + ndocs + len(recs),
                traces_validated_against_impl=len(recs) - nf, distinct_nontrivial=n + len(recs), exhaustive=not ctx.quick,
                rule='applications from SpyneSignatures.Cases (schema compiled, emitted documents validated) and every '
                     'SpyneValidate case x position x XML family (lxml / soft / Valid verdict triple); distinct by construction')
    ctx.sample({'application': c01.sig_class(sub[0])})
    ctx.sample({'verdict_triple': {'case': recs[0]['case'], 'lxml': recs[0].get('lxml', {}).get('ran'), 'soft': recs[0]['obs']['ran']}})
