"""C06 - the published XML Schema is truthful about the wire.

 (a) for every application generated from SpyneSignatures (multi-namespace, inheritance,
     attributes, arrays, restrictions on every primitive through the SpyneValidate types) the
     schemas served in ?wsdl are extracted and compiled by lxml's XML Schema processor;
 (b) every response Spyne emits for a conformant value, every request the loopback Spyne client
     writes, and every request the spec-conformant encoder writes is validated against it;
 (c) for every SpyneValidate case over XmlDocument / Soap11 / Soap12 the verdicts of
     validator='lxml', validator='soft' and Valid (TLA+) are compared by TLC (SchemaAgrees).
"""
import io, json, os, shutil
from .. import tlc, pipeline_common as pc, sigcases as S, enc as E
from . import c01, c05

XS = 'http://www.w3.org/2001/XMLSchema'


def compile_schema(wsgi, workdir, tns):
    """?wsdl -> lxml.etree.XMLSchema for the target namespace (schemas written to files so that
    xs:import can be resolved).  Raises on any problem."""
    from lxml import etree
    env = {'REQUEST_METHOD': 'GET', 'PATH_INFO': '/', 'QUERY_STRING': 'wsdl', 'wsgi.input': io.BytesIO(b''),
           'wsgi.url_scheme': 'http', 'SERVER_NAME': 'x', 'SERVER_PORT': '80'}
    st = []
    doc = b''.join(wsgi(env, lambda s, h, e=None: st.append(s)))
    root = etree.fromstring(doc)
    schemas = root.findall('.//{%s}schema' % XS)
    os.makedirs(workdir, exist_ok=True)
    names = {}
    for i, s in enumerate(schemas):
        names[s.get('targetNamespace')] = 's%d.xsd' % i
    for s in schemas:
        for imp in s.findall('{%s}import' % XS):
            ns = imp.get('namespace')
            if ns in names:
                imp.set('schemaLocation', names[ns])
        # namespace declarations live on wsdl:definitions: serialise the subtree standalone
        with open(os.path.join(workdir, names[s.get('targetNamespace')]), 'wb') as f:
            f.write(etree.tostring(s))
    return etree.XMLSchema(etree.parse(os.path.join(workdir, names[tns])))


def message_element(fam, body):
    from lxml import etree
    root = etree.fromstring(body)
    if fam == 'xml':
        return root
    b = [e for e in root if etree.QName(e).localname == 'Body'][0]
    return b[0] if len(b) else None


def run(ctx):
    from ..loopback import LoopbackClient
    cases = S.export(ctx)
    sub = [c for i, c in enumerate(cases) if c['id'] != 'T2' or (i + ctx.seed) % (6 if ctx.quick else 1) == 0]
    n = 0
    ndocs = 0
    wd = os.path.join(ctx.work, 'xsd')
    for i, c in enumerate(sub):
        for fam in ('xml', 'soap11') if ctx.quick else ('xml', 'soap11', 'soap12'):
            if c['id'] == 'T9' and fam == 'xml':
                continue
            key0 = '%s|fam=%s' % (c01.sig_class(c), fam)
            try:
                w = c01.World(c, fam, 'soft')
                schema = compile_schema(w.wsgi, wd, c['tns'])
            except Exception as e:
                ctx.violation('schema-does-not-compile|%s|%s' % (type(e).__name__, key0),
                              'the published schema of %s does not compile: %s' % (c01.sig_class(c), str(e)[:300]), {'case': c, 'family': fam})
                continue
            n += 1
            # (b) Spyne's response, the spec-conformant request, the Spyne client's request
            obs = w.exchange()
            docs = [('response', obs['raw'].encode('utf8') if False else None)]
            env, body = E.request(w.gen, fam, c['method'], S.args_for_enc(c), style=c['style'])
            res = E.send(w.wsgi, env, body)
            todo = [('spyne-response', res['body']), ('conformant-request', body)]
            if c['style'] == 'wrapped' and c['id'] != 'T9':
                try:
                    cl = LoopbackClient(w.wsgi, w.app)
                    args = [S.to_instance(w.gen, f['t'], v) for f, v in zip(c['args'], c['vals'])]
                    getattr(cl.service, c['method'])(*args)
                    todo.append(('spyne-client-request', cl.rp.last['request']))
                except Exception:
                    pass
            for what, doc in todo:
                try:
                    el = message_element(fam, doc)
                    if el is None:
                        continue
                    ok = schema.validate(el)
                    err = str(schema.error_log.last_error) if not ok else ''
                except Exception as e:
                    ok, err = False, '%s: %s' % (type(e).__name__, e)
                ndocs += 1
                if not ok:
                    ctx.violation('invalid-against-own-schema|%s|%s' % (what, key0),
                                  '%s of %s is not valid against the schema Spyne publishes: %s' % (what, c01.sig_class(c), err[:300]),
                                  {'case': c, 'family': fam, 'document': doc[:600].decode('utf8', 'replace'), 'error': err})
    shutil.rmtree(wd, ignore_errors=True)
    # (c) lxml vs soft vs Valid on the facet cases
    d, recs = c05.collect(ctx, with_lxml=True, families=['xml', 'soap11', 'soap12'])
    fails = c05.judge(ctx, recs, schema=True)
    nf = 0
    for i, cl in sorted(fails.items()):
        r = recs[i]
        c = r['case']
        if 'lxml_error' in r:
            ctx.violation('schema-does-not-compile|%s|%s' % (c['group'], c05.case_class(c)),
                          'validator=lxml cannot be set up for %s: %s' % (c, r['lxml_error'][:200]), {'case': c})
            continue
        if 'SchemaDisagrees' not in cl:
            continue
        nf += 1
        ctx.violation('SchemaDisagrees|%s|%s|pos=%s|lxml=%s,soft=%s,valid=%s' % (
            c['group'], c05.case_class(c), r['pos'], r['lxml']['ran'], r['obs']['ran'], c['valid']),
            'schema validation (%s) and Valid (%s) disagree for %s at %s over %s (soft: %s)' % (
                'accepts' if r['lxml']['ran'] else 'rejects', c['valid'], c, r['pos'], r['fam'], 'accepts' if r['obs']['ran'] else 'rejects'),
            {'case': c, 'position': r['pos'], 'family': r['fam'],
             'lxml': {k: (v.decode('utf8', 'replace') if isinstance(v, bytes) else v) for k, v in r['lxml'].items()}})
    ctx.level = 'exploration'
    ctx.cov_add(schemas_compiled=n, documents_validated=ndocs, verdict_triples=len(recs), evaluations=n + ndocs + len(recs),
                traces_validated_against_impl=len(recs) - nf, distinct_nontrivial=n + len(recs), exhaustive=not ctx.quick,
                rule='applications from SpyneSignatures.Cases (schema compiled, emitted documents validated) and every '
                     'SpyneValidate case x position x XML family (lxml / soft / Valid verdict triple); distinct by construction')
    ctx.sample({'application': c01.sig_class(sub[0])})
    ctx.sample({'verdict_triple': {'case': recs[0]['case'], 'lxml': recs[0].get('lxml', {}).get('ran'), 'soft': recs[0]['obs']['ran']}})
