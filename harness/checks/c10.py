"""C10 - hostile or malformed requests end in a client fault, never a crash.

 M1  SpynePipeline |= BadReqIsClient, NoFnOnInFault, NoEscape, Terminates for every
     malformation class x family x transport.
 M3  a closed, deterministic corpus (hostile leaf texts at every field, every k-th
     truncation, structural operators at every node, alien value kinds at every path,
     flat-key abuse, fixed pseudo-random bytes) x input family x validator is sent
     through WsgiApplication and through a bare ServerBase; each exchange is recorded
     as a merged history and TLC evaluates FuzzOutcome / FnAtMostOnce / NoEscape on it.
"""
import copy, io, json, os, random, sys, traceback
from .. import tlc, pipeline_common as pc

E11 = 'http://schemas.xmlsoap.org/soap/envelope/'
E12 = 'http://www.w3.org/2003/05/soap-envelope'
VAL = {'i': '5', 's': 'x', 'd': '1.5', 'f': '2.5', 'b': 'true', 'dt': '2020-01-02T03:04:05Z', 'da': '2020-01-02',
       't': '03:04:05', 'du': 'P1DT2S', 'by': 'AAEC', 'u': '12345678-1234-1234-1234-123456789abc',
       'i8': '7', 'u16': '9', 'e': 'red'}
HOSTILE = ['', ' ', 'abc', '-', '1e999', '9' * 400, '2020-13-45', '2020-01-01T25:61:61', '24:00:00', 'P', 'PT',
           'P1Y2M3DT4H5M6.7S', '-P1D', '!!!!', 'A', 'AAE', 'zz', 'true', 'null', '\u0000', '�', '1_0', '٣',
           'NaN', 'INF', '0x10', '1.5.5', '--1', '+', '12345678-1234-1234-1234-123456789abcX',
           '2020-01-01T00:00:00+99:99', '2020-01-01T00:00:00-00:60', '0000-00-00', '10000-01-01', '1e5', '-0',
           '2020-02-30', '2020-01-01T24:00:00', '99:99:99', 'P1.5D', '1,5', 'Infinity', '256', '-129', '70000',
           # values whose conversion overflows rather than fails to parse
           'P9999999999D', '-P2739727Y', 'P1Y99999999999999M', 'PT1e9999S', '9' * 5000 + '.5', '1e99999', '-1e-99999',
           '99999-12-31T00:00:00', '2020-01-01T00:00:00.' + '9' * 400, '1' * 4500]
RAN = []


def mkapp(inp, outp, header=False):
    from spyne import (Application, Service, srpc, Integer, Unicode, ComplexModel, Array, Boolean, Date, DateTime,
                       Time, Duration, Decimal, Double, ByteArray, Uuid, Integer8, UnsignedInteger16, Enum)
    Color = Enum('red', 'green', type_name='Color')

    class C(ComplexModel):
        __namespace__ = 'tns'
        i = Integer; s = Unicode; d = Decimal; f = Double; b = Boolean
        dt = DateTime; da = Date; t = Time; du = Duration; by = ByteArray; u = Uuid
        i8 = Integer8; u16 = UnsignedInteger16; e = Color
        arr = Array(Integer); m = Integer(max_occurs='unbounded')
        aa = Array(Array(Integer))

    class Hdr(ComplexModel):
        __namespace__ = 'tns'
        who = Unicode

    class S(Service):
        if header:
            __in_header__ = Hdr          # (the envelope protocols with a header slot of their own: JsonRpc)

        @srpc(C, Integer, Array(C), _returns=Integer)
        def f(c, n, cs):
            RAN.append(1)
            return 1
    return Application([S], 'tns', in_protocol=inp, out_protocol=outp)


def xml_c(vals, tag='c'):
    inner = ''.join('<tns:%s>%s</tns:%s>' % (k, v, k) for k, v in vals.items())
    inner += '<tns:arr><tns:integer>1</tns:integer></tns:arr><tns:m>1</tns:m><tns:m>2</tns:m>'
    return '<tns:%s>%s</tns:%s>' % (tag, inner, tag)


def xml_req(vals):
    return '<tns:f xmlns:tns="tns">%s<tns:n>5</tns:n><tns:cs>%s</tns:cs></tns:f>' % (xml_c(vals), xml_c(vals, 'C'))


def esc(h):
    return h.replace('&', '&amp;').replace('<', '&lt;')


def mutations_xml(doc_bytes, step):
    from lxml import etree
    yield 'orig', doc_bytes
    for k in range(0, len(doc_bytes), step):
        yield 'trunc%d' % k, doc_bytes[:k]
    t = etree.fromstring(doc_bytes)
    n = len(list(t.iter()))
    XSI = 'http://www.w3.org/2001/XMLSchema-instance'
    for idx in range(n):
        for op in ('delete', 'dup', 'rename', 'text2elt', 'empty', 'nil', 'attr', 'move_up', 'nons', 'comment', 'pi',
                   # type markers naming types OF THE INTERFACE (an array wrapper, the class, the enumeration) and nothing
                   'type:tns:integerArray', 'type:tns:CArray', 'type:tns:C', 'type:tns:Color', 'type:tns:nope', 'type:zz:C', 'type::',
                   # plain attributes named like members of the class
                   'pattr:s', 'pattr:i', 'pattr:arr', 'pattr:zz'):
            t2 = etree.fromstring(doc_bytes)
            e = list(t2.iter())[idx]
            p = e.getparent()
            try:
                if op == 'delete' and p is not None: p.remove(e)
                elif op == 'dup' and p is not None: p.append(copy.deepcopy(e))
                elif op == 'rename': e.tag = '{tns}zz'
                elif op == 'nons': e.tag = etree.QName(e).localname
                elif op == 'text2elt': e.text = None; etree.SubElement(e, '{tns}q').text = '1'
                elif op == 'empty':
                    for c in list(e): e.remove(c)
                    e.text = None
                elif op == 'nil': e.set('{%s}nil' % XSI, 'true')
                elif op == 'attr': e.set('{%s}type' % XSI, 'xs:string')
                elif op.startswith('type:'): e.set('{%s}type' % XSI, op[5:])
                elif op.startswith('pattr:'): e.set(op[6:], 'x')
                elif op == 'comment': e.append(etree.Comment('c'))
                elif op == 'pi': e.append(etree.ProcessingInstruction('p', 'q'))
                elif op == 'move_up' and p is not None and p.getparent() is not None: p.getparent().append(e)
                else: continue
            except Exception:
                continue
            yield '%s@%d' % (op, idx), etree.tostring(t2)


def jreq(vals):
    c = dict(vals); c['i'] = 5; c['f'] = 2.5; c['b'] = True; c['arr'] = [1]; c['m'] = [1, 2]; c['i8'] = 7; c['u16'] = 9
    return {'f': {'c': c, 'n': 5, 'cs': [c]}}


def jreq_w(vals):
    """the same request for ignore_wrappers=False: every object sits in a one-key map named after its class"""
    d = jreq(vals)
    c = d['f']['c']
    return {'f': {'c': {'C': c}, 'n': 5, 'cs': [{'C': c}]}}


ALIENS = ([], {}, 5, -1, 1.5, 'x', '', None, True, [1, [2]], {'q': 1}, [None], 2 ** 70, 'é' * 3, {'i': 1, 's': 'x'}, {'a': 1, 'b': 2, 'c': 3})


def mutate_tree(d):
    paths = []

    def walk(x, p):
        paths.append(p)
        if isinstance(x, dict):
            for k in x: walk(x[k], p + [k])
        elif isinstance(x, list):
            for i, _ in enumerate(x): walk(x[i], p + [i])
    walk(d, [])
    for p in paths:
        if not p:
            for alien in ([], 5, 'x', None, {}, {'a': 1, 'b': 2}):
                yield 'root=%r' % (alien,), alien
            continue
        for alien in ALIENS:
            d2 = copy.deepcopy(d); x = d2
            for k in p[:-1]: x = x[k]
            x[p[-1]] = alien
            yield '%s=%r' % (p, alien), d2
        d2 = copy.deepcopy(d); x = d2
        for k in p[:-1]: x = x[k]
        del x[p[-1]]
        yield 'del %s' % p, d2


def fixed_random_bytes(n):
    rnd = random.Random(0xC10)        # fixed: part of the closed corpus, not the run seed
    out = []
    starts = [b'', b'<', b'{', b'[', b'<?xml', b'\x81', b'f: ', b'{"f":', b'<tns:f xmlns:tns="tns">']
    for i in range(n):
        ln = rnd.choice([0, 1, 2, 3, 8, 17, 64, 200])
        out.append(rnd.choice(starts) + bytes(rnd.getrandbits(8) for _ in range(ln)))
    return out


class Family(object):
    def __init__(self, name, mk_in, mk_out, ctype, wrap=None, dump=None, kind='xml', jreq=None, out=None):
        self.name, self.mk_in, self.mk_out, self.ctype = name, mk_in, mk_out, ctype
        self.out = out or name            # the family the answers are written in
        self.wrap, self.dump, self.kind = wrap, dump, kind
        self.jreq = jreq or globals()['jreq']


def families():
    from spyne.protocol.soap import Soap11, Soap12
    from spyne.protocol.xml import XmlDocument
    from spyne.protocol.json import JsonDocument, JsonRpc
    from spyne.protocol.yaml import YamlDocument
    from spyne.protocol.msgpack import MessagePackDocument, MessagePackRpc
    from spyne.protocol.http import HttpRpc
    import yaml, msgpack
    env = lambda ns: (lambda b: '<e:Envelope xmlns:e="%s" xmlns:tns="tns"><e:Body>%s</e:Body></e:Envelope>'
                      % (ns, b.replace(' xmlns:tns="tns"', '')))
    return [
        Family('xml', XmlDocument, XmlDocument, 'text/xml', wrap=lambda b: b),
        Family('soap11', Soap11, Soap11, 'text/xml', wrap=env(E11)),
        Family('soap12', Soap12, Soap12, 'application/soap+xml', wrap=env(E12)),
        Family('json', JsonDocument, JsonDocument, 'application/json', dump=lambda d: json.dumps(d).encode(), kind='dict'),
        Family('yaml', YamlDocument, YamlDocument, 'text/yaml', dump=lambda d: yaml.safe_dump(d).encode(), kind='dict'),
        Family('msgpack', MessagePackDocument, MessagePackDocument, 'application/x-msgpack',
               dump=lambda d: msgpack.packb({k.encode(): v for k, v in d.items()} if isinstance(d, dict) else d), kind='dict'),
        Family('http', HttpRpc, JsonDocument, None, kind='flat'),
        # msgpack-rpc: [type, msgid, method, params]
        Family('mprpc', MessagePackRpc, MessagePackRpc, 'application/x-msgpack',
               dump=lambda d: msgpack.packb([0, 1, 'f', [d['f'].get('c'), d['f'].get('n'), d['f'].get('cs')]]
                                            if isinstance(d, dict) and isinstance(d.get('f'), dict) else d), kind='dict'),
        # the answer (hence the fault, which quotes the offending text) travels in another family than the request
        Family('http_xmlout', HttpRpc, XmlDocument, None, kind='flat', out='xml'),
        # HttpRpc(strict_arrays=True): array indexes are checked (no gaps), a refused index is a Client fault like any other
        Family('http_strict', lambda **kw: HttpRpc(strict_arrays=True, **kw), JsonDocument, None, kind='flat', out='http'),
        Family('json_soapout', JsonDocument, Soap11, 'application/json', dump=lambda d: json.dumps(d).encode(), kind='dict', out='soap11'),
        Family('yaml_httpout', YamlDocument, HttpRpc, 'text/yaml', dump=lambda d: yaml.safe_dump(d).encode(), kind='dict', out='httprpc'),
        # the JSON envelope protocol JsonRpc('spyne'): {"ver": 1, "head": ..., "body": {method: arguments}} (answers in plain JSON)
        Family('jsonrpc', lambda **kw: JsonRpc('spyne', **kw), JsonDocument, 'application/json',
               dump=lambda d: json.dumps({'ver': 1, 'body': d}).encode(), kind='dict', out='json'),
        # wrapper documents (ignore_wrappers=False)
        Family('json_w', lambda **kw: JsonDocument(ignore_wrappers=False, **kw), JsonDocument, 'application/json',
               dump=lambda d: json.dumps(d).encode(), kind='dict', jreq=jreq_w),
        Family('yaml_w', lambda **kw: YamlDocument(ignore_wrappers=False, **kw), YamlDocument, 'text/yaml',
               dump=lambda d: yaml.safe_dump(d).encode(), kind='dict', jreq=jreq_w),
        Family('msgpack_w', lambda **kw: MessagePackDocument(ignore_wrappers=False, **kw), MessagePackDocument, 'application/x-msgpack',
               dump=lambda d: msgpack.packb({k.encode(): v for k, v in d.items()} if isinstance(d, dict) else d), kind='dict', jreq=jreq_w),
    ]


def corpus(fam, quick):
    """-> list of (label, env-extra, body)"""
    from urllib.parse import quote
    out = []
    if fam.kind == 'xml':
        for k in VAL:
            for h in HOSTILE:
                v = dict(VAL); v[k] = esc(h)
                try:
                    body = fam.wrap(xml_req(v)).encode()
                except Exception:
                    continue
                out.append(('leaf %s=%r' % (k, h), {}, body))
        for name, b in mutations_xml(fam.wrap(xml_req(VAL)).encode(), 7):
            out.append((name, {}, b))
        # nodes that are not elements where elements are expected: an (unresolved) entity reference among the members of
        # the message and of a nested object
        dt = '<!DOCTYPE x [<!ENTITY a "b">]>'
        for label, inner in [('entity_child_of_message', '<tns:f xmlns:tns="tns">&a;<tns:n>5</tns:n></tns:f>'),
                             ('entity_child_of_object', '<tns:f xmlns:tns="tns"><tns:c>&a;<tns:i>5</tns:i></tns:c><tns:n>5</tns:n></tns:f>'),
                             ('entity_in_array', '<tns:f xmlns:tns="tns"><tns:n>5</tns:n><tns:cs>&a;<tns:C><tns:i>1</tns:i></tns:C></tns:cs></tns:f>')]:
            out.append((label, {}, (dt + fam.wrap(inner)).encode()))
        if fam.name.startswith('soap'):
            ns = E11 if fam.name == 'soap11' else E12
            out.append(('entity_first_in_body', {}, (dt + '<e:Envelope xmlns:e="%s" xmlns:tns="tns"><e:Body>&a;<tns:f><tns:n>5</tns:n></tns:f></e:Body></e:Envelope>' % ns).encode()))
            out.append(('entity_in_header', {}, (dt + '<e:Envelope xmlns:e="%s" xmlns:tns="tns"><e:Header>&a;</e:Header><e:Body><tns:f><tns:n>5</tns:n></tns:f></e:Body></e:Envelope>' % ns).encode()))
            for label, b in [('emptybody', '<e:Envelope xmlns:e="%s"><e:Body/></e:Envelope>' % ns),
                             ('nobody', '<e:Envelope xmlns:e="%s"/>' % ns),
                             ('hdronly', '<e:Envelope xmlns:e="%s"><e:Header/></e:Envelope>' % ns),
                             ('twobodies', '<e:Envelope xmlns:e="%s"><e:Body/><e:Body/></e:Envelope>' % ns),
                             ('textbody', '<e:Envelope xmlns:e="%s"><e:Body>text</e:Body></e:Envelope>' % ns),
                             ('wrongns', '<e:Envelope xmlns:e="urn:x"><e:Body/></e:Envelope>'),
                             ('empty', ''), ('space', ' '),
                             # multi-reference encoding: a reference to nothing, to itself, in a cycle; a Fault where the request should be
                             ('href_unknown', '<e:Envelope xmlns:e="%s" xmlns:tns="tns"><e:Body><tns:f><tns:c href="#nope"/><tns:n>5</tns:n></tns:f><x id="other"/></e:Body></e:Envelope>' % ns),
                             ('href_self', '<e:Envelope xmlns:e="%s" xmlns:tns="tns"><e:Body><tns:f><tns:c href="#a"/></tns:f><x id="a"><y href="#a"/></x></e:Body></e:Envelope>' % ns),
                             ('href_cycle', '<e:Envelope xmlns:e="%s" xmlns:tns="tns"><e:Body><tns:f><tns:c href="#a"/></tns:f><x id="a"><y href="#b"/></x><x id="b"><y href="#a"/></x></e:Body></e:Envelope>' % ns),
                             ('href_empty', '<e:Envelope xmlns:e="%s" xmlns:tns="tns"><e:Body><tns:f><tns:c href=""/></tns:f></e:Body></e:Envelope>' % ns),
                             ('fault_as_request', '<e:Envelope xmlns:e="%s"><e:Body><e:Fault><faultcode>e:Client</faultcode><faultstring>x</faultstring></e:Fault></e:Body></e:Envelope>' % ns),
                             ('doctype_entity', '<!DOCTYPE e:Envelope [<!ENTITY a "b">]><e:Envelope xmlns:e="%s" xmlns:tns="tns"><e:Body><tns:f><tns:n>&a;</tns:n></tns:f></e:Body></e:Envelope>' % ns)]:
                out.append((label, {}, b.encode()))
    elif fam.kind == 'dict':
        for k in VAL:
            for h in HOSTILE:
                v = dict(VAL); v[k] = h
                try:
                    body = fam.dump(fam.jreq(v))
                except Exception:
                    continue
                out.append(('leaf %s=%r' % (k, h), {}, body))
        for name, d in mutate_tree(fam.jreq(VAL)):
            try:
                body = fam.dump(d)
            except Exception:
                continue
            out.append((name, {}, body))
        good = fam.dump(fam.jreq(VAL))
        for k in range(0, len(good), 5):
            out.append(('trunc%d' % k, {}, good[:k]))
    else:
        base = [('c.' + k, v) for k, v in VAL.items()] + [('n', '5'), ('c.arr', '1'), ('c.m', '1'), ('cs[0].i', '1')]
        for k in VAL:
            for h in HOSTILE:
                q = '&'.join('%s=%s' % (a, quote(h if a == 'c.' + k else b)) for a, b in base)
                out.append(('leaf %s=%r' % (k, h), {'REQUEST_METHOD': 'GET', 'PATH_INFO': '/f', 'QUERY_STRING': q}, b''))
        for q in ['c=1', 'c.i.x=1', 'cs[x].i=1', 'cs[-1].i=1', 'cs[99999999999999999999].i=1', 'cs[0]=1', 'c.arr[0]=1',
                  'c.m[1]=1', 'n=1&n=2', '=1', '&&&', 'c.i', 'cs[0].i[0]=1', 'cs[1].i=1&cs[0].i=2', '%ff=1', 'n=%ff',
                  'c.s=%ud800', 'cs[0].i=1&cs[0].i=2', 'cs[].i=1', 'cs[0.i=1', 'cs]0[.i=1', 'c..i=1', '.=1', 'c.=1',
                  'cs[1].i=1', 'cs[3].i=7', 'cs[0].i=1&cs[2].i=2', 'cs[2].i=1&cs[1].i=2&cs[0].i=3', 'cs[0].i=1&cs[1].i=2&cs[3].i=3', 'cs[10].i=1&cs[2].i=2',
                  'cs[1].i=1&cs[1].i=2', 'cs[00].i=1&cs[01].i=2', 'cs[+1].i=1', 'cs[1 ].i=1', 'cs[1e0].i=1', 'cs[١].i=1'.encode('utf8').decode('latin1'),
                  'n=1;n=2', 'n', 'cs[0][1].i=1', 'c.arr=x', 'c.m=x&c.m=1', 'zzz=1', 'c.zzz=1', 'n=5&' * 50,
                  # an array of arrays has no spelling in this notation: whatever is tried is refused or ignored, not a crash
                  'c.aa=1&c.aa=2', 'c.aa[0].integer=1&c.aa[0].integer=2&c.aa[1].integer=3', 'c.aa[0]=1', 'c.aa.integer=1', 'c.aa[0][1]=1',
                  'c.aa[0].integerArray=1', 'c.aa.integerArray.integer=1', 'c.aa[0].integerArray[0].integer=1']:
            out.append((q, {'REQUEST_METHOD': 'GET', 'PATH_INFO': '/f', 'QUERY_STRING': q}, b''))
        for path in ['/', '', '/f/', '/zzz', '/F', '//f', '/f/x', '/%66']:
            out.append(('path ' + path, {'REQUEST_METHOD': 'GET', 'PATH_INFO': path, 'QUERY_STRING': 'n=1'}, b''))
        # request headers HttpRpc looks into: cookies (quoted values with escapes), and an environ without a query string
        for ck in ['a=b', 'token="a\\089"', 'token="\\999"', 'token="a\\011b"', 'token="\\"', 't="\\8"', 'x', '=', ';;;', 'a="', 'a=b; a=c', 'n=5',
                   'token="\\400"', '\xff=\xfe', 'a=' + 'b' * 5000]:
            out.append(('cookie %r' % ck, {'REQUEST_METHOD': 'GET', 'PATH_INFO': '/f', 'QUERY_STRING': 'n=1', 'HTTP_COOKIE': ck}, b''))
        out.append(('no-query-string', {'REQUEST_METHOD': 'GET', 'PATH_INFO': '/f', 'QUERY_STRING': None}, b''))
        for verb in ['HEAD', 'OPTIONS', 'TRACE', 'DELETE', '', 'get', 'BREW']:
            out.append(('verb %r' % verb, {'REQUEST_METHOD': verb, 'PATH_INFO': '/f', 'QUERY_STRING': 'n=1'}, b''))
    if fam.kind != 'flat':
        for i, b in enumerate(fixed_random_bytes(120 if quick else 2000)):
            out.append(('rand%d' % i, {}, b))
        # what the transport announces about the body
        good = fam.wrap(xml_req(VAL)).encode() if fam.kind == 'xml' else fam.dump(fam.jreq(VAL))
        for cs in ('bogus', '', 'utf-16', 'ascii', 'utf-8; x=y', '"utf-8"', 'utf-8 ', 'idna', 'rot13', 'hex', 'undefined'):
            out.append(('charset=%s' % cs, {'CONTENT_TYPE': '%s; charset=%s' % (fam.ctype, cs)}, good))
        # the parameter syntaxes of RFC 2231 / 5987 (extended notation, continuations), repeated and malformed parameters
        for par in ("charset*=utf-8''utf-8", "charset*=bogus", "charset*=utf-8'en'utf-8", "charset*0=utf-8", "charset*0=ut; charset*1=f-8",
                    "charset*0*=utf-8''ut; charset*1*=f-8", "charset=utf-8; charset=latin-1", "charset", "charset=", "CHARSET=UTF-8", "charset =utf-8",
                    "charset='utf-8'", 'charset="utf-8', "charset*=''", "charset*='", "charset*=\xff''\xfe", "x=y; charset=utf-8", "=utf-8", "charset=utf-8;"):
            out.append(('ctype-param %s' % par, {'CONTENT_TYPE': '%s; %s' % (fam.ctype, par)}, good))
        for ln in ('x', '', '-1', '1e3', ' 5', '99999999999999999999999'):
            out.append(('content-length=%r' % ln, {'CONTENT_LENGTH': ln}, good))
        for ct in ('', 'zz', 'multipart/related', 'multipart/related; boundary=x', 'text/xml;;;', ';'):
            out.append(('content-type=%r' % ct, {'CONTENT_TYPE': ct}, good))
        if fam.kind == 'xml':
            # SOAP with attachments: the (valid) request as the single root part of a multipart/related body - with and without
            # a charset on the transport, an XML declaration in the part, an attachment nobody refers to, parts cut short
            for label, part, tail in [('root', good, b''), ('root+decl', b"<?xml version='1.0' encoding='utf-8'?>" + good, b''),
                                      ('root+attachment', good, b'--BB\r\nContent-Type: application/octet-stream\r\nContent-ID: <a1>\r\n\r\nxyz\r\n'),
                                      ('root+decl+attachment', b"<?xml version='1.0' encoding='utf-8'?>" + good,
                                       b'--BB\r\nContent-Type: application/octet-stream\r\nContent-ID: <a1>\r\n\r\nxyz\r\n'),
                                      ('no-end', good, None)]:
                mp = b'--BB\r\nContent-Type: text/xml; charset=utf-8\r\nContent-ID: <root>\r\n\r\n' + part + b'\r\n' + (tail or b'') + (b'--BB--\r\n' if tail is not None else b'')
                for cs in ('', '; charset=utf-8', '; charset=bogus', '; type="text/xml"; start="<root>"'):
                    out.append(('swa %s%s' % (label, cs), {'CONTENT_TYPE': 'multipart/related; boundary=BB' + cs}, mp))
        # nesting beyond any interpreter stack
        for n in (1000, 100000):
            if n > 1000 and fam.name.startswith('yaml'):
                continue          # (libyaml's C composer recurses on the C stack: the PROCESS dies of a segmentation fault - see DESIGN)
            if fam.kind == 'dict' and fam.name.startswith(('json', 'yaml')):
                out.append(('deep[%d' % n, {}, b'[' * n))
                out.append(('deep{%d' % n, {}, b'{"f":' * n))
            if fam.kind == 'dict' and fam.name.startswith('msgpack'):
                out.append(('deep[%d' % n, {}, b'\x91' * n))
                out.append(('deep{%d' % n, {}, b'\x81\xa1f' * n))
        if fam.name == 'jsonrpc':
            inner = fam.jreq(VAL)
            for label, doc in [('head-int', {'ver': 1, 'head': 5, 'body': inner}), ('head-list-int', {'ver': 1, 'head': [5], 'body': inner}),
                               ('head-str', {'ver': 1, 'head': 'abc', 'body': inner}), ('head-map', {'ver': 1, 'head': {'who': 'me'}, 'body': inner}),
                               ('head-list-map', {'ver': 1, 'head': [{'who': ['x']}], 'body': inner}), ('head-null', {'ver': 1, 'head': None, 'body': inner}),
                               ('fault-int', {'ver': 1, 'fault': 5}), ('fault-map', {'ver': 1, 'fault': {'faultcode': 'x'}}),
                               ('fault-and-body', {'ver': 1, 'fault': {'faultcode': 'Client.X', 'faultstring': 's'}, 'body': inner}),
                               ('no-ver', {'body': inner}), ('ver-2', {'ver': 2, 'body': inner}), ('ver-str', {'ver': '1', 'body': inner}),
                               ('body-list', {'ver': 1, 'body': [inner]}), ('body-two', {'ver': 1, 'body': {'f': {}, 'g': {}}}), ('body-null', {'ver': 1, 'body': None}),
                               ('root-list', [1]), ('root-int', 5), ('empty-map', {})]:
                out.append(('envelope ' + label, {}, json.dumps(doc).encode()))
        if fam.name == 'mprpc':
            import msgpack
            for label, doc in [('name-not-utf8', [0, 1, b'\xff\xfe', []]), ('type-notify', [2, 1, 'f', []]), ('type-response', [1, 1, 'f', []]),
                               ('type-array', [[0], 1, 'f', []]), ('type-map', [{}, 1, 'f', []]), ('type-9', [9, 1, 'f', []]),
                               ('params-nil', [0, 1, 'f', None]), ('no-params', [0, 1, 'f']), ('two', [0, 1]), ('five', [0, 1, 'f', [], 5]),
                               ('string', 'x'), ('params-map', [0, 1, 'f', {'n': 5}]), ('params-int', [0, 1, 'f', 5]), ('name-int', [0, 1, 5, []]),
                               ('name-nil', [0, 1, None, []]), ('name-list', [0, 1, ['f'], []]), ('error-map', [0, 1, {'faultcode': 'x'}, []])]:
                out.append(('rpc ' + label, {}, msgpack.packb(doc, use_bin_type=True)))
        if fam.kind == 'dict' and fam.name.startswith('yaml'):
            out.append(('yaml 5000-digit integer', {}, b'f: {n: ' + b'9' * 5000 + b'}'))
            out.append(('yaml tagged sequence', {}, b'f: {c: {s: !!python/unicode [a]}, n: 5}'))
            out.append(('yaml tagged mapping', {}, b'f: {c: {s: !!python/unicode {a: b}}, n: 5}'))
            out.append(('yaml python object', {}, b'f: {c: {s: !!python/object/apply:os.getcwd []}, n: 5}'))
            out.append(('yaml alias bomb', {}, b'a: &a [x,x,x,x,x,x,x,x,x]\nb: &b [*a,*a,*a,*a,*a,*a,*a,*a,*a]\nc: &c [*b,*b,*b,*b,*b,*b,*b,*b,*b]\nf: {c: {s: *c}, n: 5}'))
            out.append(('yaml merge key', {}, b'base: &b {i: 1}\nf: {c: {<<: *b, s: x}, n: 5}'))
        if fam.kind == 'dict' and fam.name.startswith('msgpack'):
            import msgpack
            out.append(('badutf8 method key', {}, msgpack.packb({b'\xff\xfe': {}}, use_bin_type=True)))
            out.append(('badutf8 str method key', {}, b'\x81\xa2\xff\xfe\x80'))
            d = fam.jreq(VAL); c = d['f']['c'].get('C', d['f']['c']); c['s'] = b'\xff\xfe'
            out.append(('badutf8 bin text', {}, msgpack.packb(d, use_bin_type=True)))
    # texts that survive parsing and break the fault's way out
    if fam.kind in ('dict', 'flat'):
        for h in ('P\x01', '\x00', '\ud800', 'P1\x7fD'):
            v = dict(VAL); v['du'] = h
            try:
                if fam.kind == 'dict':
                    out.append(('ctl du=%r' % h, {}, fam.dump(fam.jreq(v))))
                else:
                    out.append(('ctl du=%r' % h, {'REQUEST_METHOD': 'GET', 'PATH_INFO': '/f', 'QUERY_STRING': 'c.du=' + quote(h, errors='surrogatepass')}, b''))
            except Exception:
                pass
    return out


def fault_doc(fam, body):
    """-> (is a well-formed fault document of the output family, code segments)"""
    try:
        if fam.out in ('xml', 'soap11', 'soap12'):
            from lxml import etree
            root = etree.fromstring(body)
            fe = [e for e in root.iter() if isinstance(e.tag, str) and etree.QName(e).localname == 'Fault'][0]
            kids = {etree.QName(c).localname: c for c in fe if isinstance(c.tag, str)}
            if fam.out == 'soap12':
                vals = [e.text for e in kids['Code'].iter() if etree.QName(e).localname == 'Value']
                head = {'Sender': 'Client', 'Receiver': 'Server'}.get(vals[0].split(':')[-1], '?')
                return True, [head] + vals[1:]
            code = kids['faultcode'].text
            kids['faultstring']
            return True, (code.split(':', 1)[1] if ':' in code else code).split('.')
        if fam.out == 'httprpc':
            code, sep, msg = body.decode('utf8').partition('\n\n')
            return bool(sep), code.split('.')
        if fam.out == 'mprpc':
            import msgpack
            doc = msgpack.unpackb(body, raw=False, strict_map_key=False)
            doc = doc[2]
            return isinstance(doc.get('faultstring'), str), doc['faultcode'].split('.')
        if fam.out in ('json', 'http', 'json_w'):
            doc = json.loads(body.decode('utf8'))
        elif fam.out in ('yaml', 'yaml_w'):
            import yaml
            doc = yaml.safe_load(body.decode('utf8'))
        else:
            import msgpack
            doc = msgpack.unpackb(body, raw=False, strict_map_key=False)
        return isinstance(doc.get('faultstring'), str), doc['faultcode'].split('.')
    except Exception:
        return False, ['?']


def site_of(e):
    tb = traceback.extract_tb(e.__traceback__)
    for fr in reversed(tb):
        if '/spyne/' in fr.filename:
            return '%s:%s' % (fr.filename.split('/spyne/', 1)[1], fr.name)
    return '?'


def server_fault_site(run_once):
    """Re-run with logging on to learn where a generic Server fault came from."""
    import logging
    found = []

    class H(logging.Handler):
        def emit(self, rec):
            if rec.exc_info and rec.exc_info[1] is not None:
                found.append('%s@%s' % (type(rec.exc_info[1]).__name__, site_of(rec.exc_info[1])))
    h = H()
    lg = logging.getLogger('spyne')
    logging.disable(logging.NOTSET)
    old = lg.level
    lg.addHandler(h)
    try:
        run_once()
    except Exception:
        pass
    finally:
        lg.removeHandler(h)
        logging.disable(logging.CRITICAL)
    return found[-1] if found else 'unknown'


PROBE = '''
import io, sys, logging
sys.path.insert(0, %(verif)r)
from harness import core
core.use_repo()
logging.disable(logging.CRITICAL)
from harness.checks import c10
from spyne.server.wsgi import WsgiApplication
fam = [f for f in c10.families() if f.name == %(fam)r][0]
w = WsgiApplication(c10.mkapp(fam.mk_in(validator='soft'), fam.mk_out(), header=fam.name == 'jsonrpc'))
body = %(body)s
env = {'REQUEST_METHOD': 'POST', 'PATH_INFO': '/', 'QUERY_STRING': '', 'CONTENT_TYPE': fam.ctype, 'wsgi.input': io.BytesIO(body),
       'wsgi.url_scheme': 'http', 'SERVER_NAME': 'x', 'SERVER_PORT': '80', 'CONTENT_LENGTH': str(len(body))}
st = []
try:
    b''.join(w(env, lambda s, h, e=None: st.append(s)))
    print('STATUS', st[0])
except BaseException as e:
    print('ESCAPE', type(e).__name__)
'''


def process_probes(ctx):
    """Requests that may take the whole PROCESS down run in a child process each; a death by signal is a crash."""
    import subprocess
    from .. import core
    n = 0
    for fam, label, body in [('yaml', 'deep[100000', "b'[' * 100000"), ('yaml', 'deep{100000', "b'{a: ' * 100000"),
                             ('yaml_w', 'deep[100000', "b'[' * 100000"),
                             ('json', 'deep[1000000', "b'[' * 1000000"), ('msgpack', 'deep[1000000', "b'\\x91' * 1000000"),
                             ('xml', 'deep<1000000', "b'<a>' * 1000000"), ('soap11', 'deep<1000000', "b'<a>' * 1000000")][:(3 if ctx.quick else 99)]:
        code = PROBE % {'verif': core.VERIF, 'fam': fam, 'body': body}
        p = subprocess.run([sys.executable, '-c', code], stdout=subprocess.PIPE, stderr=subprocess.PIPE, timeout=600,
                           env=dict(os.environ, PYTHONHASHSEED='0'))
        n += 1
        out = p.stdout.decode('utf8', 'replace').strip().splitlines()
        last = out[-1] if out else ''
        if p.returncode < 0:
            ctx.violation('process-crash|signal=%d|fam=%s|deep-nesting' % (-p.returncode, fam.split('_')[0]),
                          'the server PROCESS died of signal %d while handling %s (%s)' % (-p.returncode, label, fam),
                          {'family': fam, 'mutation': label, 'stderr': p.stderr.decode('utf8', 'replace')[-400:]})
        elif last.startswith('ESCAPE'):
            ctx.violation('escape|%s|process-probe|fam=%s' % (last.split()[1], fam), 'exception %s escaped while handling %s (%s)' % (last, label, fam),
                          {'family': fam, 'mutation': label})
        elif not last.startswith('STATUS 4') and not (fam.startswith('soap') and last.startswith('STATUS 500')):
            ctx.violation('outcome|process-probe|fam=%s|%s' % (fam, last[:20]), 'unexpected outcome %r for %s (%s)' % (last, label, fam),
                          {'family': fam, 'mutation': label, 'rc': p.returncode, 'stderr': p.stderr.decode('utf8', 'replace')[-400:]})
    ctx.cov_add(process_probes=n)
    return n


def run(ctx):
    from spyne.server.wsgi import WsgiApplication
    from spyne.server import ServerBase
    from spyne import MethodContext
    pc.check_design(ctx, 'events', ['BadReqIsClient', 'NoFnOnInFault', 'NoEscape', 'FnAtMostOnce', 'CountersAgree'], [])
    recs, meta = [], []
    for fam in families():
        for val in ('soft', None):
            app = mkapp(fam.mk_in(validator=val), fam.mk_out(), header=fam.name == 'jsonrpc')
            w = WsgiApplication(app)
            wsmall = WsgiApplication(app, max_content_length=64, block_length=16)
            sb = ServerBase(app)
            cases = corpus(fam, ctx.quick)
            if fam.kind != 'flat':
                cases = cases + [('toolong:' + c[0], dict(c[1], _small=True), c[2]) for c in cases[:3] if len(c[2]) > 64]
            if fam.kind == 'xml':
                # the same structural mutants framed the way real SOAP clients frame them: a charset on the transport and an
                # XML declaration naming an encoding in front of the (mutilated) document
                decl = b"<?xml version='1.0' encoding='utf-8'?>"
                cases = cases + [('decl:' + c[0], dict(c[1], _decl=True), decl + c[2]) for c in cases
                                 if not c[0].startswith(('leaf ', 'rand', 'toolong')) or c[0].startswith('rand1')]
            for label, envx, body in cases:
                for tr in (('wsgi',) if fam.kind == 'flat' or envx.get('_small') else ('wsgi', 'base')):
                    del RAN[:]
                    log = []
                    status = [0]
                    out = b''
                    err = None

                    def once():
                        if tr == 'wsgi':
                            env = {'REQUEST_METHOD': 'POST', 'PATH_INFO': '/', 'QUERY_STRING': '',
                                   'CONTENT_TYPE': fam.ctype or 'text/plain', 'wsgi.input': io.BytesIO(body),
                                   'wsgi.url_scheme': 'http', 'SERVER_NAME': 'x', 'SERVER_PORT': '80',
                                   'CONTENT_LENGTH': str(len(body))}
                            env.update(envx)
                            for k_ in [k for k, v_ in env.items() if v_ is None]:
                                del env[k_]                   # (None: the key is absent from the environ)
                            small = env.pop('_small', False)
                            if env.pop('_decl', False):
                                env['CONTENT_TYPE'] = (fam.ctype or 'text/xml') + '; charset=utf-8'
                            st = []
                            o = b''.join((wsmall if small else w)(env, lambda s, h, e=None: st.append(s)))
                            return int(st[0].split()[0]), o, None
                        c = MethodContext(sb, MethodContext.SERVER)
                        c.in_string = [body]
                        p = sb.generate_contexts(c, 'utf-8' if envx.get('_decl') else None)[0]
                        if not p.in_error: sb.get_in_object(p)
                        if not p.in_error: sb.get_out_object(p)
                        sb.get_out_string(p)
                        return 0, b''.join(p.out_string), p.out_error
                    try:
                        status[0], out, err = once()
                    except Exception as e:
                        log.append(['escape', type(e).__name__])
                        site = site_of(e)
                    if RAN:
                        log[0:0] = [['app', 'method_call']] + [['fn', 'call']] * len(RAN)
                    escaped = any(x[0] == 'escape' for x in log)
                    if tr == 'wsgi':
                        isfault = status[0] >= 400 or (fam.out.startswith('soap') and status[0] == 500)
                    else:
                        isfault = err is not None
                    ok, code = (True, [])
                    if isfault and not escaped:
                        ok, code = fault_doc(fam, out)
                    k = {'tr': tr, 'rpc': True, 'soap': fam.out.startswith('soap'), 'done': not escaped,
                         'fault': bool(isfault), 'code': code if isfault else [], 'status': status[0], 'faultDocOk': ok,
                         'mayEscape': False}
                    recs.append({'obs': log, 'k': k})
                    meta.append((fam, val, label, tr, body, envx, site if escaped else None, once))
    fails = pc.monitor(ctx, recs, ['FuzzOutcome', 'FnAtMostOnce', 'NoEscape'], chunk=20000)
    for i, cl in sorted(fails.items()):
        fam, val, label, tr, body, envx, site, once = meta[i]
        k = recs[i]['k']
        if site:
            what = 'escape %s at %s' % (recs[i]['obs'][-1][1], site)
            key = 'escape|%s|%s|fam=%s' % (recs[i]['obs'][-1][1], site, fam.kind)
        elif k['fault'] and k['code'][:1] != ['Client']:
            origin = server_fault_site(once)
            what = 'malformed request answered with fault code %s (%s)' % ('.'.join(k['code']), origin)
            key = 'serverfault|%s|fam=%s' % (origin, fam.kind)
        elif k['fault'] and any(x == ['fn', 'call'] for x in recs[i]['obs']):
            what = 'user function ran for a request answered with a fault'
            key = 'fn-ran-on-fault|fam=%s|val=%s' % (fam.name, val)
        else:
            what = 'outcome not allowed by C10: %s' % k
            key = 'outcome|fam=%s|status=%s|docok=%s|fault=%s' % (fam.name, k['status'], k['faultDocOk'], k['fault'])
        ctx.violation(key, '%s [%s/%s/%s %s]' % (what, fam.name, val, tr, label),
                      {'family': fam.name, 'validator': val, 'transport': tr, 'mutation': label,
                       'body': body[:600].decode('latin1'), 'env': envx, 'k': k, 'history': recs[i]['obs']})
    ncrash = process_probes(ctx)
    labels = set((m[0].name, m[2]) for m in meta)
    ctx.cov_add(traces_validated_against_impl=len(recs) - len(fails), evaluations=len(recs),
                distinct_nontrivial=len(labels), exhaustive=True,
                rule='closed corpus: %d hostile leaf texts x %d fields, truncations, 11 structural operators at every XML '
                     'node, %d alien kinds at every dict path, flat-key abuse, fixed pseudo-random bytes; x 7 input families '
                     'x validator {soft, None} x {WSGI, ServerBase}; distinct = distinct (family, mutation)'
                     % (len(HOSTILE), len(VAL), len(ALIENS)))
    ctx.sample({'family': meta[0][0].name, 'mutation': meta[0][2], 'k': recs[0]['k']})
    j = len(meta) // 2
    ctx.sample({'family': meta[j][0].name, 'mutation': meta[j][2], 'body': meta[j][4][:120].decode('latin1'), 'k': recs[j]['k']})
    ctx.assumptions += ['the byte-level corpus is generated by the driver (TLC cannot enumerate bytes); TLC decides each observed behaviour',
                        'a normal response to a mutated request is allowed (the mutation may keep it valid)']
