"""C14 - event hooks fire in documented order, exactly once, on success and failure.

 M1  SpynePipeline (events scenario family) |= the C14 clauses of PipelineProps;
     each named deviation breaks the clause it is said to break (non-vacuity).
 M1  SpyneEvents |= NoDup, OrderKept, Inherits, Frame.
 M2  every edge of the SpyneEvents state graph is replayed on real EventManager /
     Service classes, the run order of every manager compared after the step.
 M2+M3  every scenario TLC exports (stage x outcome x listener position x family x
     transport) is driven through the real code; TLC evaluates the C14 clauses on
     the recorded merged history (verdict) and checks that the history is a
     behaviour of the pipeline model (conformance, reported, not a verdict).
"""
import os, json
from .. import tlc, tlaval, pipeline_common as pc

CLAUSES = ['BoundLevelsSee', 'CreatedFirst', 'CreatedOnce', 'ClosedOnce', 'ClosedLast', 'FnAtMostOnce',
           'FnAfterCall', 'RetObjIffRet', 'ExcObjIffFault', 'DocStrMatch', 'LevelsFollow',
           'SvcSubApp', 'NoForeign', 'NoEscape']
M1_INV = ['CreatedFirst', 'CreatedOnce', 'ClosedOnce', 'ClosedLast', 'FnAtMostOnce', 'FnAfterCall',
          'RetObjIffRet', 'ExcObjIffFault', 'DocStrMatch', 'LevelsFollow', 'CountersAgree', 'NoEscape']


def replay_events_graph(ctx, maxops):
    from spyne import Service, EventManager
    cfg = pc.write_cfg(os.path.join(ctx.work, 'mcev.cfg'), [
        'SPECIFICATION Spec', 'CONSTANT Handlers = {"h1", "h2"}', 'CONSTANT Events = {"ea", "eb"}',
        'CONSTANT MaxOps = %d' % maxops, 'INVARIANT NoDup', 'PROPERTY OrderKept', 'PROPERTY Inherits',
        'PROPERTY Frame', 'CHECK_DEADLOCK FALSE'])
    dump = os.path.join(ctx.work, 'evgraph')
    r = tlc.run('SpyneEvents', cfg, ctx.work, workers=4, dump=dump)
    if not r.ok:
        raise tlc.TlcError('SpyneEvents violates %s' % r.violated)
    ctx.cov_add(states=r.distinct, transitions=r.generated)
    nodes, edges, init = tlaval.read_dot(dump + '.dot')
    paths = tlaval.bfs_paths(nodes, edges, init)
    out = []

    def mk(name):
        def h(c): out.append(name)
        h.__name__ = name
        return h
    H = {'h1': mk('h1'), 'h2': mk('h2')}

    def fresh():
        w = {'app': EventManager(None)}
        w['B1cls'] = type('B1', (Service,), {})
        w['B2cls'] = type('B2', (Service,), {})
        w['B1'] = w['B1cls'].event_manager
        w['B2'] = w['B2cls'].event_manager
        return w

    def step(w, label):
        name, a = tlaval.parse_action(label)
        if name == 'Add':
            w[a[0]].add_listener(a[1], H[a[2]])
        elif name == 'Del':
            w[a[0]].del_listener(a[1], H[a[2]])
        elif name == 'Subclass':
            w['Dcls'] = type('D', (w['B1cls'], w['B2cls']), {})
            w['D'] = w['Dcls'].event_manager
        else:
            raise tlc.TlcError('unknown action ' + label)

    def project(w):
        st = {}
        for m in ('app', 'B1', 'B2', 'D'):
            st[m] = {}
            for e in ('ea', 'eb'):
                del out[:]
                if m in w:
                    w[m].fire_event(e, None)
                st[m][e] = tuple(out)
        return st

    n = 0
    for a, b, label in edges:
        w = fresh()
        try:
            for l in paths[a]:
                step(w, l)
                project(w)          # every event is FIRED on every manager after every operation: firing is an observation,
                                    # it leaves the tables as they are (SpyneEvents: no action for it)
            step(w, label)
            got = project(w)
        except Exception as e:
            got = 'exception %s' % type(e).__name__
        want = nodes[b]['tab']
        n += 1
        if got != want:
            name, args = tlaval.parse_action(label)
            ctx.violation('events-graph|%s' % name,
                          'listener table after %s differs from SpyneEvents: real %r, spec %r' % (label, got, want),
                          {'path': paths[a] + [label], 'real': got, 'spec': want})
    ctx.cov_add(graph_edges_replayed=n)
    ctx.sample({'events_graph_edge': edges[len(edges) // 2][2], 'path': paths[edges[len(edges) // 2][0]]})
    return n


def run(ctx):
    from .. import drive_pipeline as dp
    sanity = [('NoExcObjOnSerFail', 'ExcObjIffFault')]
    pc.check_design(ctx, 'events', M1_INV, sanity)
    n_edges = replay_events_graph(ctx, 3 if ctx.quick else 4)
    # the event family, plus the small WSGI family (request size limits, aborts, ?wsdl): the same clauses "for every call"
    # (plain results, responses consumed to the end: generator bodies and aborts have their own clauses in C13)
    scens = pc.export_scenarios(ctx, 'events') + [s for s in pc.export_scenarios(ctx, 'wsgitiny' if ctx.quick else 'wsgiq')
                                                 if s['inj'].get('res', 'plain') == 'plain' and s['abort'] == 99]
    # the in-process transport (NullServer) is a ServerBase too: the same calls made directly
    import copy
    for s0 in [x for x in scens if x['cfg']['tr'] == 'base' and x['cfg']['family'] == 'xml' and x['req']['class'] == 'valid' and x['inj'].get('fin', 'ok') == 'ok']:
        s2 = copy.deepcopy(s0)
        s2['cfg']['tr'] = 'null'
        scens.append(s2)
    for s in scens:
        if s['cfg']['tr'] == 'wsgi' and s['cfg']['maxlen'] <= 4:
            s['units'] = True          # lengths of the small WSGI family are in units (drive_pipeline.UNIT bytes)
    recs = []
    for s in scens:
        r = dp.run(s)
        recs.append(r)
    fails = pc.monitor(ctx, recs, CLAUSES)
    for i, cl in sorted(fails.items()):
        s = recs[i]['scen']
        ctx.violation('%s|%s' % ('+'.join(sorted(cl)), pc.scen_key(s)),
                      'clauses %s fail on the recorded history of scenario %s' % (sorted(cl), pc.scen_key(s)),
                      {'scenario': s, 'history': recs[i]['obs'], 'k': recs[i]['k']})
    # exact conformance with the model is computed for the event family (the WSGI family is C13's)
    erecs = [r for r in recs if not r['scen'].get('units') and r['scen']['cfg']['tr'] != 'null']
    acc = pc.conformance(ctx, erecs, 'events')
    rej = [i for i in range(len(erecs)) if i not in acc]
    if rej:
        ctx.notes.append('%d of %d histories are not behaviours of SpynePipeline (model drift, not a verdict); first: %s'
                         % (len(rej), len(erecs), pc.scen_key(erecs[rej[0]]['scen'])))
    ctx.cov_add(traces_validated_against_impl=len(recs) - len(fails), scenarios=len(recs),
                conformant_histories=len(acc), evaluations=len(recs) + n_edges,
                distinct_nontrivial=len(set(pc.scen_key(r['scen']) for r in recs)),
                exhaustive=True,
                rule='every scenario of SpynePipeline.EventScenarios (stage x outcome x raising-listener position x '
                     'family x transport) exported by TLC and driven once; every edge of the SpyneEvents graph')
    ctx.sample({'scenario': recs[0]['scen'], 'history': recs[0]['obs']})
    mid = recs[len(recs) // 2]
    ctx.sample({'scenario': mid['scen'], 'history': mid['obs']})
    ctx.assumptions += ['TLC 1.8, the TLA+ modules SpynePipeline/PipelineProps/SpyneEvents',
                        'listeners see what the event managers deliver; the merged order is the order of listener calls in one thread']
