"""C08 - primitive text forms are lossless and lie in the XSD lexical space.

 M4  SpyneLexical builds, by construction, the read table (literal -> denoted value;
     all 1682 UTC-offset spellings x 8 fraction classes for dateTime, integer boundaries
     of every fixed-width type, decimal/double/duration/boolean/binary/uuid/text classes,
     as_timezone) and the write table (value -> literals that denote it); TLC checks the
     tables' own laws and exports them.  Every row is run through from_unicode /
     to_unicode of ProtocolBase, XmlDocument, Soap11 and HttpRpc; the observation is
     projected to the module's value records and TLC evaluates ReadOk / WriteDenotes /
     WriteInLexicalSpace; printed text is also given to lxml's XML Schema processor as a
     literal of the advertised xs: type.
"""
import datetime, decimal, json, os, uuid
from .. import tlc, pipeline_common as pc

TEXT = {'ascii': 'hello', 'spaces': '  lead and trail  ', 'uni': 'mésságe 日本語 \U0001d518 Ж', 'markup': '<b>&amp; "q" \'a\' ]]> </b>',
        'empty1': ' ', 'digits': '007', 'nl': 'line1\nline2',
        'uri_http': 'http://example.com/a/b?c=d&e=f#frag', 'uri_urn': 'urn:isbn:0451450523', 'uri_mailto': 'mailto:a@example.com',
        'uri_rel': '../x/y.html', 'uri_pct': 'http://example.com/%E2%82%AC/%20x'}
XS = {'Integer': 'integer', 'Integer8': 'byte', 'Integer16': 'short', 'Integer32': 'int', 'Integer64': 'long',
      'UnsignedInteger8': 'unsignedByte', 'UnsignedInteger16': 'unsignedShort', 'UnsignedInteger32': 'unsignedInt',
      'UnsignedInteger64': 'unsignedLong', 'Decimal': 'decimal', 'Double': 'double', 'Boolean': 'boolean',
      'DateTime': 'dateTime', 'Date': 'date', 'Time': 'time', 'Duration': 'duration', 'Uuid': 'string',
      'Unicode': 'string', 'AnyUri': 'anyURI'}
_SCHEMAS = {}


def xsd_accepts(xstype, text):
    from lxml import etree
    s = _SCHEMAS.get(xstype)
    if s is None:
        s = _SCHEMAS[xstype] = etree.XMLSchema(etree.fromstring(
            '<xs:schema xmlns:xs="http://www.w3.org/2001/XMLSchema"><xs:element name="v" type="xs:%s"/></xs:schema>' % xstype))
    e = etree.Element('v')
    try:
        e.text = text
    except ValueError:
        return False          # not even XML character data
    return bool(s.validate(e))


def model_of(row):
    import spyne
    from spyne import ByteArray
    from pytz import FixedOffset
    T = getattr(spyne, row['t'], None) or getattr(spyne.model.primitive, row['t'])
    c = row['cust']
    if c == 'as_timezone+02:00':
        return T(as_timezone=FixedOffset(120))
    if c == 'timezone=False':
        return T(timezone=False)
    if row['t'] == 'ByteArray':
        return ByteArray(encoding=c)
    return T


def advertised(M):
    """the xs: type the model class itself advertises (what the schema generator publishes for it), or None"""
    c = M
    for _ in range(10):
        if c is None:
            return None
        try:
            if c.get_namespace() == 'http://www.w3.org/2001/XMLSchema':
                return c.get_type_name()
        except Exception:
            return None
        c = getattr(c, '__extends__', None)
    return None


def xs_of(row):
    if row['t'] == 'ByteArray':
        return 'hexBinary' if row['cust'] == 'hex' else ('base64Binary' if row['cust'] == 'base64' else 'string')
    return XS[row['t']]


def to_native(row):
    from pytz import FixedOffset
    t, v = row['t'], row['val']
    if t.startswith('Integer') or t.startswith('Unsigned'):
        return int(v['d']) * (-1 if v['s'] == '-' else 1)
    if t == 'Decimal':
        txt = ('-' if v['s'] == '-' else '') + v['i'] + ('.' + v['f'] if v['f'] else '')
        d = decimal.Decimal(txt)
        if row.get('form') == 'exp':
            # the same number held with a different exponent, as arithmetic or parsing may produce it
            sign, digits, exp = d.as_tuple()
            ds = ''.join(map(str, digits)).rstrip('0') or '0'
            z = len(''.join(map(str, digits))) - len(ds)
            d = decimal.Decimal('%s%sE%+d' % ('-' if sign else '', ds, exp + z))
        return d
    if t == 'Double':
        return float(v['r'])
    if t == 'Boolean':
        return bool(v['b'])
    if t == 'DateTime':
        tz = None if v['off'] == 9999 else FixedOffset(v['off'])
        return datetime.datetime(v['y'], v['mo'], v['d'], v['h'], v['mi'], v['s'], v['us'], tz)
    if t == 'Date':
        return datetime.date(v['y'], v['mo'], v['d'])
    if t == 'Time':
        return datetime.time(v['h'], v['mi'], v['s'], v['us'])
    if t == 'Duration':
        td = datetime.timedelta(days=v['days'], seconds=v['secs'], microseconds=v['us'])
        return -td if v['neg'] else td
    if t == 'Uuid':
        return uuid.UUID(v['hex'])
    if t == 'ByteArray':
        b = bytes(v['b'])
        return [b] if row.get('form') != 'two' else [b[:2], b[2:]]
    if t in ('Unicode', 'AnyUri'):
        return TEXT[v['id']]
    raise ValueError(t)


def to_record(t, x):
    if t.startswith('Integer') or t.startswith('Unsigned'):
        if isinstance(x, bool) or not isinstance(x, int):
            return {'wrongtype': type(x).__name__}
        return {'s': '-' if x < 0 else '+', 'd': str(abs(x))}
    if t == 'Decimal':
        if not isinstance(x, decimal.Decimal):
            return {'wrongtype': type(x).__name__}
        sign, digits, exp = x.as_tuple()
        if not isinstance(exp, int):
            return {'special': str(x)}
        ds = ''.join(map(str, digits))
        if exp >= 0:
            i, f = ds + '0' * exp, ''
        else:
            ds = ds.rjust(-exp + 1, '0')
            i, f = ds[:exp], ds[exp:]
        i = i.lstrip('0') or '0'
        f = f.rstrip('0')
        if i == '0' and f == '':
            sign = 0
        return {'s': '-' if sign else '+', 'i': i, 'f': f}
    if t == 'Double':
        if not isinstance(x, float):
            return {'wrongtype': type(x).__name__}
        if x != x: return {'k': 'nan', 'r': 'nan'}
        if x == float('inf'): return {'k': 'inf', 'r': 'inf'}
        if x == float('-inf'): return {'k': 'ninf', 'r': '-inf'}
        return {'k': 'fin', 'r': repr(x)}
    if t == 'Boolean':
        return {'b': x} if isinstance(x, bool) else {'wrongtype': type(x).__name__}
    if t == 'DateTime':
        off = 9999 if x.utcoffset() is None else int(x.utcoffset().total_seconds() // 60)
        return {'y': x.year, 'mo': x.month, 'd': x.day, 'h': x.hour, 'mi': x.minute, 's': x.second, 'us': x.microsecond, 'off': off}
    if t == 'Date':
        if isinstance(x, datetime.datetime):
            return {'wrongtype': 'datetime'}
        return {'y': x.year, 'mo': x.month, 'd': x.day}
    if t == 'Time':
        return {'h': x.hour, 'mi': x.minute, 's': x.second, 'us': x.microsecond}
    if t == 'Duration':
        neg = x < datetime.timedelta(0)
        a = -x if neg else x
        return {'neg': neg, 'days': a.days, 'secs': a.seconds, 'us': a.microseconds}
    if t == 'Uuid':
        return {'hex': x.hex}
    if t == 'ByteArray':
        if isinstance(x, (list, tuple)):
            x = b''.join(x)
        return {'b': list(x)} if isinstance(x, (bytes, bytearray)) else {'wrongtype': type(x).__name__}
    if t in ('Unicode', 'AnyUri'):
        for k, s in TEXT.items():
            if s == x:
                return {'id': k}
        return {'id': '?'}
    raise ValueError(t)


def row_class(row, direction):
    t, v = row['t'], row['val']
    if t == 'DateTime' and direction == 'in' and not row['cust']:
        lit = row['lit']
        z = lit[19:]
        frac = ''
        if z.startswith('.'):
            j = 1
            while j < len(z) and z[j].isdigit(): j += 1
            frac, z = z[:j], z[j:]
        zc = 'none' if z == '' else ('Z' if z == 'Z' else '%s,mm%s0' % (z[0], '=' if z.endswith(':00') else '!='))
        return 'zone=%s|frac=%s' % (zc, frac or '-')
    if direction == 'in':
        return 'lit=%s' % row['lit'][:40]
    if t == 'DateTime':
        return 'off=%s|us=%s' % (v['off'], v['us'])
    return 'val=%s|form=%s' % (json.dumps(v, sort_keys=True)[:60], row.get('form', ''))


def protocols():
    from spyne.protocol import ProtocolBase
    from spyne.protocol.xml import XmlDocument
    from spyne.protocol.soap import Soap11
    from spyne.protocol.http import HttpRpc
    return [('base', ProtocolBase()), ('xml', XmlDocument()), ('soap11', Soap11()), ('http', HttpRpc())]


def run(ctx):
    out = os.path.join(ctx.work, 'lexical.json')
    cfg = pc.write_cfg(os.path.join(ctx.work, 'expl.cfg'), ['INIT Init', 'NEXT Next', 'CHECK_DEADLOCK FALSE'])
    tlc.run('ExportLexical', cfg, ctx.work, env={'OUT_FILE': out}, timeout=600)
    d = json.load(open(out))
    rin = sorted(d['in'], key=lambda r: json.dumps(r, sort_keys=True))
    rout = sorted(d['out'], key=lambda r: json.dumps(r, sort_keys=True))
    prots = protocols()
    recs = []
    for row in rin:
        M = model_of(row)
        lit = TEXT[row['lit']] if row['t'] in ('Unicode', 'AnyUri') else row['lit']
        for pname, p in prots:
            if row['t'] == 'ByteArray':
                args = (M, lit, row['cust'])
            else:
                args = (M, lit)
            try:
                x = p.from_unicode(*args)
                obs = {'ok': True, 'val': to_record(row['t'], x)}
            except Exception as e:
                obs = {'ok': False, 'val': {}, 'exc': type(e).__name__}
            recs.append({'dir': 'in', 'prot': pname, 'row': row, 'obs': obs})
    for row in rout:
        M = model_of(row)
        try:
            native = to_native(row)
        except Exception as e:
            raise tlc.TlcError('cannot build native for %s: %s' % (row, e))
        lits = [TEXT[x] for x in row['lits']] if row.get('form') == 'textid' else row['lits']
        row2 = dict(row, lits=lits)
        for pname, p in prots:
            if row['t'] == 'ByteArray':
                args = (M, native, row['cust'])
            else:
                args = (M, native)
            try:
                s = p.to_unicode(*args)
                if isinstance(s, bytes):
                    s = s.decode('utf8')
                if isinstance(s, (list, tuple)):
                    s = ''.join(x.decode('utf8') if isinstance(x, bytes) else x for x in s)
                adv = advertised(M)
                # the printed text is a literal of the xs: type of the table AND of the type the class advertises
                obs = {'ok': isinstance(s, str), 'text': s if isinstance(s, str) else repr(s),
                       'xsd': isinstance(s, str) and xsd_accepts(xs_of(row), s) and (adv is None or xsd_accepts(adv, s))}
            except Exception as e:
                obs = {'ok': False, 'text': '', 'xsd': False, 'exc': type(e).__name__}
            recs.append({'dir': 'out', 'prot': pname, 'row': row2, 'obs': obs})
    # ---- TLC verdicts
    tf = os.path.join(ctx.work, 'lex_traces.ndjson')
    with open(tf, 'w') as f:
        for r in recs:
            o = {k: v for k, v in r['obs'].items() if k != 'exc'}
            row = {k: v for k, v in r['row'].items() if k in ('val', 'lits')}
            if r['dir'] == 'in':
                row['lits'] = []
                o.setdefault('text', ''); o.setdefault('xsd', True)
            else:
                o.setdefault('val', {})
            f.write(json.dumps({'dir': r['dir'], 'row': row, 'obs': o}) + '\n')
    cfgt = pc.write_cfg(os.path.join(ctx.work, 'tracelex.cfg'), ['INIT Init', 'NEXT Next', 'CONSTRAINT Report', 'CHECK_DEADLOCK FALSE'])
    rt = tlc.run('TraceLexical', cfgt, ctx.work, env={'TRACE_FILE': tf}, timeout=1800)
    seen = set()
    nfail = 0
    for p in rt.prints:
        if p and p[0] == 'V' and p[1] not in seen:
            seen.add(p[1])
            if p[2]:
                nfail += 1
                r = recs[p[1] - 1]
                row, o = r['row'], r['obs']
                if not o['ok']:
                    oc = 'raises:%s' % o.get('exc', '?')
                elif r['dir'] == 'in':
                    oc = 'wrong-value'
                else:
                    oc = 'text=%s' % o['text'][:40]
                key = '%s|%s|%s%s|%s|%s|%s' % ('+'.join(sorted(p[2])), r['dir'], row['t'], ('(' + row['cust'] + ')') if row['cust'] else '',
                                               'prot=' + r['prot'], row_class(row, r['dir']), oc)
                if row['t'] == 'Decimal' and r['dir'] == 'out' and o['ok'] and 'E' in o['text']:
                    # one class whatever the protocol and the digits: str(Decimal) chose scientific notation
                    key = 'WriteInLexicalSpace|out|Decimal|scientific-notation|%s' % (
                        'small-magnitude' if row['val']['i'] == '0' else 'held-with-positive-exponent')
                ctx.violation(key, '%s %s %s via %s: expected %s, observed %s' % (
                    row['t'], row['cust'], 'read %r' % row.get('lit') if r['dir'] == 'in' else 'write %s' % json.dumps(row['val']),
                    r['prot'], json.dumps(row['val'])[:100] if r['dir'] == 'in' else row['lits'][:4], json.dumps(o)[:200]),
                    {'direction': r['dir'], 'protocol': r['prot'], 'row': row, 'observation': o})
    if len(seen) != len(recs):
        raise tlc.TlcError('TraceLexical evaluated %d of %d\n%s' % (len(seen), len(recs), rt.stdout[-1500:]))
    ctx.level = 'exploration'
    ctx.cov_add(traces_validated_against_impl=len(recs) - nfail, evaluations=len(recs), read_rows=len(rin), write_rows=len(rout),
                distinct_nontrivial=len(rin) + len(rout), exhaustive=True,
                rule='every row of SpyneLexical.InRows/OutRows (TLC-exported) x {ProtocolBase, XmlDocument, Soap11, HttpRpc}; '
                     'distinct = distinct table rows')
    ctx.sample({'read_row': rin[len(rin) // 2]})
    ctx.sample({'write_row': rout[len(rout) // 2]})
    ctx.assumptions += ['lxml/libxml2 as the XML Schema processor for simple-type literals',
                        'the accepted write literals are the finite sets the module lists; a correct but unlisted spelling would be reported']
