"""C09 - faults arrive intact, are classified correctly and never leak internals.

 M1  SpynePipeline |= StatusTable / NoFnOnInFault over every fault-injection scenario.
 M4  SpyneFault.Cases (fault class x dotted code x message x detail x exception kind x
     output family x method) exported by TLC; the real object is raised from a real
     user function behind WsgiApplication; the response is parsed by the family's tree
     reader and projected; TLC evaluates the SpyneFault clauses on (case, observation).
 The loopback Spyne client decodes the same responses (families whose client works).
"""
import io, json, os, random, base64
from .. import tlc, pipeline_common as pc, pool


import re
NOT_XML = re.compile(u'[\x00-\x08\x0b\x0c\x0e-\x1f\ud800-\udfff\ufffe\uffff]')


def export_cases(ctx):
    out = os.path.join(ctx.work, 'fault_cases.json')
    tlc.run('ExportFault', 'ExportFault.cfg', ctx.work, env={'OUT_FILE': out, 'FAMILY': ctx.tier}, timeout=1800)
    cs = json.load(open(out))
    cs.sort(key=lambda c: json.dumps(c, sort_keys=True))
    return cs


class World(object):
    """one application per output family, reused for all its cases"""

    def __init__(self, fam, secret):
        from spyne import Application, Service, srpc, rpc, Integer, Unicode, Fault, Iterable
        from spyne.protocol.soap import Soap11, Soap12
        from spyne.protocol.xml import XmlDocument
        from spyne.protocol.json import JsonDocument
        from spyne.protocol.yaml import YamlDocument
        from spyne.protocol.msgpack import MessagePackDocument, MessagePackRpc
        from spyne.protocol.http import HttpRpc
        from spyne.server.wsgi import WsgiApplication
        self.fam, self.secret = fam, secret
        self.pending = [None]
        pend = self.pending
        self.where = ['fn']
        where = self.where
        PROT = {'json_list': (lambda: JsonDocument(complex_as=list)),
                'xml': XmlDocument, 'soap11': Soap11, 'soap12': Soap12, 'json': JsonDocument,
                'yaml': YamlDocument, 'msgpack': MessagePackDocument, 'mprpc': MessagePackRpc, 'http': HttpRpc}

        class S(Service):
            @rpc(Integer, _returns=Integer)
            def f(ctx, a):
                if where[0].startswith('sw_'):
                    ctx.out_protocol = PROT[where[0][3:]]()     # this request answers in another protocol
                if where[0] != 'retlis':
                    pend[0]()
                return 424242

            @srpc(Unicode, Integer, _returns=(Unicode, Integer))
            def g(s, n):
                pend[0]()
                return 'RETVAL-g', 424242

            @srpc(Integer, _returns=Iterable(Integer))
            def gen(a):
                pend[0]()
                yield 424242

        def after_return(ctx):
            if where[0] == 'retlis':
                pend[0]()
        S.event_manager.add_listener('method_return_object', after_return)

        def swap_fault(ctx):
            if where[0] == 'swap':
                ctx.out_error = Fault('Client.Swapped', 'swapped')
        S.event_manager.add_listener('method_exception_object', swap_fault)
        outp = PROT[fam]()
        self.app = Application([S], 'tns', in_protocol=HttpRpc(), out_protocol=outp)
        self.wsgi = WsgiApplication(self.app)
        # loopback client: same protocol on both sides
        self.capp = None
        if fam in ('soap11', 'soap12'):   # the families whose Spyne client decodes faults
            try:
                inp = {'xml': XmlDocument, 'soap11': Soap11, 'soap12': Soap12, 'json': JsonDocument,
                       'yaml': YamlDocument, 'msgpack': MessagePackDocument}[fam]()
                outp2 = type(inp)()
                self.capp = Application([S], 'tns', in_protocol=inp, out_protocol=outp2)
                self.cwsgi = WsgiApplication(self.capp)
            except Exception:
                self.capp = None

    def call(self, meth):
        qs = 's=x&n=2' if meth == 'g' else 'a=1'
        env = {'REQUEST_METHOD': 'GET', 'PATH_INFO': '/' + meth, 'QUERY_STRING': qs,
               'wsgi.input': io.BytesIO(b''), 'wsgi.url_scheme': 'http', 'SERVER_NAME': 'x', 'SERVER_PORT': '80'}
        st = []
        try:
            out = b''.join(self.wsgi(env, lambda s, h, e=None: st.append((s, h))))
        except Exception as e:
            return None, None, b'', type(e).__name__
        return st[0][0], st[0][1], out, 'none'


def make_raiser(case, secret):
    from spyne import Fault
    from spyne.error import (ResourceNotFoundError, InvalidCredentialsError, RequestNotAllowed,
                             RequestTooLongError)
    f = case['f']
    box = {}
    if f['kind'] == 'fault':
        cls = f['cls']
        ded = {'toolong': 'Client.RequestTooLong', 'notfound': 'Client.ResourceNotFound', 'notallowed': 'Client.RequestNotAllowed',
               'auth': 'Client.InvalidCredentialsError', 'schemaval': 'Client.SchemaValidationError'}
        own = {'CODE': pool.code_str(f['code'])} if cls in ded and pool.code_str(f['code']) != ded[cls] else {}
        sub = (lambda base: type('My' + base.__name__, (base,), dict(own))) if f.get('sub') else (lambda base: base)
        if cls == 'toolong': exc = sub(RequestTooLongError)()
        elif cls == 'notfound': exc = sub(ResourceNotFoundError)('thing')
        elif cls == 'notallowed': exc = sub(RequestNotAllowed)('nope')
        elif cls == 'auth': exc = sub(InvalidCredentialsError)()
        elif cls == 'schemaval':
            from spyne.protocol.xml import SchemaValidationError
            exc = sub(SchemaValidationError)("Element 'n': 'abc' is not a valid value of the atomic type 'xs:integer'.")
        else:
            code = pool.code_str(f['code'])
            base = Fault
            if cls == 'subclass':
                base = _subclass()
            exc = base(code, pool.MSG[f['msg']], detail=pool.detail_value(f['detail']))
            if cls == 'subclass':
                exc.extra = 'extra-field-value'
        box['msg'] = exc.faultstring

        def r():
            raise exc
        return r, box
    kind = f['cls']

    def r():
        if kind == 'ValueError': raise ValueError(secret)
        if kind == 'KeyError': raise KeyError(secret, {'k': secret})
        if kind == 'Hostile':
            class Hostile(RuntimeError):
                def __str__(self): return 'str-' + secret
                def __repr__(self): return 'repr-' + secret
            raise Hostile(secret)
        if kind == 'Chained':
            try:
                raise ValueError('inner-' + secret)
            except ValueError as e:
                raise RuntimeError('outer-' + secret) from e
        if kind == 'SecretType':
            raise type('T' + secret.replace('-', '_'), (Exception,), {})('x')
        if kind == 'BaseFaultLike':
            class NotAFault(Exception):
                faultcode = 'Client.' + secret; faultstring = secret; detail = {'d': secret}
            raise NotAFault(secret)
    box['msg'] = None
    return r, box


_SUB = []


def _subclass():
    from spyne import Fault, Unicode
    if not _SUB:
        class GeneratedFault(Fault):
            __namespace__ = 'tns'
            extra = Unicode
        _SUB.append(GeneratedFault)
    return _SUB[0]


def leak_forms(secret):
    s = secret
    forms = {s, s.replace('-', '_'), repr(s), s.encode('utf-16-le').decode('latin1')}
    forms.add(base64.b64encode(s.encode()).decode())
    return [x.encode('utf8', 'replace') for x in forms] + [b'Traceback (most recent call last)', b'drive_', b'harness/checks']


def observe(fam, status, headers, body, esc, box, secret):
    from lxml import etree
    obs = {'escape': esc, 'code': ['?'], 'msg': '?', 'detail': ['?', []], 'status': 0,
           'leak': False, 'hasret': False}
    if esc != 'none':
        return obs
    try:
        obs['status'] = int(status.split()[0])
    except Exception:
        obs['status'] = -1
    hay = body + b'\n' + status.encode() + b'\n' + repr(headers).encode()
    obs['leak'] = any(f in hay for f in leak_forms(secret))
    obs['hasret'] = b'424242' in body or b'RETVAL' in body
    code = msg = None
    detail = None
    try:
        if fam in ('xml', 'soap11', 'soap12'):
            root = etree.fromstring(body)
            fl = [e for e in root.iter() if isinstance(e.tag, str) and etree.QName(e).localname == 'Fault']
            fe = fl[0]
            kids = {etree.QName(c).localname: c for c in fe if isinstance(c.tag, str)}
            if fam == 'soap12':
                vals = [e.text for e in kids['Code'].iter() if etree.QName(e).localname == 'Value']
                head = vals[0].split(':')[-1]
                head = {'Sender': 'Client', 'Receiver': 'Server'}.get(head, '?' + head)
                code = '.'.join([head] + [v for v in vals[1:]])
                msg = [e for e in kids['Reason'].iter() if etree.QName(e).localname == 'Text'][0].text
                d = kids.get('Detail')
            else:
                code = kids['faultcode'].text
                code = code.split(':', 1)[1] if ':' in code else code
                msg = kids['faultstring'].text
                d = kids.get('detail')
            detail = pool.elt_to_dict(d) if d is not None and len(d) else None
        elif fam == 'json_list':
            doc = json.loads(body.decode('utf8'))
            # positional: [faultcode, faultstring, faultactor, detail]
            if not isinstance(doc, list) or len(doc) != 4:
                raise ValueError('fault list of %s members' % (len(doc) if isinstance(doc, list) else type(doc).__name__))
            code, msg, detail = doc[0], doc[1], doc[3]
        elif fam in ('json', 'yaml', 'msgpack', 'mprpc'):
            if fam == 'json':
                doc = json.loads(body.decode('utf8'))
            elif fam == 'yaml':
                import yaml
                doc = yaml.safe_load(body.decode('utf8'))
            else:
                import msgpack
                doc = msgpack.unpackb(body, raw=False, strict_map_key=False)
                if fam == 'mprpc':
                    doc = doc[2]
            code, msg, detail = doc.get('faultcode'), doc.get('faultstring'), doc.get('detail')
        elif fam == 'http':
            t = body.decode('utf8')
            code, _, msg = t.partition('\n\n')
            detail = None      # the plain-text form has no place for a detail
    except Exception as e:
        obs['parse_error'] = '%s: %s' % (type(e).__name__, e)
        return obs
    obs['code'] = pool.code_ids(code)
    if msg == 'Internal Error':
        obs['msg'] = 'InternalError'
    elif box.get('msg') is not None and msg == box['msg']:
        obs['msg'] = 'same'
    elif box.get('msg') is not None and msg == NOT_XML.sub(u'\ufffd', box['msg']):
        obs['msg'] = 'same_repl'
    else:
        obs['msg'] = '?'
    obs['detail'] = ['n/a', []] if detail == 'n/a' else pool.detail_tree(detail)
    return obs


def run(ctx):
    pc.check_design(ctx, 'events', ['StatusTable', 'NoFnOnInFault', 'FnAtMostOnce', 'CountersAgree'], [])
    cases = export_cases(ctx)
    rnd = random.Random(ctx.seed)
    secret = 'S3C-%08x-K' % rnd.getrandbits(32)
    worlds = {}
    recs = []
    for c in cases:
        w = worlds.get(c['fam'])
        if w is None:
            w = worlds[c['fam']] = World(c['fam'], secret)
        raiser, box = make_raiser(c, secret)
        w.pending[0] = raiser
        w.where[0] = c['where']
        status, headers, body, esc = w.call(c['meth'])
        w.where[0] = 'fn'
        if c['where'] == 'swap':
            box = {'msg': 'swapped'}          # the fault the listener put in place
        obs = observe(c['where'][3:] if c['where'].startswith('sw_') else c['fam'], status, headers, body, esc, box, secret)
        case = dict(c)
        if c['where'] == 'swap' and obs['msg'] == 'same':
            obs['msg'] = 'swapped'
        if case['f']['kind'] == 'fault':
            eff = c['where'][3:] if c['where'].startswith('sw_') else c['fam']
            case = json.loads(json.dumps(c))
            case['f']['msg'] = 'same_repl' if (c['f']['msg'] == 'ctl' and eff in ('xml', 'soap11', 'soap12') and c['where'] != 'swap') else 'same'
        recs.append({'case': case, 'obs': obs, 'raw': body[:400].decode('utf8', 'replace')})
    # TLC verdicts
    tf = os.path.join(ctx.work, 'fault_traces.ndjson')
    with open(tf, 'w') as f:
        for r in recs:
            f.write(json.dumps({'case': r['case'], 'obs': {k: v for k, v in r['obs'].items() if k != 'parse_error'}}) + '\n')
    r = tlc.run('TraceFault', 'TraceFault.cfg', ctx.work, env={'TRACE_FILE': tf}, timeout=900)
    seen = set()
    nfail = 0
    for p in r.prints:
        if p and p[0] == 'V' and p[1] not in seen:
            seen.add(p[1])
            if p[2]:
                nfail += 1
                rec = recs[p[1] - 1]
                c = rec['case']
                cl = sorted(p[2])
                dcls = {'none': 'none', 'multi': 'multi-key'}.get(c['f']['detail'], 'single-key')
                key = '%s|fam=%s|kind=%s|cls=%s|detail=%s' % (
                    '+'.join(cl), c['fam'] + ('' if c['where'] == 'fn' else '>' + c['where']), c['f']['kind'],
                    c['f']['cls'] if c['f']['kind'] == 'exc' or c['f']['cls'] not in ('fault', 'subclass') else 'fault',
                    dcls)
                if 'SameCode' in cl or 'StatusOk' in cl:
                    key += '|first=%s|nseg=%d' % ((c['f']['code'] or ['-'])[0], len(c['f']['code']))
                ctx.violation(key, 'fault clauses %s fail: raised %s, observed %s' % (cl, c['f'], rec['obs']),
                              {'case': c, 'observation': rec['obs'], 'response': rec['raw']})
    if len(seen) != len(recs):
        raise tlc.TlcError('TraceFault evaluated %d of %d' % (len(seen), len(recs)))
    # loopback client
    nloop = loopback(ctx, cases, worlds, secret)
    ctx.cov_add(traces_validated_against_impl=len(recs) - nfail, evaluations=len(recs) + nloop,
                loopback_client_calls=nloop,
                distinct_nontrivial=len(set(json.dumps(r['case'], sort_keys=True) for r in recs)),
                exhaustive=True,
                rule='SpyneFault.Cases exported by TLC: (fault class x dotted code x message x detail, pairwise) + 6 non-Fault '
                     'exception kinds with a random secret x 8 output families x 2 methods; distinct = distinct case records')
    ctx.sample({'case': recs[0]['case'], 'observation': recs[0]['obs']})
    ctx.sample({'case': recs[len(recs) // 2]['case'], 'observation': recs[len(recs) // 2]['obs'], 'response': recs[len(recs) // 2]['raw'][:200]})
    ctx.assumptions += ['secret search covers exact, underscore, repr, base64 and utf-16 forms of the token and traceback markers']


def loopback(ctx, cases, worlds, secret):
    """The Spyne client decoding the server's fault (ctx.in_error)."""
    from ..loopback import LoopbackClient
    n = 0
    for c in cases:
        w = worlds[c['fam']]
        if w.capp is None:
            continue
        if c['meth'] != 'f' or c['where'] != 'fn':
            continue
        raiser, box = make_raiser(c, secret)
        w.pending[0] = raiser
        try:
            cl = LoopbackClient(w.cwsgi, w.capp)
            try:
                cl.service.f(1)
                got = ('noerror', None, None)
            except Exception as e:
                fc = getattr(e, 'faultcode', None)
                if fc is None:
                    got = ('clientcrash:' + type(e).__name__, None, None)
                else:
                    got = ('fault', fc, getattr(e, 'faultstring', None))
        except Exception as e:
            got = ('clientcrash:' + type(e).__name__, None, None)
        n += 1
        exp_code = pool.code_str(c['f']['code']) if c['f']['kind'] == 'fault' else 'Server'
        exp_code = NOT_XML.sub(u'\ufffd', exp_code)          # (the XML family cannot carry control characters: U+FFFD in their place)
        exp_msg = box['msg'] if c['f']['kind'] == 'fault' else 'Internal Error'
        if c['f']['kind'] == 'fault' and c['f']['msg'] == 'ctl' and exp_msg is not None:
            exp_msg = NOT_XML.sub(u'\ufffd', exp_msg)          # (the XML family cannot carry these characters)
        code = got[1]
        if isinstance(code, str) and ':' in code and c['fam'] in ('soap11', 'soap12', 'xml'):
            code = code.split(':', 1)[1]
        if c['fam'] == 'soap12' and isinstance(code, str):
            code = code.replace('Sender', 'Client', 1).replace('Receiver', 'Server', 1)
        ok = got[0] == 'fault' and code == exp_code and (got[2] == exp_msg or (c['fam'] == 'soap12' and got[2] == (exp_msg or '').strip()))
        leak = any(secret in str(x) for x in got if x is not None) and c['f']['kind'] == 'exc'
        if not ok or leak:
            key = 'loopback|fam=%s|kind=%s|cls=%s|got=%s' % (c['fam'], c['f']['kind'], c['f']['cls'], got[0])
            ctx.violation(key, 'loopback Spyne client decodes %r, raised code %r msg %r' % (got, exp_code, (exp_msg or '')[:40]),
                          {'case': c, 'got': got})
    return n
