"""Run TLC with a fast JVM command line and parse what it says.

Exit-status policy: a TLC *machinery* failure (parse error, timeout, Java
exception) raises TlcError, which the entry point turns into exit 2.  Verdicts
(invariant violated, PrintT lines) are returned to the caller.
"""
import os, re, shutil, subprocess, time
from . import tlaval

JAR = '/opt/veriftools/tla/tla2tools.jar'
DEPS = '/opt/veriftools/tla/CommunityModules-deps.jar'
SPEC_DIR = os.path.join(os.path.dirname(os.path.dirname(os.path.abspath(__file__))), 'spec')


class TlcError(Exception):
    pass


class TlcResult(object):
    def __init__(self):
        self.stdout = ''
        self.generated = 0      # states generated ("transitions" in evidence)
        self.distinct = 0       # distinct states
        self.violated = None    # name of violated invariant/property or None
        self.error_trace = []   # list of (action, state-text)
        self.prints = []        # parsed PrintT values
        self.wall = 0.0
        self.coverage = {}      # action name -> count of states found
        self.deadlock = False
        self.assume_failed = False

    @property
    def ok(self):
        return self.violated is None and not self.deadlock and not self.assume_failed


_CP = None


def classpath():
    global _CP
    if _CP is None:
        cps = [JAR]
        if os.path.exists(DEPS):
            cps.append(DEPS)
        d = os.path.dirname(JAR)
        for f in sorted(os.listdir(d)):
            if f.endswith('.jar') and os.path.join(d, f) not in cps:
                cps.append(os.path.join(d, f))
        _CP = ':'.join(cps)
    return _CP


def run(module, cfg, workdir, env=None, workers=1, timeout=600, simulate=None,
        depth=None, dump=None, coverage=False, seed=None, big=False,
        deadlock=False, extra=(), dfid=None, cwd=None):
    """module: name (without .tla) in spec/ ; cfg: file name in spec/ or absolute path."""
    os.makedirs(workdir, exist_ok=True)
    meta = os.path.join(workdir, 'meta_%s_%d' % (module, os.getpid()))
    shutil.rmtree(meta, ignore_errors=True)
    java = ['java']
    if big:
        java += ['-XX:+UseParallelGC', '-Xmx8g', '-Xss64m']
    else:
        java += ['-XX:+UseSerialGC', '-Xmx3g', '-Xss64m', '-XX:TieredStopAtLevel=1']
    java += ['-Dtlc2.tool.fp.FPSet.impl=tlc2.tool.fp.OffHeapDiskFPSet'] if False else []
    cmd = java + ['-cp', classpath(), 'tlc2.TLC', '-workers', str(workers),
                  '-metadir', meta, '-noGenerateSpecTE']
    if not deadlock:
        pass  # deadlock checking is controlled by the cfg (CHECK_DEADLOCK)
    if simulate:
        cmd += ['-simulate', simulate]
    if depth:
        cmd += ['-depth', str(depth)]
    if seed is not None:
        cmd += ['-seed', str(seed)]
    if dump:
        cmd += ['-dump', 'dot,actionlabels', dump]
    if coverage:
        cmd += ['-coverage', '1']
    if dfid:
        cmd += ['-dfid', str(dfid)]
    cmd += list(extra)
    cfgp = cfg if os.path.isabs(cfg) else os.path.join(cwd or SPEC_DIR, cfg)
    cmd += ['-config', cfgp, module + '.tla']
    e = dict(os.environ)
    e.pop('JAVA_TOOL_OPTIONS', None)
    if env:
        e.update({k: str(v) for k, v in env.items()})
    t0 = time.time()
    try:
        p = subprocess.run(cmd, cwd=cwd or SPEC_DIR, env=e, stdout=subprocess.PIPE,
                           stderr=subprocess.STDOUT, timeout=timeout)
    except subprocess.TimeoutExpired as ex:
        shutil.rmtree(meta, ignore_errors=True)
        raise TlcError('TLC timeout after %ss: %s %s' % (timeout, module, cfg))
    finally:
        pass
    shutil.rmtree(meta, ignore_errors=True)
    out = p.stdout.decode('utf-8', 'replace')
    r = TlcResult()
    r.stdout = out
    r.wall = time.time() - t0
    _parse(out, r)
    # machinery failures
    if re.search(r'(Parsing or semantic analysis failed|Fatal errors while parsing|'
                 r'java\.lang\.[A-Za-z]*Error|TLC threw an unexpected exception|'
                 r'Error: TLC was unable|was not found in|Unknown operator|'
                 r'The configuration file|Error: In evaluation|Error: Evaluating|'
                 r'Error: Attempted to|Error: The |Error: TLC encountered)', out):
        if r.violated is None or 'Attempted to' in out or 'In evaluation' in out:
            raise TlcError('TLC failed on %s/%s:\n%s' % (module, cfg, out[-3000:]))
    if p.returncode not in (0, 10, 11, 12, 13) and r.ok:
        raise TlcError('TLC exit %d on %s/%s:\n%s' % (p.returncode, module, cfg, out[-3000:]))
    return r


def _parse(out, r):
    m = None
    for m in re.finditer(r'(\d+) states generated, (\d+) distinct states found', out):
        pass
    if m:
        r.generated, r.distinct = int(m.group(1)), int(m.group(2))
    else:
        # simulation mode reports differently
        m2 = re.search(r'The number of states generated: (\d+)', out)
        if m2:
            r.generated = r.distinct = int(m2.group(1))
    m = re.search(r'Error: Invariant (\S+) is violated', out)
    if m:
        r.violated = m.group(1)
    m = re.search(r'Error: Action property (\S+) is violated', out)
    if m:
        r.violated = m.group(1)
    if re.search(r'Error: Temporal properties were violated', out):
        r.violated = r.violated or 'TemporalProperty'
    if 'Error: Deadlock reached' in out:
        r.deadlock = True
    if re.search(r'Assumption .* is false', out):
        r.assume_failed = True
    # PrintT values: lines that look like TLA values and are not TLC chatter
    # TLC pretty-prints long values over several lines: collect by bracket matching
    lines = out.splitlines()
    i = 0
    while i < len(lines):
        s = lines[i]
        if s.startswith('<<'):
            buf = s
            j = i
            while _depth(buf) > 0 and j + 1 < len(lines) and j - i < 400:
                j += 1
                buf += '\n' + lines[j]
            if _depth(buf) == 0:
                try:
                    r.prints.append(tlaval.parse(buf))
                    i = j
                except Exception:
                    pass
        i += 1
    # error trace
    for m in re.finditer(r'State (\d+): <([^>]*)>\n((?:/\\ .*\n|\s+.*\n)*)', out):
        r.error_trace.append((m.group(2), m.group(3)))
    # coverage: "<Action line .. of module M>: distinct:total"
    for m in re.finditer(r'<(\w+) line \d+, col \d+ to line \d+, col \d+ of module (\w+)>: (\d+):(\d+)', out):
        r.coverage[m.group(1)] = r.coverage.get(m.group(1), 0) + int(m.group(4))


def _depth(s):
    """nesting depth of << [ { ( at the end of s, ignoring string literals"""
    d = 0
    instr = False
    k = 0
    n = len(s)
    while k < n:
        ch = s[k]
        if instr:
            if ch == '\\':
                k += 1
            elif ch == '"':
                instr = False
        elif ch == '"':
            instr = True
        elif s.startswith('<<', k):
            d += 1; k += 1
        elif s.startswith('>>', k):
            d -= 1; k += 1
        elif ch in '[{(':
            d += 1
        elif ch in ']})':
            d -= 1
        k += 1
    return d


def sany(module, cwd=None):
    cmd = ['java', '-cp', classpath(), 'tla2sany.SANY', module + '.tla']
    p = subprocess.run(cmd, cwd=cwd or SPEC_DIR, stdout=subprocess.PIPE, stderr=subprocess.STDOUT)
    return p.returncode == 0 and b'Semantic errors' not in p.stdout and b'rror' not in p.stdout, p.stdout.decode()


def validate_records(module, cfg_lines, workdir, records, chunk=12000, parallel=4, timeout=3000, tag='trace'):
    """Trace validation of many independent records: the ndjson is split into chunks that are judged by
    concurrent TLC runs (a JVM deserialises a 100 MB trace slowly and evaluates it on one core).
    `records`: list of JSON-able dicts.  -> {0-based record index: the printed tuple after <<"V", tid, ...>>}"""
    import json, concurrent.futures as cf
    cfgp = os.path.join(workdir, '%s_%s.cfg' % (tag, module))
    with open(cfgp, 'w') as f:
        f.write('\n'.join(cfg_lines) + '\n')
    parts = [(a, records[a:a + chunk]) for a in range(0, len(records), chunk)] or [(0, [])]

    def one(part):
        a, recs = part
        tf = os.path.join(workdir, '%s_%s_%d.ndjson' % (tag, module, a))
        with open(tf, 'w') as f:
            for r in recs:
                f.write(json.dumps(r) + '\n')
        sub = os.path.join(workdir, '%s_part_%d' % (tag, a))
        r = run(module, cfgp, sub, env={'TRACE_FILE': tf}, timeout=timeout, workers=2)
        os.remove(tf)
        out = {}
        for p in r.prints:
            if p and p[0] == 'V':
                out[a + p[1] - 1] = tuple(p[2:])
        if len(out) != len(recs):
            raise TlcError('%s evaluated %d of %d records of chunk %d\n%s' % (module, len(out), len(recs), a, r.stdout[-2500:]))
        return out
    res = {}
    if not records:
        return res
    with cf.ThreadPoolExecutor(parallel) as ex:
        for o in ex.map(one, parts):
            res.update(o)
    return res
