"""C03: HttpRpc flat key/value requests written by the documented notation, and the drivers."""
import io, json, os
from urllib.parse import quote
from . import tlc, pipeline_common as pc, gen as G, enc as E, sigcases as S

SPARSE = [2, 10, 11, 25, 100, 101, 102, 103, 200, 201, 1000, 1001]


def export(ctx):
    out = os.path.join(ctx.work, 'flat_cases.json')
    cfg = pc.write_cfg(os.path.join(ctx.work, 'expf.cfg'), ['INIT Init', 'NEXT Next', 'CHECK_DEADLOCK FALSE'])
    tlc.run('ExportFlat', cfg, ctx.work, env={'OUT_FILE': out})
    d = json.load(open(out))
    for k in ('cases', 'retcases'):
        d[k].sort(key=lambda c: json.dumps(c, sort_keys=True))
    return d


def ix(cfg, k):
    return k if cfg['idx'] == 'contig' else SPARSE[k]


def pairs_of(t, v, key, cfg, out, repeated=False):
    """the notation: a, a.b.c, a[i].b; a repeated primitive repeats its key"""
    if v == ['nil']:
        return
    if repeated or t['k'] == 'arr':
        it = t['of'] if t['k'] == 'arr' and not repeated else t
        for k, x in enumerate(v[1]):
            pairs_of(it, x, '%s[%d]' % (key, ix(cfg, k)) if it['k'] == 'obj' else key, cfg, out)
        return
    if t['k'] in ('prim', 'attr'):
        out.append((key, v[1]))
        return
    for f, x in zip(S.flat_fields(t), v[2]):
        pairs_of(f['t'], x, key + cfg['delim'] + f.get('sub', f['n']), cfg, out, repeated=f['max'] > 1)


def request_pairs(c, cfg):
    out = []
    for f, v in zip(c['args'], c['vals']):
        pairs_of(f['t'], v, f.get('sub', f['n']), cfg, out, repeated=f['max'] > 1)
    # the KEYS are permuted; the pairs of one key (a repeated primitive) stay together in their order
    keys = []
    for k, _ in out:
        if k not in keys:
            keys.append(k)
    return [p for k in order(keys, cfg['order']) for p in out if p[0] == k]


def order(s, o):
    n = len(s)
    if o == 'asc': return list(s)
    if o == 'desc': return list(reversed(s))
    if o == 'rot': return s[n // 2:] + s[:n // 2]
    if o == 'zip': return s[0::2] + s[1::2]
    raise ValueError(o)


def flat_text(x):
    import base64
    if isinstance(x, (list, tuple)) and all(isinstance(y, (bytes, bytearray)) for y in x):
        return base64.b64encode(b''.join(x)).decode()
    import datetime
    if isinstance(x, datetime.timedelta):
        return next((k for k, v in S.DURATIONS.items() if v == x), E.lex(x))       # the spelling of the case family
    return E.lex(x)


def query(pairs):
    return '&'.join('%s=%s' % (quote(k, safe=''), quote(x, safe='')) for k, x in pairs)


class World(object):
    def __init__(self, case, cfg, validator, out='json', headers=False):
        from spyne import Application
        from spyne.protocol.http import HttpRpc
        from spyne.protocol.json import JsonDocument
        from spyne.server.wsgi import WsgiApplication
        self.gen = G.Gen()
        self.seen = []
        self.holder = [None, None]
        rets = [S.texpr(t) for t in case['rets']]
        m = {'name': case['method'], 'args': [[f['n'], S.texpr(f['t'], f)] for f in case['args']],
             'ret': None if not rets else (rets[0] if len(rets) == 1 else rets), 'returns': lambda args: self.holder[0]}
        if headers:
            m['out_header'] = [{'k': 'obj', 'name': 'RespHeader', 'fields': [['X-Count', {'k': 'prim', 'p': 'Integer'}], ['X-Tag', {'k': 'prim', 'p': 'Unicode'}],
                                                                                      ['Expires', {'k': 'prim', 'p': 'DateTime'}]]}]
            m['out_header_values'] = lambda: self.holder[1]
        svc = G.make_service(self.gen, [m], self.seen)
        self.inp = HttpRpc(validator=validator, hier_delim=cfg['delim'], strict_arrays=cfg.get('strict', False))
        self.app = Application([svc], case['tns'], in_protocol=self.inp, out_protocol=JsonDocument() if out == 'json' else HttpRpc())
        self.wsgi = WsgiApplication(self.app)
        if headers:
            self.hcls = self.gen.cls(m['out_header'][0])

    def send(self, c, pairs, form=False):
        del self.seen[:]
        q = query(pairs)
        if form:
            env = {'REQUEST_METHOD': 'POST', 'PATH_INFO': '/' + c['method'], 'QUERY_STRING': '', 'CONTENT_TYPE': 'application/x-www-form-urlencoded'}
            return E.send(self.wsgi, env, q.encode('ascii'))
        return E.send(self.wsgi, {'REQUEST_METHOD': 'GET', 'PATH_INFO': '/' + c['method'], 'QUERY_STRING': q}, b'')

    def delivered(self, c):
        if not self.seen:
            return [['leaf', '?not-called'] for _ in c['args']]
        got = self.seen[0][1]
        return [S.from_native(f['t'], x, repeated=f['max'] > 1) for f, x in zip(c['args'], got)]
