"""C06 / C07: real applications for the universes of SpyneSchema, and what their published schemas contain."""
import io, json, os
from . import tlc, pipeline_common as pc, gen as G, enc as E

XS = 'http://www.w3.org/2001/XMLSchema'


def export(ctx):
    out = os.path.join(ctx.work, 'schema_universes.json')
    cfg = pc.write_cfg(os.path.join(ctx.work, 'expsch.cfg'), ['INIT Init0', 'NEXT Next0', 'CONSTANT Deviations = {}', 'CHECK_DEADLOCK FALSE'])
    tlc.run('ExportSchema', cfg, ctx.work, env={'OUT_FILE': out})
    d = json.load(open(out))
    d.sort(key=lambda c: json.dumps(c, sort_keys=True))
    return d


def texpr(case, n):
    if n == 'int':
        return {'k': 'prim', 'p': 'Integer'}
    if n.endswith('Array'):
        return {'k': 'arr', 'of': texpr(case, n[:-5])}
    b = case['base'][n]
    fields = []
    for fname, node, grp in case['fields'][n]:
        t = texpr(case, node)
        if grp:
            t = dict(t, choice=grp)
        fields.append([fname, t])
    return {'k': 'obj', 'name': n, 'ns': case['nsof'][n], 'base': texpr(case, b) if b != '-' else None, 'fields': fields}


def value(case, n, seed=0):
    """a conformant value of node n as the native tree enc.py takes"""
    if n == 'int':
        return 7 + seed
    if n.endswith('Array'):
        return [value(case, n[:-5], seed), value(case, n[:-5], seed + 1)]
    out = {}
    b = case['base'][n]
    if b != '-':
        out.update(value(case, b, seed))
    groups = set()
    for fname, node, grp in case['fields'][n]:
        if grp:
            if grp in groups:
                continue          # one member of a choice group
            groups.add(grp)
        out[fname] = value(case, node, seed)
    return out


def instance(gen, t, v):
    if v is None:
        return None
    if t['k'] == 'arr':
        return [instance(gen, t['of'], x) for x in v]
    if t['k'] == 'obj':
        cls = gen.cls(t)
        return cls(**{n: instance(gen, ft, v.get(n)) for n, ft in E.all_fields(t)})
    return v


class World(object):
    def __init__(self, case, fam, validator):
        from spyne import Application
        from spyne.server.wsgi import WsgiApplication
        self.case, self.fam = case, fam
        self.gen = G.Gen('tns')
        self.seen = []
        self.args = [[fname, texpr(case, node)] for fname, node, _ in case['fields']['f']]
        self.ret = texpr(case, 'P')
        self.rval = value(case, 'P', 3)
        m = {'name': 'f', 'args': self.args, 'ret': self.ret, 'returns': lambda a: instance(self.gen, self.ret, self.rval)}
        svc = G.make_service(self.gen, [m], self.seen)
        inp, outp = E.protocols(fam, validator=validator)
        self.app = Application([svc], 'tns', in_protocol=inp, out_protocol=outp)
        self.wsgi = WsgiApplication(self.app)

    def call_args(self):
        return [(n, t, value(self.case, node, 1)) for (n, t), (_, node, _g) in zip(self.args, self.case['fields']['f'])]


def wsdl(wsgi):
    env = {'REQUEST_METHOD': 'GET', 'PATH_INFO': '/', 'QUERY_STRING': 'wsdl', 'wsgi.input': io.BytesIO(b''),
           'wsgi.url_scheme': 'http', 'SERVER_NAME': 'x', 'SERVER_PORT': '80'}
    st = []
    return b''.join(wsgi(env, lambda s, h, e=None: st.append(s)))


def describe(doc):
    """the schema documents inside a WSDL: [{ns, imports, types, elements, refs}] (refs: the namespaces its QNames point into)"""
    from lxml import etree
    root = etree.fromstring(doc)
    out = []
    for s in root.iter('{%s}schema' % XS):
        d = {'ns': s.get('targetNamespace'), 'imports': [], 'types': [], 'elements': [], 'refs': set()}
        for e in s.iter():
            if not isinstance(e.tag, str):
                continue
            q = etree.QName(e)
            if q.namespace != XS:
                continue
            if q.localname == 'import':
                d['imports'].append(e.get('namespace'))
            if q.localname in ('complexType', 'simpleType') and e.get('name') and e.getparent() is s:
                d['types'].append(e.get('name'))
            if q.localname == 'element' and e.get('name') and e.getparent() is s:
                d['elements'].append(e.get('name'))
            for a in ('type', 'base', 'ref', 'itemType'):
                v = e.get(a)
                if v is not None:
                    p, _, l = v.rpartition(':')
                    ns = e.nsmap.get(p or None)
                    d['refs'].add('xs' if ns == XS else ('UNBOUND:' + p if ns is None else ns))
        d['refs'] = sorted(d['refs'])
        out.append(d)
    return out
