"""Regenerates MANIFEST.json from the table below (single source of truth)."""
import json, os
HERE = os.path.dirname(os.path.dirname(os.path.abspath(__file__)))
TRUST = ('TLC 1.8.0 and the TLA+ modules under spec/; the Python glue (projection of observations into the trace '
         'vocabulary, application generator, drivers); lxml/json/yaml/msgpack as parsers of bytes into trees.')
CHECKS = {}
NA = {}

def check(pid, category, text, technique, design_ref, note=TRUST):
    CHECKS[pid] = dict(property_id=pid, quick_cmd='./check %s --tier quick' % pid,
                       thorough_cmd='./check %s --tier thorough' % pid,
                       evidence_file='evidence/%s.json' % pid,
                       replay_cmd_template='./check %s --replay {path}' % pid, engine='tlc',
                       level_claimed=dict(category=category, text=text, design_ref=design_ref),
                       level_note=note, technique=technique)

check('C14', 'model_checking',
      'SpynePipeline.tla is model-checked exhaustively over every single-failure scenario (stage x Fault/non-Fault x '
      'raising-listener position x 7 protocol families x WSGI/ServerBase) against the C14 clauses of PipelineProps.tla; '
      'every scenario is then driven through the real code and TLC evaluates the same clause definitions on the recorded '
      'merged listener history and checks the history is a behaviour of the model. SpyneEvents.tla (ordered, '
      'de-duplicating, inherited listener tables) is model-checked and every edge of its state graph is replayed on real '
      'EventManager/Service classes.',
      'TLA+ model checking (TLC) + trace validation of recorded event histories + state-graph edge replay',
      'DESIGN.md 3, 4/C14')

check('C13', 'model_checking',
      'SpynePipeline.tla (WSGI scenario family: body length x declared CONTENT_LENGTH x max_content_length x block_length x '
      'chunked x outcome x generator result x ?wsdl/?wsdl build failure x client abort after k chunks) is model-checked '
      'exhaustively against the C13 clauses (start_response once and first, Content-Length, bytes, read bound, 413 refusal '
      'without user code, context closed exactly once and after the body). Every scenario is driven through the real '
      'WsgiApplication with a recording start_response, a counting wsgi.input and listeners; TLC evaluates the same clauses '
      'on each recorded history and checks it is a behaviour of the model; wsgiref.validate is a second monitor.',
      'TLA+ model checking (TLC) + scenario replay + trace validation of recorded WSGI exchanges',
      'DESIGN.md 3, 4/C13')

check('C09', 'model_checking',
      'SpyneFault.tla defines the case family (fault class incl. the four dedicated errors, their subclasses with and without a fault code of their own, and a generated subclass x dotted '
      'code with 1-4 segments and any first segment x message class x detail tree; six non-Fault exception kinds carrying a '
      'random secret in text, args, type name and cause) x 8 output families x 2 methods, and the expected client view '
      '(code, message, detail, status table, generic Server/Internal Error). TLC exports the family, the real objects are '
      'raised from real user functions behind WsgiApplication, responses are parsed by each family\'s tree reader and TLC '
      'evaluates the clauses on every (case, observation); the loopback Spyne client decodes the SOAP replies. '
      'SpynePipeline is model-checked for the status table and for no user code after an input fault.',
      'TLA+ case table (TLC) + trace validation of observed fault responses + model checking of the pipeline status table',
      'DESIGN.md 4/C09')

check('C10', 'model_checking',
      'SpynePipeline.tla is model-checked for every malformation class x family x transport (malformed => Client-family fault, '
      'no user code, no escape, termination). A closed deterministic corpus (45 hostile leaf texts at each of 14 typed fields, '
      'every 7th-byte truncation, 11 structural operators at every XML node, 14 alien value kinds at every dict path, flat-key '
      'abuse, fixed pseudo-random bytes) x 7 input families x validator {soft, None} x {WsgiApplication, ServerBase} is sent to '
      'the real code; every exchange is recorded as a merged history and TLC evaluates the C10 outcome clause on it.',
      'TLA+ model checking (TLC) + trace validation of a closed structure-aware mutation corpus',
      'DESIGN.md 4/C10')

check('C12', 'model_checking',
      'SpyneWsdlCache.tla (one action per shared access of handle_wsdl_request, failing first build included - bound to a failure at the END of the real build, so that the retry meets what the failed attempt left behind) is model-checked '
      'for 2-4 threads (built once, whole document, lock discipline, every requester answers) and every 2-thread behaviour '
      '(an edge cover plus random walks for 3 threads) is IMPOSED on a real WsgiApplication with the real state compared '
      'after each step. Real schedules of 2-4 racing ?wsdl requests are enumerated with a preemption bound at shared-access '
      'and at Python-line granularity; every access trace is validated by TLC. SpyneShared.tla models the lazy prefix '
      'allocator and idempotent cache fills; mixed real requests (polymorphic returns in foreign namespaces, faults, '
      'validation failures, ?wsdl) are explored at line granularity and each response compared with the sequential oracle.',
      'TLA+ model checking (TLC) + imposing TLC behaviours on real threads + preemption-bounded schedule enumeration with trace validation',
      'DESIGN.md 4/C12')

check('C11', 'model_checking',
      'SpyneDispatch.tla models the routing-table construction (one action per process_method call) and lookup; TLC checks '
      'for every duplicate-free service list from a pool with adversarially similar names, an auxiliary service and custom '
      'in-message/operation names that the table equals its functional definition, conflicts are refused, no order crashes, '
      'the table is independent of the service order and the primary is first. Every such application is built as real '
      'services (construction outcome compared) and every registered name and near miss x {unqualified, tns, other ns} is '
      'sent as XML root tag, SOAP body child, JSON key, msgpack key, msgpack-rpc field and HttpRpc URL; per-function '
      'counters must equal the handles. SpyneHttpPattern.tla gives the expected route of every (verb, host, path), literal address text with regex metacharacters included.',
      'TLA+ model checking (TLC) + exhaustive replay of TLC-enumerated applications and lookups',
      'DESIGN.md 4/C11')

check('C15', 'model_checking',
      'SpyneModel.tla models a pool of models evolving by CustPrim/Customize/ChildAttrs/ChildAttrsAll/ArrayOf/Mandatory/'
      'Subclass/AppendField/InsertField with explicit frame conditions; TLC checks the action properties Frame (no operation '
      'changes the projection of a model it is not documented to change), DerivesOne, Requested and ParentsFirst over every '
      'history up to the bound. Every reachable state is replayed from scratch on fresh real classes and the projection of '
      'EVERY pooled model (attributes, ordered flat fields with the attributes and validation verdicts of each field type) is '
      'compared with TLC\'s; longer pseudo-random histories executed on real classes are validated step by step by TLC '
      '(TraceModel). Replay workers run under distinct PYTHONHASHSEED values.',
      'TLA+ model checking (TLC) + state-graph replay + trace validation of derivation histories',
      'DESIGN.md 4/C15')

check('C18', 'exploration',
      'SpyneNull.tla defines the closed case family (body style x how each argument is passed {positional, keyword, both, '
      'keyword None, absent} x return kind {none, one, two, three, generator, Ignored, Fault, non-Fault}), the expected argument '
      'packing and the expected result of the direct and of the wire path, and checks their agreement as a law of the table. '
      'TLC exports the 1886 cases (incl. type defaults, auxiliary twins - also narrower ones -, ostr=True) and 1554 header histories on one server; each is run through NullServer and over the wire (hand-written XmlDocument request read back '
      'with lxml; Soap11 and XmlDocument loopback clients for the wrapped style) on the SAME application object, and TLC '
      'evaluates the clauses (arguments received, result, direct == wire, exactly one invocation) on every observation. '
      'The histories are sequences of set / clear / call operations on ONE NullServer and one wire endpoint; no interleaving is explored.',
      'TLA+ case table evaluated by TLC on paired direct/wire observations',
      'DESIGN.md 4/C18')

check('C08', 'exploration',
      'SpyneLexical.tla builds by construction the read table (literal -> denoted value: every one of the 1682 UTC-offset '
      'spellings x 8 fraction classes for xs:dateTime, the boundaries of all nine integer types as digit strings with their '
      'lexical variants, decimal / double / boolean / date / time / duration / uuid / base64 / hex / text classes, '
      'as_timezone) and the write table (value -> the literals that denote it), checks the tables\' own laws with TLC and '
      'exports ~17 000 rows. Every row goes through from_unicode / to_unicode of ProtocolBase, XmlDocument, Soap11 and HttpRpc; '
      'TLC evaluates ReadOk / WriteDenotes / WriteInLexicalSpace on each observation and lxml\'s XML Schema processor judges '
      'every printed literal against the advertised xs: type. An exhaustive case table, not a state space.',
      'TLA+ literal/denotation tables built by TLC + evaluation of read/write observations',
      'DESIGN.md 4/C08')

check('C05', 'exploration',
      'SpyneValidate.tla defines 2 114 cases (one facet group and one probe each: numeric ranges, fixed-width bounds - '
      'exhaustively -130..260 for the 8-bit types, 32/64-bit bounds as digit strings - string length, whole-string pattern, '
      'enumeration, occurrence counts 0..3 against min/max, nullability, instants written with four UTC offsets, zone-less literals of a zoned type, bounds declared without a zone, an argument map that is null altogether, times of day, inherited / renamed / XML-attribute mandatory members, lexical '
      'well-formedness) with Valid computed in TLA+; TLC checks that every facet is effective and that verdicts are '
      'offset-free, and exports the table. Every case x nesting position {argument, nested field, array member, XML attribute} '
      'x family {XML, SOAP 1.1, SOAP 1.2, JSON, YAML, MessagePack with text as str and as bin, HttpRpc, JsonRpc} is sent as a real request (95 000 requests, written '
      'by independent encoders) and TLC compares user-function-ran / Client-fault with Valid. An exhaustive case table.',
      'TLA+ facet/verdict table (TLC) + evaluation of real accept/reject observations',
      'DESIGN.md 4/C05')

check('C01', 'exploration',
      'SpyneSignatures.tla defines the closed signature/value family (templates with holes: 11 leaf types x occurrence choices, '
      'complex types in two namespaces, wrapped and unwrapped arrays, arrays of objects, inheritance across namespaces, XML '
      'attributes, several arguments / return values, bare and out_bare styles, AnyXml members carrying trees with type markers of their own; 3 093 cases) and SpyneXmlDoc.tla the published '
      'document/literal mapping as a token-level encoder plus the equality Norm. For every case x {XmlDocument, Soap11, Soap12} x '
      'validator {None, soft, lxml} the request is written by an independent encoder and TLC checks: the request IS the mapping of '
      'the values, the user function ran once with equal values, the response IS the mapping of the returned value, the loopback '
      'Spyne client decodes it to an equal value, and zeep - generated from the served WSDL alone - sends requests the server '
      'accepts and decodes the replies to equal values.',
      'TLA+ token-level encoder (TLC) validating real request/response documents + third-party client (zeep)',
      'DESIGN.md 4/C01')

check('C06', 'exploration',
      'SpyneSchema.tla models Interface.add_class as a walk with an explicit stack over every universe of three classes in three '
      'namespaces related by member / array / inheritance / choice links plus a service (6480 universes, 251829 states): TLC proves that '
      'the walk ends with every namespace importing what it refers to (Closed) and equals the closed forms Imports / Types / Namespaces; '
      'a named deviation (SkipRegistered) shows Closed is not vacuous. A real application is built for every universe: its ?wsdl schemas '
      'are described (documents, imports, declared types, namespaces referred to) and judged by TLC (TraceSchema: OneDocPerNs, '
      'ImportsSuffice, Closed, TypesDeclared), compiled by lxml, and Spyne\'s response, the Spyne client\'s request and the '
      'spec-conformant request are validated against them (also under validator=lxml). The same for every SpyneSignatures application. '
      'Every SpyneValidate case with Valid = TRUE plus OutCases (binary members under each declared encoding, decimals and doubles of '
      'extreme magnitude) is RETURNED by a service at every position and the response validated against the published schema '
      '(EmittedOk). For every SpyneValidate case x position x {XmlDocument, Soap11, Soap12} TLC compares the verdict of validator=lxml '
      'with Valid (SchemaAgrees) and with the soft verdict (ValidatorsAgree).',
      'TLA+ model of interface assembly (TLC, exhaustive) + trace validation of real schemas against its closed forms + XML Schema processor as judge of every emitted document',
      'DESIGN.md 4/C06')

check('C02', 'exploration',
      'SpyneDictDoc.tla states the conventions of JsonDocument / YamlDocument / MessagePackDocument / MessagePackRpc as an encoder from '
      '(type, value, configuration) to an abstract document tree (maps as sets of pairs; wrappers, positional form, number / string / '
      'bin kinds, the MessagePack integer range). SpyneDictCases.DictCases (the SpyneSignatures templates plus 64-bit boundary integers, '
      'large decimals, a pool of Unicode scalar texts incl. 12 KB bodies that straddle the 8 KiB transport block, empty containers, and '
      'response values in which one instance is reachable twice) x {4 families} x {ignore_wrappers} x {complex_as dict / list} x '
      '{polymorphic} x {validator None / soft} x {arguments by name / positional} x {MessagePack method key bin / str}: every exchange '
      'is real (request written by an encoder of the conventions and the standard codecs, through WsgiApplication) and TLC (TraceDict) '
      'checks ReqIsSpec, Delivered (called once with equal values), RespIsSpec and Decodes (an independent reader of the conventions '
      'recovers the value returned).',
      'TLA+ document-convention model evaluated by TLC on every real exchange (trace validation, closed case family)',
      'DESIGN.md 4/C02')

check('C16', 'exploration',
      'SpynePolyCases.PolyCases: the tree Base <- Mid <- Leaf, Base <- Other in one namespace; declared type Base or Mid as argument / '
      'return value (optional and customized-mandatory), as member of a holder, as item type of an array and of a repeated member holding '
      'mixed subclasses; runtime class over the declared class and its descendants; polymorphic on / off. XML family x validator '
      '{None, soft, lxml}: the request is written by the independent encoder (xsi:type + the subclass fields) and TLC (TraceXml over '
      'SpyneXmlDoc with Runtime / Proj) checks ReqIsSpec, Delivered (same subclass, equal fields), RespIsSpec (ancestors first; marker '
      'resolving through the namespace declarations in scope; declared fields only when polymorphism is off) and ClientDecodes (loopback '
      'Spyne client). Dict family (ignore_wrappers=False) x validator {None, soft}: the same through TraceDict over SpyneDictDoc.',
      'TLA+ document models with runtime-class resolution, evaluated by TLC on every real exchange (trace validation, closed case family)',
      'DESIGN.md 4/C16')

check('C04', 'exploration',
      'SpyneMutate.tla fixes one application (Shape <- Circle / Square, unrelated Person, a same-named Circle in another namespace, an '
      'enum, arrays) and the closed set of type-directed mutants of one valid request: xsi:type retagged at every position with every class '
      'of the interface, XSD builtins and unknown names; hostile leaf texts (attribute names of the model classes); structure where a leaf '
      'is declared and text where a structure is; every JSON value kind where another is declared; wrapper keys renamed; flat keys '
      'respelled (1 664 mutants over 17 argument slots incl. Decimal, Uuid, ByteArray and an XML-attribute member). Every mutant is sent to ONE long-lived server per configuration, forward and in reverse order '
      '(XmlDocument / Soap11 / Soap12 x validator None / soft / lxml x polymorphic on / off; JSON / YAML / MessagePack x soft, plain and '
      'wrapper documents; HttpRpc x soft); the driver reports the shape of every delivered value and TLC (TraceMutate) evaluates '
      'Called (ran once and every value Conforms to its declared type or a registered subclass) or Refused (not run, Client fault).',
      'TLA+ mutant family + conformance predicate evaluated by TLC on every real exchange (trace validation)',
      'DESIGN.md 4/C04')

check('C03', 'exploration',
      'SpyneFlatIdx.tla models the sparse -> contiguous index bookkeeping (`_s2cmi` + idxmap) as a state machine over every arrival order '
      'of the wire indexes {0, 1, 2, 10, 11} (RankInv, OrderInv, MapInv; the AppendNew deviation violates OrderInv); every edge of its '
      'state graph is replayed on the real `_s2cmi`. SpyneFlat.tla states the flattened notation (a, a.b.c, a[i].b, repeated keys) as '
      'Pairs(case, cfg); FlatCases (signature templates + shapes three levels deep: arrays inside arrays of objects, repeated object '
      'members, repeated primitives, 6-element arrays) x hier_delim {., /, :} x index choice {contiguous, sparse 2,10,11,..} x key order '
      '{asc, desc, rot, zip} x strict_arrays x validator {None, soft}: every request is a real GET through WsgiApplication and TLC '
      '(TraceFlat) checks ReqIsSpec, OrderIsPerm, Delivered (called once, equal values, arrays in index order); Spyne\'s own '
      'object_to_simple_dict is the canonical bag and reads back (OwnFlatIsSpec, OwnFlatReadsBack); a primitive return value through an '
      'HttpRpc out protocol is its exact text / bytes, falsy values included, and the declared out header travels as HTTP headers.',
      'TLA+ state machine model checked by TLC and replayed on the code + TLA+ notation model evaluated by TLC on every real exchange',
      'DESIGN.md 4/C03')

check('C17', 'exploration',
      'SpyneXmlAttack.tla part 1: protocol instances constructed in any order with default or relaxed parser settings and requests served '
      'by any of them (TLC: Isolated, DefaultEndpointsSafe; the SharedSettings deviation violates them); all 102 scripts (construction order '
      'x served instance x attack) are replayed in a real process and the request must succeed exactly when Resolves(the settings of ITS '
      'instance) - positive controls for the detectors on relaxed instances, isolation for default ones. Part 2: Attacks = kind (external '
      'general / parameter entities over file, http, ftp; external DTD subsets; XInclude; internal entities; entity chains of growing '
      'fan-out and depth; quadratic blow-up; nesting 300 / 5000; 50000 attributes) x position of a valid request x {XmlDocument, Soap11, '
      'Soap12, the schema reader} x {WSGI, ServerBase} x framing {plain, transport charset + encoding declaration, multipart/related with and without attachment, control character} x validator {none, lxml} x non-security option sets of the integrator (1 541). '
      'The driver runs in a child process under strace: opens of the canary file / DTD and connects to a loopback listener are attributed '
      'to the attack in flight, canary and replacement texts are searched in what user code received and in the response, wall time and '
      'resident-set growth are measured; TLC (TraceXmlAttack) evaluates Fails(attack, observation).',
      'TLA+ state machine (TLC) replayed on real instances + TLA+ attack family judged by TLC on syscall-level observations of the real server',
      'DESIGN.md 4/C17')

check('C07', 'exploration',
      'SpyneWsdl.tla: applications assembled from a pool of method shapes (custom operation / message names, SOAP headers from two '
      'namespaces, declared faults - one with a namespace of its own -, bare / out_bare styles with differing request and response '
      'primitives, foreign-namespace arguments, port types, a polymorphic class tree) over one to three services (382 applications) and the clauses the WSDL must '
      'satisfy. Each application is built for real; the structure of its document is extracted and TLC (TraceWsdlDoc) checks per method '
      'OpOnce, InDeclaredPort, MessagesMatch, FaultsDeclared, HeadersDeclared, ZeepDrives and per document Closed (every QName '
      'reference - type, base, element, ref, message, binding, portType, header part - resolves), NoStrayOps, Deterministic (rebuilt '
      'twice in each of several fresh processes with different PYTHONHASHSEED, and served after eight histories of the serving objects - prebuilt, a second transport, asked directly, built twice, retried after a failed build -, sha256 compared). ZeepDrives: a zeep client generated from '
      'the served WSDL alone calls every method (with headers) on the real server under validator=lxml and decodes the value returned. '
      'The schema-assembly side (imports, types per namespace) is modelled and checked in SpyneSchema (C06).',
      'TLA+ application family + structural clauses evaluated by TLC on real documents; independent SOAP toolkit driven by the WSDL',
      'DESIGN.md 4/C07')

PENDING = []

def main():
    import importlib
    try:
        extra = importlib.import_module('harness.manifest_table')
        extra.register(check, NA)
    except ImportError:
        pass
    na = [dict(property_id=p, reason=NA.get(p, 'check not built yet in this round (planned, see DESIGN.md 8); not claimed until it is sound'))
          for p in PENDING if p not in CHECKS]
    m = dict(version=1,
             setup_cmd='/venv/bin/python -c "import sys; sys.path.insert(0, \'.\'); from harness import selfcheck; sys.exit(selfcheck.main())"',
             hooks=dict(guard='SPYNE_VERIF', enable='no source hooks: checks observe through public API with SPYNE_VERIF=1 exported by ./check',
                        baseline_off_cmd='/venv/bin/python harness/baseline.py', source_commits=[], add_only=True),
             engines=[dict(name='tlc', path='spec/', serves_properties=sorted(CHECKS),
                           kind_free_text='explicit TLA+ specifications checked by TLC; conformance by behaviour replay and trace validation')],
             checks=[CHECKS[k] for k in sorted(CHECKS)],
             not_applicable=na,
             notes='Entry point ./check <ID> --tier quick|thorough [--replay file]. Known findings: known_findings.json.')
    with open(os.path.join(HERE, 'MANIFEST.json'), 'w') as f:
        json.dump(m, f, indent=1)

if __name__ == '__main__':
    import sys; sys.path.insert(0, HERE)
    main()
