"""Deterministic scheduling of real Python threads.

Only one worker runs at a time; it runs until its next *yield point* and then the
controller decides who goes next.  Yield points are produced by

  * cooperative locks that replace every threading.Lock found (by type) in the
    instrumented instances,
  * recording proxies around shared attributes / builder methods (shared-access
    granularity), and/or
  * sys.settrace 'line' events restricted to the functions named in TARGETS
    (line granularity).

Two drivers:
  impose(behaviour)   spec -> code: the controller follows a TLC behaviour, checks
                      that each thread announces the access the spec expects and
                      projects the real state after every step;
  explore(...)        code -> spec: systematic enumeration of schedules with a
                      preemption bound, every run recorded as an access trace.
"""
import sys, threading, _thread

LOCK_TYPE = type(threading.Lock())


class Deadlock(Exception):
    pass


class Sched(object):
    def __init__(self, chooser):
        self.cv = threading.Condition()
        self.turn = None
        self.alive = set()
        self.blocked = {}          # tid -> predicate
        self.log = []              # (tid, what)
        self.chooser = chooser     # f(sched, runnable(sorted list), current) -> tid
        self.current = None
        self.trace = []            # choice points: dict(runnable, chosen, current)
        self.err = None
        self.pending = {}          # tid -> announced, not yet performed access

    # ---- called by workers
    def tid(self):
        return getattr(threading.current_thread(), 'vtid', None)

    def _pick(self):
        # cv held
        runnable = sorted(t for t in self.alive if t not in self.blocked or self.blocked[t]())
        if not runnable:
            if self.alive:
                self.err = Deadlock('threads %s all blocked' % sorted(self.alive))
                # release everybody so that the run can end
                self.turn = sorted(self.alive)[0]
            else:
                self.turn = None
            return
        cur = self.current if self.current in runnable else None
        t = self.chooser(self, runnable, cur)
        self.trace.append({'runnable': runnable, 'chosen': t, 'current': cur})
        self.turn = t
        self.current = t

    def yield_point(self, what):
        t = self.tid()
        if t is None:
            return
        with self.cv:
            self.log.append((t, what))
            self.pending[t] = what
            self._pick()
            self.cv.notify_all()
            while self.turn != t:
                self.cv.wait()
            self.pending[t] = None

    def block_until(self, pred, what):
        t = self.tid()
        if t is None:
            return
        with self.cv:
            self.log.append((t, what))
            while not pred():
                if self.err is not None:
                    raise self.err
                self.blocked[t] = pred
                self._pick()
                self.cv.notify_all()
                while self.turn != t:
                    self.cv.wait()
                self.blocked.pop(t, None)

    def begin(self, t):
        with self.cv:
            while self.turn != t:
                self.cv.wait()

    def finish(self, t):
        with self.cv:
            self.alive.discard(t)
            self.blocked.pop(t, None)
            self.log.append((t, 'finish'))
            self.pending[t] = 'finish'
            self._pick()
            self.cv.notify_all()

    # ---- controller
    def run(self, workers, timeout=30):
        """workers: {tid: callable}"""
        ths = []
        for t, fn in sorted(workers.items()):
            self.alive.add(t)

            def body(t=t, fn=fn):
                threading.current_thread().vtid = t
                self.begin(t)
                try:
                    fn()
                finally:
                    sys.settrace(None)
                    self.finish(t)
            th = threading.Thread(target=body, daemon=True)
            ths.append(th)
        for th in ths:
            th.start()
        with self.cv:
            self._pick()
            self.cv.notify_all()
        for th in ths:
            th.join(timeout)
        if any(th.is_alive() for th in ths):
            raise Deadlock('worker threads still alive (real deadlock or timeout)')
        if self.err:
            raise self.err


class CoopLock(object):
    """Replacement for threading.Lock under the scheduler."""

    def __init__(self, sched, name='lock'):
        self.s, self.name, self.owner = sched, name, None
        self.on_change = None

    def acquire(self, blocking=True, timeout=-1):
        t = self.s.tid()
        if t is None:
            self.owner = 'main'
            return True
        self.s.yield_point(('acquire', self.name))
        self.s.block_until(lambda: self.owner is None, ('wait', self.name))
        self.owner = t
        self.s.log.append((t, ('acquired', self.name)))
        if self.on_change:
            self.on_change('acquire')
        return True

    def release(self):
        t = self.s.tid()
        if t is not None:
            self.s.yield_point(('release', self.name))
            self.s.log.append((t, ('released', self.name)))
        self.owner = None
        if t is not None and self.on_change:
            self.on_change('release')

    def locked(self):
        return self.owner is not None

    __enter__ = acquire

    def __exit__(self, *a):
        self.release()


class CoopRLock(CoopLock):
    """Replacement for threading.RLock under the scheduler."""

    def __init__(self, sched, name='rlock'):
        CoopLock.__init__(self, sched, name)
        self.count = 0

    def acquire(self, blocking=True, timeout=-1):
        t = self.s.tid()
        if t is None:
            return True
        if self.owner == t:
            self.count += 1
            return True
        self.s.yield_point(('acquire', self.name))
        self.s.block_until(lambda: self.owner is None, ('wait', self.name))
        self.owner = t
        self.count = 1
        return True

    def release(self):
        t = self.s.tid()
        if t is None:
            return
        self.count -= 1
        if self.count == 0:
            self.s.yield_point(('release', self.name))
            self.owner = None

    __enter__ = acquire


RLOCK_TYPE = type(threading.RLock())


def replace_locks(obj, sched):
    """Every attribute of obj whose value is a threading.Lock becomes a CoopLock. -> names"""
    names = []
    for k, v in list(vars(obj).items()):
        if isinstance(v, LOCK_TYPE):
            object.__setattr__(obj, k, CoopLock(sched, k))
            names.append(k)
        elif isinstance(v, RLOCK_TYPE):
            object.__setattr__(obj, k, CoopRLock(sched, k))
            names.append(k)
    return names


def line_tracer(sched, targets, first_k=None):
    """targets: {filename: set(function names) or None for all functions}.
    first_k: yield only the first k times a thread executes a given line (shared cells
    are written on first use; later executions are cache hits)."""
    seen = {}

    def local(frame, event, arg):
        if event == 'line':
            if first_k is not None:
                key = (frame.f_code, frame.f_lineno)
                n = seen.get(key, 0)
                if n >= first_k:
                    return local
                seen[key] = n + 1
            sched.yield_point(('line', frame.f_code.co_name, frame.f_lineno))
        return local

    def glob(frame, event, arg):
        if event == 'call':
            fns = targets.get(frame.f_code.co_filename, False)
            if fns is None or (fns and frame.f_code.co_name in fns):
                return local
        return None
    return glob


# --------------------------------------------------------------------- choosers
def follow(prefix):
    """Follow `prefix` (list of tids) at the first choice points, then keep running the
    current thread while it can run, else the lowest runnable."""
    it = iter(prefix)

    def ch(s, runnable, cur):
        for want in it:
            if want in runnable:
                return want
            break
        return cur if cur is not None else runnable[0]
    return ch


def explore(run_once, max_preempt, limit, seed_prefixes=((),)):
    """Systematic schedule enumeration with a preemption bound.
    run_once(chooser) -> (sched, result).  Yields (prefix, sched, result)."""
    stack = [tuple(p) for p in seed_prefixes]
    seen = set(stack)
    n = 0
    while stack and n < limit:
        prefix = stack.pop()
        s, res = run_once(follow(list(prefix)))
        n += 1
        if n % 250 == 0:
            # every run builds fresh classes, which the model caches of the library keep alive for good: take what has
            # survived out of the collector's sight, or each full collection walks all of it again (quadratic slow-down)
            import gc
            gc.collect()
            gc.freeze()
        yield prefix, s, res
        # count preemptions along the executed trace and branch after the prefix
        pre = 0
        choices = []
        for i, cp in enumerate(s.trace):
            if cp['current'] is not None and cp['chosen'] != cp['current']:
                pre_here = 1
            else:
                pre_here = 0
            if i >= len(prefix):
                for alt in cp['runnable']:
                    if alt == cp['chosen']:
                        continue
                    cost = 1 if (cp['current'] is not None and alt != cp['current']) else 0
                    if pre + cost <= max_preempt:
                        np = tuple(choices + [alt])
                        if np not in seen:
                            seen.add(np)
                            stack.append(np)
            pre += pre_here
            choices.append(cp['chosen'])
