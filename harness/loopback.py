"""A Spyne client whose transport is an in-process call of a WsgiApplication.

It is spyne.client.http.HttpClient with urlopen() replaced by a direct WSGI call, so the
request is serialised by the client half of the protocol and the response is decoded by
the client half - the 'loopback Spyne client' the properties mention.
"""
import io
from .core import use_repo
use_repo()
from spyne import RemoteService, ClientBase, RemoteProcedureBase


class _RemoteProcedure(RemoteProcedureBase):
    wsgi = None
    last = None

    def __call__(self, *args, **kwargs):
        self.ctx, = self.contexts
        self.get_out_object(self.ctx, args, kwargs)
        self.get_out_string(self.ctx)
        out_string = b''.join(self.ctx.out_string)
        env = {'REQUEST_METHOD': 'POST', 'PATH_INFO': '/', 'QUERY_STRING': '',
               'CONTENT_TYPE': self.ctx.out_protocol.mime_type or 'text/xml',
               'CONTENT_LENGTH': str(len(out_string)), 'wsgi.input': io.BytesIO(out_string),
               'wsgi.url_scheme': 'http', 'SERVER_NAME': 'x', 'SERVER_PORT': '80'}
        st = []
        body = b''.join(type(self).wsgi(env, lambda s, h, e=None: st.append((s, h))))
        type(self).last = {'request': out_string, 'status': st[0][0], 'headers': st[0][1], 'response': body}
        code = int(st[0][0].split()[0])
        self.ctx.in_string = [body]
        self.get_in_object(self.ctx)
        if self.ctx.in_error is not None:
            raise self.ctx.in_error
        elif code >= 400:
            raise self.ctx.in_error
        return self.ctx.in_object


class LoopbackClient(ClientBase):
    def __init__(self, wsgi, app):
        super(LoopbackClient, self).__init__('http://x/', app)
        rp = type('_RP', (_RemoteProcedure,), {'wsgi': staticmethod(wsgi), 'last': None})
        self.rp = rp
        self.service = RemoteService(rp, 'http://x/', app)
