"""Run the repository's pinned suite (hooks guard OFF) and compare with BASELINE.json.
Usage: /venv/bin/python harness/baseline.py [repo-dir]   -> exit 0 iff every stable_pass test passes."""
import json, os, subprocess, sys, tempfile
import xml.etree.ElementTree as ET

def main():
    repo = sys.argv[1] if len(sys.argv) > 1 else '/repo'
    base = json.load(open('/root/.vp/BASELINE.json'))
    want = set(base['stable_pass'])
    fd, xmlp = tempfile.mkstemp(suffix='.xml'); os.close(fd)
    env = dict(os.environ); env.pop('SPYNE_VERIF', None)
    cmd = ['/venv/bin/python', '-m', 'pytest', '-ra', '-q', '-p', 'no:cacheprovider', '--timeout=900',
           '--continue-on-collection-errors', '--junitxml=' + xmlp]
    if '-n' in sys.argv:
        cmd += ['-n', '8']
    subprocess.run(cmd, cwd=repo, env=env, stdout=subprocess.DEVNULL, stderr=subprocess.DEVNULL)
    passed = set()
    for tc in ET.parse(xmlp).getroot().iter('testcase'):
        if not any(ch.tag in ('failure', 'error', 'skipped') for ch in tc):
            passed.add('%s::%s' % (tc.get('classname'), tc.get('name')))
    os.unlink(xmlp)
    missing = sorted(want - passed)
    print('baseline: %d stable tests, %d passed now, %d missing' % (len(want), len(passed & want), len(missing)))
    for m in missing[:40]:
        print('  MISSING', m)
    return 1 if missing else 0

if __name__ == '__main__':
    sys.exit(main())
