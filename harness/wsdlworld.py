"""C07: applications of SpyneWsdl.Apps as real services, and the structure of their WSDL documents."""
import hashlib, io, json, os, sys
from .core import use_repo
use_repo()

WSDL = 'http://schemas.xmlsoap.org/wsdl/'
XS = 'http://www.w3.org/2001/XMLSchema'
SOAPB = ('http://schemas.xmlsoap.org/wsdl/soap/', 'http://schemas.xmlsoap.org/wsdl/soap12/')


def build(desc, prot='soap11', validator='lxml'):
    from spyne import Application, Service, srpc, rpc, ComplexModel, Integer, Unicode, Double, Boolean
    from spyne.model.fault import Fault
    from spyne.protocol.soap import Soap11, Soap12
    from spyne.server.wsgi import WsgiApplication
    seen = []

    class Session(ComplexModel):
        __namespace__ = 'tns'
        sid = Unicode

    class Quota(ComplexModel):
        __namespace__ = 'urn:hdr'
        left = Integer

    class LimitFault(Fault):
        pass

    class AuthFault(Fault):
        __namespace__ = 'urn:flt'

    class C8(ComplexModel):
        __namespace__ = 'tns'
        i = Integer

    class O(ComplexModel):
        __namespace__ = 'urn:other'
        x = Integer
    class Shape(ComplexModel):
        __namespace__ = 'tns'
        s = Integer

    class Rect(Shape):
        __namespace__ = 'tns'
        w = Integer

    class Square(Rect):
        __namespace__ = 'tns'
        q = Integer
    H = {'Session': Session, 'Quota': Quota}
    FT = {'LimitFault': LimitFault, 'AuthFault': AuthFault}
    KIND = {'int_int': ((Integer,), Integer, lambda a: a + 1), 'c8_c8': ((C8,), C8, lambda c: c),
            'int_double': ((Integer,), Double, lambda a: 1.5), 'str_bool': ((Unicode,), Boolean, lambda s: True),
            'other_other': ((O,), O, lambda o: o),
            'shape_square': ((Shape,), Shape, lambda sh: Square(s=sh.s, w=2, q=3))}
    poly = any(m['kind'] == 'shape_square' for sd in desc['services'] for m in sd['methods'])
    services = []
    for sd in desc['services']:
        d = {}
        if sd['pts']:
            d['__port_types__'] = tuple(sd['pts'])
        for m in sorted(sd['methods'], key=lambda m: m['name']):
            args, ret, fn = KIND[m['kind']]
            kw = {'_returns': ret}
            if m['op'] != m['name']:
                kw['_operation_name'] = m['op']
            if m['inmsg'] != m['op']:
                kw['_in_message_name'] = m['inmsg']
            if m['outmsg'] != m['op'] + 'Response':
                kw['_out_message_name'] = m['outmsg']
            if m['style'] != 'wrapped':
                kw['_body_style'] = m['style']
            if m['inh']:
                kw['_in_header'] = tuple(H[h] for h in m['inh'])
            if m['outh']:
                kw['_out_header'] = tuple(H[h] for h in m['outh'])
            if m['faults']:
                kw['_throws'] = [FT[f] for f in m['faults']]
            if m['pt']:
                kw['_port_type'] = m['pt']

            def body(ctx, x, fn=fn, m=m):
                seen.append((m['name'], x))
                return fn(x)
            src = 'def %s(ctx, x):\n    return body(ctx, x)\n' % m['name']
            ns = {'body': body}
            exec(src, ns)
            d[m['name']] = rpc(*args, **kw)(ns[m['name']])
        services.append(type(str(sd['cls']), (Service,), d))
    P = Soap11 if prot == 'soap11' else Soap12
    app = Application(services, desc['tns'], name=desc['name'], in_protocol=P(validator=validator, **({'polymorphic': True} if poly else {})),
                      out_protocol=P(**({'polymorphic': True} if poly else {})))
    return WsgiApplication(app), seen, {'C8': C8, 'O': O}


def wsdl(wsgi):
    env = {'REQUEST_METHOD': 'GET', 'PATH_INFO': '/', 'QUERY_STRING': 'wsdl', 'wsgi.input': io.BytesIO(b''),
           'wsgi.url_scheme': 'http', 'SERVER_NAME': 'x', 'SERVER_PORT': '80'}
    st = []
    return b''.join(wsgi(env, lambda s, h, e=None: st.append(s)))


def histories(desc):
    """the WSDL as served after different histories of the objects that serve it -> [(name, document)]"""
    from spyne.server.wsgi import WsgiApplication
    out = []
    # the recipe of the WsgiApplication docstring: the document is built ahead of the first request, with the public URL
    w, _, _ = build(desc)
    w.doc.wsdl11.build_interface_document('http://x/')
    out.append(('prebuilt', wsdl(w)))
    out.append(('prebuilt, again', wsdl(w)))
    # two transports over one application: the second one serves what the first one had built
    w1, _, _ = build(desc)
    w2 = WsgiApplication(w1.app)
    wsdl(w1)
    out.append(('second transport', wsdl(w2)))
    out.append(('first transport, after the second', wsdl(w1)))
    # the interface document object asked directly, before and after a transport served it
    w3, _, _ = build(desc)
    w3.doc.wsdl11.build_interface_document('http://x/')
    out.append(('direct', w3.doc.wsdl11.get_interface_document()))
    wsdl(w3)
    out.append(('direct, after serving', w3.doc.wsdl11.get_interface_document()))
    # the same Wsdl11 object builds twice (a build starts from nothing), and a transport whose first build failed late
    w4, _, _ = build(desc)
    w4.doc.wsdl11.build_interface_document('http://x/')
    w4.doc.wsdl11.build_interface_document('http://x/')
    out.append(('built twice', w4.doc.wsdl11.get_interface_document()))
    w5, _, _ = build(desc)
    armed = [True]

    def boom(doc):
        if armed[0]:
            armed[0] = False
            raise RuntimeError('injected: wsdl_document_built listener fails once')
    w5.doc.wsdl11.event_manager.add_listener('wsdl_document_built', boom)
    import logging
    logging.disable(logging.CRITICAL)
    try:
        wsdl(w5)
    finally:
        logging.disable(logging.NOTSET)
    out.append(('retry after a failed build', wsdl(w5)))
    return out


BUILTINS = None


def analyze(doc, desc):
    """-> (per-method observations, document observation)"""
    from lxml import etree
    try:
        root = etree.fromstring(doc)
    except Exception as e:
        return {}, {'wellformed': False, 'unresolved': ['not well-formed: %s' % e], 'nops': 0}
    tns = root.get('targetNamespace')

    def q(el, v):
        p, _, l = v.rpartition(':')
        return (el.nsmap.get(p or None), l)
    messages = {m.get('name'): m for m in root.findall('{%s}message' % WSDL)}
    porttypes = {p.get('name'): p for p in root.findall('{%s}portType' % WSDL)}
    bindings = {b.get('name'): b for b in root.findall('{%s}binding' % WSDL)}
    elements, types = set(), set()
    for s in root.iter('{%s}schema' % XS):
        sns = s.get('targetNamespace')
        for e in s:
            if not isinstance(e.tag, str):
                continue
            ln = etree.QName(e).localname
            if ln == 'element':
                elements.add((sns, e.get('name')))
            elif ln in ('complexType', 'simpleType'):
                types.add((sns, e.get('name')))
    unresolved = []

    def res_message(el, v):
        ns, l = q(el, v)
        return ns == tns and l in messages
    for el in root.iter():
        if not isinstance(el.tag, str):
            continue
        qn = etree.QName(el)
        for a in ('message', 'binding', 'type', 'base', 'element', 'ref', 'itemType'):
            v = el.get(a)
            if v is None:
                continue
            ns, l = q(el, v)
            if a == 'message':
                ok = ns == tns and l in messages
            elif a == 'binding':
                ok = ns == tns and l in bindings
            elif a == 'type' and qn.namespace == WSDL and qn.localname == 'binding':
                ok = ns == tns and l in porttypes
            elif a in ('element', 'ref'):
                ok = (ns, l) in elements
            elif qn.namespace == XS or a in ('type', 'base', 'itemType'):
                ok = ns == XS or (ns, l) in types
            else:
                ok = True
            if not ok:
                unresolved.append('%s %s="%s"' % (qn.localname, a, v))
        if qn.namespace in SOAPB and qn.localname == 'header':
            # the part must exist in the message
            v = el.get('message')
            if v is not None and res_message(el, v):
                parts = [p.get('name') for p in messages[q(el, v)[1]]]
                if el.get('part') not in parts:
                    unresolved.append('header part="%s" not in message %s' % (el.get('part'), v))
    nops = sum(len(p.findall('{%s}operation' % WSDL)) for p in porttypes.values())
    per = {}
    for sd in desc['services']:
        for m in sd['methods']:
            o = {'npt': 0, 'pts': [], 'nbind': 0, 'bindtypes': [], 'inres': False, 'inelem': '', 'outres': False, 'outelem': '',
                 'ptfaults': [], 'bindfaults': [], 'faultsres': True, 'inhparts': [], 'outhparts': [], 'hdrres': True}
            for pn, p in porttypes.items():
                for op in p.findall('{%s}operation' % WSDL):
                    if op.get('name') != m['op']:
                        continue
                    o['npt'] += 1
                    o['pts'].append(pn)
                    for kind in ('input', 'output'):
                        io_ = op.find('{%s}%s' % (WSDL, kind))
                        if io_ is None:
                            continue
                        ns, l = q(io_, io_.get('message'))
                        ok = ns == tns and l in messages
                        elem = ''
                        if ok:
                            parts = list(messages[l])
                            if len(parts) == 1:
                                ens, el_ = q(parts[0], parts[0].get('element'))
                                ok = (ens, el_) in elements
                                elem = el_
                            else:
                                ok = False
                        o['inres' if kind == 'input' else 'outres'] = bool(ok)
                        o['inelem' if kind == 'input' else 'outelem'] = elem
                    for f in op.findall('{%s}fault' % WSDL):
                        o['ptfaults'].append(f.get('name'))
                        ns, l = q(f, f.get('message'))
                        ok = ns == tns and l in messages
                        if ok:
                            parts = list(messages[l])
                            ok = len(parts) == 1 and q(parts[0], parts[0].get('element')) in elements
                        o['faultsres'] = o['faultsres'] and bool(ok)
            for bn, b in bindings.items():
                for op in b.findall('{%s}operation' % WSDL):
                    if op.get('name') != m['op']:
                        continue
                    o['nbind'] += 1
                    o['bindtypes'].append(q(b, b.get('type'))[1])
                    for kind in ('input', 'output'):
                        io_ = op.find('{%s}%s' % (WSDL, kind))
                        if io_ is None:
                            continue
                        for h in io_:
                            if isinstance(h.tag, str) and etree.QName(h).localname == 'header':
                                o['inhparts' if kind == 'input' else 'outhparts'].append(h.get('part'))
                                ok = res_message(h, h.get('message'))
                                if ok:
                                    msg = messages[q(h, h.get('message'))[1]]
                                    part = [p for p in msg if p.get('name') == h.get('part')]
                                    ok = len(part) == 1 and q(part[0], part[0].get('element')) in elements
                                o['hdrres'] = o['hdrres'] and bool(ok)
                    for f in op.findall('{%s}fault' % WSDL):
                        o['bindfaults'].append(f.get('name'))
            per[m['name']] = o
    return per, {'wellformed': True, 'unresolved': sorted(set(unresolved)), 'nops': nops}


def zeep_call(wsgi, seen, desc, classes):
    """-> {method name: 'ok' | reason}: a client generated from the WSDL alone calls every method"""
    from . import zeepclient as Z
    out = {}
    try:
        cl, tr = Z.make_client(wsgi)
    except Exception as e:
        return {m['name']: 'client: %s: %s' % (type(e).__name__, str(e)[:150]) for sd in desc['services'] for m in sd['methods']}
    want = {'int_int': (lambda: {'x': 5}, 6), 'c8_c8': (lambda: {'i': 7}, {'i': 7}), 'int_double': (lambda: {'x': 5}, 1.5),
            'str_bool': (lambda: {'x': 'hello'}, True), 'other_other': (lambda: {'x': {'x': 9}}, {'x': 9}),
            'shape_square': (lambda: {'x': {'s': 1}}, {'s': 1, 'w': 2, 'q': 3})}
    for sname, svc in cl.wsdl.services.items():
        for pname, port in svc.ports.items():
            proxy = cl.bind(sname, pname)
            ops = port.binding._operations
            for sd in desc['services']:
                for m in sd['methods']:
                    if m['op'] not in ops or m['name'] in out and out[m['name']] == 'ok':
                        continue
                    kw, exp = want[m['kind']]
                    del seen[:]
                    try:
                        hdr = None
                        if m['inh']:
                            hdr = {}
                            for h in m['inh']:
                                hdr[h] = {'sid': 's-1'} if h == 'Session' else {'left': 3}
                        r = getattr(proxy, m['op'])(_soapheaders=hdr, **kw()) if hdr else getattr(proxy, m['op'])(**kw())
                        p = Z.to_plain(r)
                        if m['outh'] and isinstance(p, dict) and 'body' in p:
                            p = p['body']
                            if isinstance(p, dict) and len(p) == 1:
                                p = list(p.values())[0]
                        if not seen or seen[0][0] != m['name']:
                            out[m['name']] = 'method not invoked'
                        elif flat1(p) != flat1(exp):
                            out[m['name']] = 'decoded %r, returned %r' % (p, exp)
                        else:
                            out[m['name']] = 'ok'
                    except Exception as e:
                        out[m['name']] = '%s: %s' % (type(e).__name__, str(e)[:150])
    for sd in desc['services']:
        for m in sd['methods']:
            out.setdefault(m['name'], 'operation not found in any port')
    return out


def flat1(p):
    """a reader that maps an object with a single member to that member (zeep does, depending on the style)"""
    while isinstance(p, dict) and len(p) == 1:
        p = list(p.values())[0]
    return p


def digests_main():
    """child process: print sha256 of the WSDL of every application (run under different PYTHONHASHSEED)"""
    descs = json.load(open(sys.argv[1]))
    out = []
    for d in descs:
        for rep in range(2):
            w, _, _ = build(d)
            out.append(hashlib.sha256(wsdl(w)).hexdigest())
    print(json.dumps(out))


if __name__ == '__main__':
    digests_main()
