"""C02 / C16: the hierarchical dict documents (JSON, YAML, MessagePack, MessagePackRpc).

An encoder and a reader written against the published conventions (SpyneDictDoc.tla states
them; TLC checks that what this encoder sends IS the conventional document), the wire
codecs of the standard libraries, and the abstract tree form TLC compares."""
import base64, io, json, os
from . import tlc, pipeline_common as pc, gen as G, enc as E, sigcases as S

TEXTS = {'u_astral': '\U0001d518\U0001f600', 'u_ffff': 'a￿b', 'u_ctrl1': 'a\x01b', 'u_quote_backslash': 'say "hi" \\ \'ok\' \\n',
         'u_nl_tab': 'line1\nline2\r\n\tend', 'u_empty': '', 'u_nbsp_space': '  x  ', 'u_long_odd': 'x' + 'é' * 6000,
         'u_long_even': 'xx' + 'é' * 6000}
REV = {v: k for k, v in TEXTS.items()}
INT_TYPES = ('Integer', 'Integer8', 'Integer16', 'Integer32', 'Integer64', 'UnsignedInteger8', 'UnsignedInteger16', 'UnsignedInteger32', 'UnsignedInteger64')
PACKED = ('msgpack', 'msgpackrpc')


def export(ctx):
    out = os.path.join(ctx.work, 'dict_cases.json')
    cfg = pc.write_cfg(os.path.join(ctx.work, 'expd.cfg'), ['INIT Init', 'NEXT Next', 'CHECK_DEADLOCK FALSE'])
    tlc.run('ExportDictCases', cfg, ctx.work, env={'OUT_FILE': out})
    d = json.load(open(out))
    d.sort(key=lambda c: json.dumps(c, sort_keys=True))
    return d


# ------------------------------------------------------------------ conventions: value -> document
def leaf_doc(p, text, fam, rawas='str'):
    """the document value of a leaf given as canonical text (rawas: MessagePack text as str or as bin holding its UTF-8 bytes)"""
    if p in INT_TYPES:
        n = int(text)
        if fam in PACKED and not (-(1 << 63) <= n < (1 << 64)):
            return text.encode('ascii') if rawas == 'bin' else text          # beyond msgpack's integers: decimal text
        return n
    if p == 'Double':
        return float(text)
    if p == 'Boolean':
        return text == 'true'
    if p == 'ByteArray':
        return base64.b64decode(text) if fam in PACKED else text
    if p == 'Unicode':
        text = TEXTS.get(text, text)
    if fam in PACKED and rawas == 'bin':
        return text.encode('utf8')
    return text                              # decimals, dates, uuids travel as their text


def runtime(t, v, poly):
    if poly and v[1] != t['name']:
        for s in t.get('subs') or []:
            if s['name'] == v[1]:
                return s
    return t


def member_doc(f, x, cfg):
    if f['max'] > 1:
        return None if x == ['nil'] else [value_doc(f['t'], y, cfg) for y in x[1]]
    return value_doc(f['t'], x, cfg)


def value_doc(t, v, cfg):
    if v == ['nil']:
        return None
    k = t['k']
    if k == 'prim':
        return leaf_doc(t['p'], v[1], cfg['fam'], cfg.get('rawas', 'str'))
    if k == 'enum':
        return v[1].encode('utf8') if cfg['fam'] in PACKED and cfg.get('rawas', 'str') == 'bin' else v[1]
    if k == 'attr':
        return value_doc(t['of'], v, cfg)
    if k == 'arr':
        return [value_doc(t['of'], y, cfg) for y in v[1]]
    rt = runtime(t, v, cfg['poly'])
    fl = S.flat_fields(rt)
    # (a member declared exc=True is outside the documents: not written by name, no slot in the positional list)
    if cfg['ca'] == 'list':
        return [member_doc(f, x, cfg) for f, x in zip(fl, v[2]) if not f.get('exc')]
    body = {f.get('sub', f['n']): member_doc(f, x, cfg) for f, x in zip(fl, v[2]) if (x != ['nil'] or f['min'] > 0) and not f.get('exc')}
    return body if cfg['iw'] else {rt['name']: body}


def request_doc(c, cfg, form):
    if form == 'list':
        args = [member_doc(f, x, cfg) for f, x in zip(c['args'], c['vals'])]
    else:
        args = {f['n']: member_doc(f, x, cfg) for f, x in zip(c['args'], c['vals']) if x != ['nil'] or f['min'] > 0}
    if cfg['fam'] == 'msgpackrpc':
        return [0, 0, c['method'], args if cfg['iw'] else {c['method']: args}]
    return {c['method']: args}


# ------------------------------------------------------------------ conventions: document -> value
def leaf_read(p, x):
    if p == 'ByteArray':
        return ['leaf', base64.b64encode(x).decode() if isinstance(x, (bytes, bytearray)) else str(x)]
    if p in INT_TYPES:
        if isinstance(x, (bytes, bytearray)):
            x = bytes(x).decode('ascii', 'replace')
        return ['leaf', str(int(x)) if isinstance(x, (int, str)) and not isinstance(x, bool) else '?%s' % type(x).__name__]
    if p == 'Double':
        return ['leaf', repr(float(x)) if isinstance(x, (int, float)) and not isinstance(x, bool) else '?%s' % type(x).__name__]
    if p == 'Boolean':
        return ['leaf', {True: 'true', False: 'false'}.get(x, '?%r' % (x,)) if isinstance(x, bool) else '?%s' % type(x).__name__]
    if isinstance(x, (bytes, bytearray)):
        try:
            x = bytes(x).decode('utf8')          # MessagePack: text may travel as bin holding its UTF-8 bytes
        except UnicodeDecodeError:
            return ['leaf', '?undecodable-bytes']
    if not isinstance(x, str):
        return ['leaf', '?%s' % type(x).__name__]
    if p == 'Unicode':
        return ['leaf', REV.get(x, x)]
    return ['leaf', x]


def member_read(f, x, cfg):
    if x is None:
        return ['nil']
    if f['max'] > 1:
        return ['seq', [value_read(f['t'], y, cfg) for y in x]] if isinstance(x, (list, tuple)) else ['leaf', '?not-a-list']
    return value_read(f['t'], x, cfg)


def value_read(t, x, cfg):
    if x is None:
        return ['nil']
    k = t['k']
    if k == 'prim':
        return leaf_read(t['p'], x)
    if k == 'enum':
        return leaf_read('Uuid', x)          # (read as plain text: the name of the value)
    if k == 'attr':
        return value_read(t['of'], x, cfg)
    if k == 'arr':
        return ['seq', [value_read(t['of'], y, cfg) for y in x]] if isinstance(x, (list, tuple)) else ['leaf', '?not-a-list']
    rt = t
    if cfg['ca'] != 'list' and not cfg['iw']:
        if not (isinstance(x, dict) and len(x) == 1):
            return ['leaf', '?no-wrapper']
        (name, x), = x.items()
        name = name.decode('utf8') if isinstance(name, bytes) else name
        rt = next((s for s in [t] + list(t.get('subs') or []) if s['name'] == name), None)
        if rt is None:
            return ['leaf', '?unknown-class:%s' % name]
    fl = S.flat_fields(rt)
    if isinstance(x, (list, tuple)):
        inc = [f for f in fl if not f.get('exc')]
        if len(x) != len(inc):
            return ['leaf', '?positional-length']
        got = {f['n']: member_read(f, y, cfg) for f, y in zip(inc, x)}
        return ['obj', rt['name'], [got.get(f['n'], ['nil']) for f in fl]]
    if not isinstance(x, dict):
        return ['leaf', '?%s' % type(x).__name__]
    x = {(kk.decode('utf8') if isinstance(kk, bytes) else kk): vv for kk, vv in x.items()}
    return ['obj', rt['name'], [member_read(f, x.get(f.get('sub', f['n'])), cfg) for f in fl]]


def ret_fields(c):
    n = len(c['rets'])
    return [{'n': c['method'] + 'Result' + ('' if n == 1 else str(i)), 't': t, 'min': 0, 'max': 1} for i, t in enumerate(c['rets'])]


def response_read(c, cfg, doc):
    """-> one value per declared return value"""
    rf = ret_fields(c)
    if cfg['fam'] == 'msgpackrpc':
        if not (isinstance(doc, (list, tuple)) and len(doc) == 4 and doc[0] == 1):
            return [['leaf', '?not-an-rpc-response'] for _ in rf]
        doc = doc[3]
    elif cfg['iw'] and len(rf) == 1:
        return [member_read(rf[0], doc, cfg)]
    if not cfg['iw'] and cfg['ca'] != 'list':
        if not (isinstance(doc, dict) and len(doc) == 1):
            return [['leaf', '?no-wrapper'] for _ in rf]
        (_, doc), = doc.items()
    if isinstance(doc, (list, tuple)):
        return [member_read(f, y, cfg) for f, y in zip(rf, list(doc) + [None] * len(rf))]
    if not isinstance(doc, dict):
        return [['leaf', '?%s' % type(doc).__name__] for _ in rf]
    doc = {(kk.decode('utf8') if isinstance(kk, bytes) else kk): vv for kk, vv in doc.items()}
    return [member_read(f, doc.get(f['n']), cfg) for f in rf]


# ------------------------------------------------------------------ the abstract tree TLC compares
def tree(x):
    if x is None:
        return ['null']
    if isinstance(x, bool):
        return ['bool', 'true' if x else 'false']
    if isinstance(x, int):
        return ['num', str(x)]
    if isinstance(x, float):
        return ['num', E.lex(x)]
    if isinstance(x, str):
        return ['str', REV.get(x, x)]
    if isinstance(x, (bytes, bytearray, memoryview)):
        b = bytes(x)
        try:
            t = b.decode('utf8')
            t = REV.get(t, t)
        except UnicodeDecodeError:
            t = '?'
        return ['bin', base64.b64encode(b).decode(), t]
    if isinstance(x, dict):
        return ['map', [[(k.decode('utf8', 'replace') if isinstance(k, bytes) else str(k)), tree(v)] for k, v in x.items()]]
    if isinstance(x, (list, tuple)):
        return ['list', [tree(v) for v in x]]
    return ['str', '?%s' % type(x).__name__]


# ------------------------------------------------------------------ wire
CT = {'json': 'application/json', 'yaml': 'text/yaml', 'msgpack': 'application/x-msgpack', 'msgpackrpc': 'application/x-msgpack'}


def dumps(fam, doc, mkey='bytes'):
    if fam == 'json':
        return json.dumps(doc, ensure_ascii=False).encode('utf8')
    if fam == 'yaml':
        import yaml
        return yaml.safe_dump(doc, allow_unicode=True, width=1 << 20).encode('utf8')
    import msgpack
    if fam == 'msgpack' and mkey == 'bytes':
        # the method name as a bin key (what the repository's own tests send); 'str': as a str key
        doc = {k.encode('utf8'): v for k, v in doc.items()}
    return msgpack.packb(doc, use_bin_type=True)


def loads(fam, body):
    if fam == 'json':
        return json.loads(body.decode('utf8'))
    if fam == 'yaml':
        import yaml
        return yaml.safe_load(body.decode('utf8'))
    import msgpack
    return msgpack.unpackb(body, raw=False, strict_map_key=False)


def protocol(fam, **kw):
    from spyne.protocol.json import JsonDocument
    from spyne.protocol.yaml import YamlDocument
    from spyne.protocol.msgpack import MessagePackDocument, MessagePackRpc
    return {'json': JsonDocument, 'yaml': YamlDocument, 'msgpack': MessagePackDocument, 'msgpackrpc': MessagePackRpc}[fam](**kw)


def unrev(v):
    """delivered values: strings of the text pool back to their identifiers"""
    if isinstance(v, list):
        if len(v) == 2 and v[0] == 'leaf' and isinstance(v[1], str):
            return ['leaf', REV.get(v[1], v[1])]
        return [unrev(x) for x in v]
    return v


def to_instance(gen, t, v, memo=None):
    """TLA value -> what user code returns (Spyne instances); memo: one instance per equal object value"""
    if v == ['nil']:
        return None
    k = t['k']
    if v[0] == 'seq' and k != 'arr':
        return [to_instance(gen, t, x, memo) for x in v[1]]
    if k == 'prim':
        if t['p'] == 'Unicode':
            return TEXTS.get(v[1], v[1])
        x = S.leaf_native(t['p'], v[1])
        # (a ByteArray value is a sequence of chunks whose concatenation is the value: hand it over in two uneven chunks)
        return ([x[:1], x[1:]] if len(x) >= 2 else [x]) if t['p'] == 'ByteArray' else x
    if k == 'attr':
        return to_instance(gen, t['of'], v, memo)
    if k == 'enum':
        return getattr(gen.cls(S.texpr(t)), v[1])
    if k == 'arr':
        return [to_instance(gen, t['of'], x, memo) for x in v[1]]
    key = json.dumps(v, sort_keys=True)
    if memo is not None and key in memo:
        return memo[key]
    rt = runtime(t, v, True)
    cls = gen.cls(S.texpr(rt))
    o = cls(**{f['n']: to_instance(gen, f['t'], x, memo) for f, x in zip(S.flat_fields(rt), v[2])})
    if memo is not None:
        memo[key] = o
    return o


def _reused(items):
    import copy
    o = copy.copy(items[0])
    for it in items:
        o.__dict__.clear()
        o.__dict__.update(it.__dict__)
        yield o


class World(object):
    """One application per (signature, configuration, validator); the value to return is set per exchange."""

    def __init__(self, case, cfg, validator):
        from spyne import Application
        from spyne.server.wsgi import WsgiApplication
        self.cfg = cfg
        self.gen = G.Gen()
        self.seen = []
        self.holder = [None]
        rets = [S.texpr(t) for t in case['rets']]
        # subclasses must exist (and be registered with their base) before the interface is built
        for t in list(case['rets']) + [f['t'] for f in case['args']]:
            self._subs(t)
        m = {'name': case['method'], 'args': [[f['n'], S.texpr(f['t'], f)] for f in case['args']],
             'ret': None if not rets else (rets[0] if len(rets) == 1 else rets), 'returns': lambda args: self.holder[0]}
        svc = G.make_service(self.gen, [m], self.seen)
        kw = dict(ignore_wrappers=cfg['iw'], complex_as=list if cfg['ca'] == 'list' else dict, polymorphic=cfg['poly'])
        self.app = Application([svc], case['tns'], in_protocol=protocol(cfg['fam'], validator=validator, **kw),
                               out_protocol=protocol(cfg['fam'], **kw))
        self.wsgi = WsgiApplication(self.app)

    def _subs(self, t, late=False):
        if t['k'] in ('arr', 'attr'):
            return self._subs(t['of'], late)
        if t['k'] == 'obj':
            for s in t.get('subs') or []:
                if s.get('late') and not late:
                    continue          # this subclass is declared later, after the first request was served
                self.gen.cls(S.texpr(s))
            for f in S.flat_fields(t):
                self._subs(f['t'])

    def exchange(self, c, form, mkey='bytes'):
        cfg = self.cfg
        if 'prime' in c and not getattr(self, 'primed', False):
            # the first request of this server, with the class tree as it is NOW; then the late subclasses are declared
            self.primed = True
            c0 = dict(c, vals=c['prime'], rvals=c['prime'] if len(c['rets']) == len(c['prime']) and c['rets'] == [f['t'] for f in c['args']] else c['rvals'])
            c0.pop('prime')
            try:
                self.exchange(c0, form, mkey)
            except Exception:
                pass
            for t in list(c['rets']) + [f['t'] for f in c['args']]:
                self._subs(t, late=True)
        memo = {} if c.get('share') else None
        self.count = getattr(self, 'count', 0) + 1
        doc = request_doc(c, cfg, form)
        body = dumps(cfg['fam'], doc, mkey)
        if self.count % 3 == 1 and len(body) > 2:
            # the transport saw a request that was cut short just before this one: what is left of it is nobody's business
            # (it may happen to be a complete document still: the function then answers with nothing)
            self.holder[0] = None
            E.send(self.wsgi, {'REQUEST_METHOD': 'POST', 'PATH_INFO': '/', 'QUERY_STRING': '', 'CONTENT_TYPE': CT[cfg['fam']]}, body[:-1])
        vals = [to_instance(self.gen, t, v, memo) for t, v in zip(c['rets'], c['rvals'])]
        if self.count % 2 == 0:
            # an array of objects produced lazily by a generator that refills and re-yields ONE record object per row
            vals = [_reused(x) if (t['k'] == 'arr' and t['of']['k'] == 'obj' and isinstance(x, list) and len(x) >= 2
                                   and len({type(y) for y in x}) == 1 and x[0] is not None) else x for t, x in zip(c['rets'], vals)]
        self.holder[0] = None if not vals else (vals[0] if len(vals) == 1 else tuple(vals))
        del self.seen[:]
        res = E.send(self.wsgi, {'REQUEST_METHOD': 'POST', 'PATH_INFO': '/', 'QUERY_STRING': '', 'CONTENT_TYPE': CT[cfg['fam']]}, body)
        obs = {'req': tree(doc), 'ncalls': len(self.seen), 'status': res['status'], 'escape': res['escape'] or ''}
        if self.seen:
            obs['args'] = unrev([S.from_native(f['t'], x, repeated=f['max'] > 1) for f, x in zip(c['args'], self.seen[0][1])])
        else:
            obs['args'] = [['leaf', '?not-called'] for _ in c['args']]
        raw = res['body']
        try:
            rdoc = loads(cfg['fam'], raw) if raw else None
            obs['resp'] = tree(rdoc)
            obs['dec'] = response_read(c, cfg, rdoc)
        except Exception as e:
            obs['resp'] = ['str', '?undecodable: %s' % type(e).__name__]
            obs['dec'] = [['leaf', '?undecodable'] for _ in c['rets']]
        obs['raw'] = raw[:300].decode('utf8', 'replace')
        obs['request'] = body[:300].decode('utf8', 'replace')
        return obs
