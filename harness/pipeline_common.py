"""Shared steps of the checks built on SpynePipeline.tla (C09, C10, C13, C14)."""
import json, os, random
from . import tlc
from .core import load_findings


def write_cfg(path, lines):
    with open(path, 'w') as f:
        f.write('\n'.join(lines) + '\n')
    return path


def tla_set(xs):
    return '{' + ', '.join('"%s"' % x for x in sorted(xs)) + '}'


def m1(ctx, scenset, invariants, deviations=(), workers=8, expect_violation=None, timeout=900,
       module='SpynePipeline', extra_consts=()):
    """Exhaustive model checking of the design; returns TlcResult."""
    cfg = os.path.join(ctx.work, 'mc_%s_%s.cfg' % (scenset, '_'.join(deviations) or 'design'))
    lines = ['SPECIFICATION Spec', 'CONSTANT Deviations = %s' % tla_set(deviations),
             'CONSTANT ScenSet = "%s"' % scenset]
    lines += list(extra_consts)
    lines += ['INVARIANT %s' % i for i in invariants]
    if not deviations:
        lines += ['PROPERTY Terminates']
    lines += ['CHECK_DEADLOCK FALSE']
    write_cfg(cfg, lines)
    r = tlc.run(module, cfg, ctx.work, workers=workers, timeout=timeout, coverage=not deviations)
    return r


def check_design(ctx, scenset, invariants, sanity):
    """M1 on the design (must hold: otherwise the *specification* is wrong, a machinery
    failure) plus non-vacuity runs: each named deviation must break the clause it is
    said to break."""
    r = m1(ctx, scenset, invariants)
    if not r.ok:
        raise tlc.TlcError('design model violates %s:\n%s' % (r.violated, r.stdout[-2500:]))
    ctx.cov_add(states=r.distinct, transitions=r.generated)
    dead = [a for a, n in r.coverage.items() if n == 0]
    ctx.coverage.setdefault('m1', []).append({'scenset': scenset, 'distinct': r.distinct, 'generated': r.generated,
                                              'invariants': list(invariants), 'actions_never_enabled': dead})
    for dev, inv in sanity:
        # the deviation must break its clause already on the smallest scenario family
        # (deviations of the WSGI transport only show in a WSGI scenario family)
        wsgi_only = dev in ('CloseBeforeBody', 'NonChunkedStrJoin')
        r2 = m1(ctx, 'wsgitiny' if scenset.startswith('wsgi') or wsgi_only else scenset, [inv], deviations=[dev], workers=4)
        if r2.violated != inv:
            raise tlc.TlcError('non-vacuity: deviation %s does not violate %s (got %s)' % (dev, inv, r2.violated))
        ctx.coverage.setdefault('nonvacuity', []).append('%s breaks %s' % (dev, inv))


def export_scenarios(ctx, scenset):
    out = os.path.join(ctx.work, 'scen_%s.json' % scenset)
    cfg = write_cfg(os.path.join(ctx.work, 'exp_%s.cfg' % scenset),
                    ['INIT Init', 'NEXT Next', 'CONSTRAINT Stop', 'CONSTANT Deviations = {}',
                     'CONSTANT ScenSet = "%s"' % scenset, 'CHECK_DEADLOCK FALSE'])
    tlc.run('ExportPipeline', cfg, ctx.work, env={'OUT_FILE': out})
    s = json.load(open(out))
    # deterministic order independent of TLC's set order
    s.sort(key=lambda x: json.dumps(x, sort_keys=True))
    return s


def monitor(ctx, recs, clauses, module='TracePipelineMon', chunk=4000):
    """M3: TLC evaluates the clauses on every recorded history. -> {index: set(failed clauses)}"""
    fails = {}
    for off in range(0, len(recs), chunk):
        part = recs[off:off + chunk]
        tf = os.path.join(ctx.work, 'mon_%d.ndjson' % off)
        with open(tf, 'w') as f:
            for r in part:
                f.write(json.dumps({'obs': r['obs'], 'k': r['k']}) + '\n')
        cfg = write_cfg(os.path.join(ctx.work, 'mon.cfg'),
                        ['INIT Init', 'NEXT Next', 'CONSTANT Clauses = %s' % tla_set(clauses),
                         'CONSTRAINT Report', 'CHECK_DEADLOCK FALSE'])
        r = tlc.run(module, cfg, ctx.work, env={'TRACE_FILE': tf}, timeout=1200)
        seen = set()
        for p in r.prints:
            if p and p[0] == 'V':
                seen.add(p[1])
                if p[2]:
                    fails[off + p[1] - 1] = set(p[2])
        if len(seen) != len(part):
            raise tlc.TlcError('monitor evaluated %d of %d traces:\n%s' % (len(seen), len(part), r.stdout[-2000:]))
        os.unlink(tf)
    return fails


def conformance(ctx, recs, scenset, deviations=(), chunk=3000):
    """M3 exact: is each history a behaviour of SpynePipeline for its scenario? -> set of accepted indexes"""
    acc = set()
    for off in range(0, len(recs), chunk):
        part = recs[off:off + chunk]
        tf = os.path.join(ctx.work, 'conf_%d.ndjson' % off)
        with open(tf, 'w') as f:
            for r in part:
                f.write(json.dumps({'obs': r['obs'], 'k': r['k'], 'scen': r['scen']}) + '\n')
        cfg = write_cfg(os.path.join(ctx.work, 'conf.cfg'),
                        ['SPECIFICATION TSpec', 'CONSTANT Deviations = %s' % tla_set(deviations),
                         'CONSTANT ScenSet = "%s"' % scenset, 'CONSTRAINT Report', 'CHECK_DEADLOCK FALSE'])
        r = tlc.run('TracePipeline', cfg, ctx.work, env={'TRACE_FILE': tf}, timeout=1200)
        for p in r.prints:
            if p and p[0] == 'ACCEPT':
                acc.add(off + p[1] - 1)
        ctx.cov_add(trace_states=r.distinct)
        os.unlink(tf)
    return acc


def scen_key(s):
    inj = s['inj']
    st = [k for k in ('call', 'fn', 'ret', 'ser') if inj[k] != 'ok']
    injs = '%s:%s@%s' % (st[0], inj[st[0]], inj['at']) if st else 'none'
    key = 'tr=%s|fam=%s|req=%s|inj=%s' % (s['cfg']['tr'], s['cfg']['family'], s['req']['class'], injs)
    if s['req'].get('kind', 'rpc') != 'rpc':
        key += '|kind=%s' % s['req']['kind']
    if inj.get('res', 'plain') not in ('plain', 'gen'):
        key += '|res=%s' % inj['res']
    if inj.get('fin', 'ok') in ('rewrite', 'lclen'):
        key += '|fin=' + inj['fin']
    return key
