"""Real applications for the mixed-request concurrency experiments of C12: requests that
touch every kind of shared cell found at request time (idempotent caches, the lazy
namespace-prefix allocator, the lazy WSDL)."""
import io, sys
from .core import use_repo
use_repo()
from . import sched as sc

E = 'http://schemas.xmlsoap.org/soap/envelope/'
XSI = 'http://www.w3.org/2001/XMLSchema-instance'


def make_app():
    from spyne import Application, Service, srpc, Integer, Unicode, ComplexModel, Fault, Array
    from spyne.protocol.soap import Soap11

    class P(ComplexModel):
        __namespace__ = 'ns.p'
        x = Integer

    class P1(P):
        __namespace__ = 'ns.p'
        p = Unicode

    class Q(ComplexModel):
        __namespace__ = 'ns.q'
        y = Integer

    class Q1(Q):
        __namespace__ = 'ns.q'
        q = Unicode

    class S(Service):
        @srpc(_returns=P)
        def fp(): return P1(x=1, p='pp')

        @srpc(_returns=Q)
        def fq(): return Q1(y=2, q='qq')

        @srpc(Integer(ge=0), _returns=Integer)
        def f(a): return a * 2

        @srpc(Unicode, _returns=Array(Unicode))
        def g(s): return [s, s]

        @srpc(Integer, _returns=Integer)
        def boom(a): raise Fault('Client.Boom', 'boom %d' % a)
    return Application([S], 'tns', name='App', in_protocol=Soap11(validator='soft'),
                       out_protocol=Soap11(polymorphic=True))


def make_app_lxml():
    """Fifth application: Soap11 with schema validation (one compiled schema object serves every request)."""
    from spyne import Application, Service, srpc, Integer, Unicode, ComplexModel

    from spyne.protocol.soap import Soap11

    class Who(ComplexModel):          # (a type in a namespace of its own: the schemas of the application import each other)
        __namespace__ = 'ns.who'
        name = Unicode(max_len=5)

    class S(Service):
        @srpc(Integer(ge=0), Unicode(max_len=3), _returns=Integer)
        def v(a, s): return a

        @srpc(Who, _returns=Unicode)
        def greet(w): return w.name
    return Application([S], 'tns', name='App5', in_protocol=Soap11(validator='lxml'), out_protocol=Soap11())


def make_app_json():
    """Second application: HttpRpc in, JsonDocument(complex_as=list) out, a class whose members carry
    protocol-specific attributes (order, sub_name) - so that the per-protocol caches (_attrcache,
    _sortcache) hold values that differ from the declaration defaults."""
    from spyne import Application, Service, srpc, rpc, Integer, Unicode, ComplexModel, Array
    from spyne.protocol.http import HttpRpc
    from spyne.protocol.json import JsonDocument

    class Point(ComplexModel):
        __namespace__ = 'tns'
        _type_info = [
            ('label', Unicode(pa={JsonDocument: dict(order=2)})),
            ('x', Integer(pa={JsonDocument: dict(order=0)})),
            ('y', Integer(pa={JsonDocument: dict(order=1)})),
        ]

    class Seg(ComplexModel):
        __namespace__ = 'tns'
        _type_info = [('b', Point.customize(pa={JsonDocument: dict(order=1)})), ('a', Point.customize(pa={JsonDocument: dict(order=0)}))]

    class Cred(ComplexModel):
        __namespace__ = 'tns'
        # `secret` is excluded from what the JSON protocol WRITES; it is an ordinary member for the protocol that reads requests
        _type_info = [('user', Unicode), ('secret', Unicode(pa={JsonDocument: dict(exc=True)}))]

    class S(Service):
        @srpc(Cred, _returns=Cred)
        def reg(c): return Cred(user=c.user, secret=c.secret)

        @srpc(Cred, _returns=Unicode)
        def chk(c): return u'%s sent %s' % (c.user, 'no secret' if c.secret is None else 'a secret of %d characters' % len(c.secret))

        @srpc(Integer, _returns=Point)
        def pt(n): return Point(label=u'p%d' % n, x=n, y=n * 10)

        @srpc(Integer, _returns=Seg)
        def seg(n): return Seg(a=Point(label=u'a', x=n, y=1), b=Point(label=u'b', x=2, y=n))

        @srpc(Integer, _returns=Array(Point))
        def pts(n): return [Point(label=u'q', x=i, y=n) for i in range(2)]

        @rpc(Unicode, _returns=Unicode)
        def tag(ctx, v):
            # a response header of this request only
            ctx.transport.resp_headers['X-Tag'] = v
            return v
    return Application([S], 'tns', name='App2', in_protocol=HttpRpc(), out_protocol=JsonDocument(complex_as=list))


def make_app_xml():
    """Third application: XmlDocument on both sides, echoing text - requests that differ in what the TRANSPORT says about them
    (the charset parameter of the content type), which is a fact about one request, not about the protocol object."""
    from spyne import Application, Service, srpc, Unicode
    from spyne.protocol.xml import XmlDocument

    class S(Service):
        @srpc(Unicode, _returns=Unicode)
        def echo(s): return s
    return Application([S], 'tns', name='App3', in_protocol=XmlDocument(validator='soft'), out_protocol=XmlDocument())


def make_app_jx():
    """Fourth application: reads JSON, answers XML; a member customized for ONE of the two protocols (left out of what
    XmlDocument writes) is an ordinary member for the other."""
    from spyne import Application, Service, srpc, Unicode, ComplexModel
    from spyne.protocol.json import JsonDocument
    from spyne.protocol.xml import XmlDocument

    class Account(ComplexModel):
        __namespace__ = 'tns'
        _type_info = [('name', Unicode), ('secret', Unicode(pa={XmlDocument: dict(exc=True)}))]

    class S(Service):
        @srpc(Account, _returns=Account)
        def register(a): return a

        @srpc(Account, _returns=Unicode)
        def check(a): return u'%s sent %s' % (a.name, 'no secret' if a.secret is None else 'a secret of %d characters' % len(a.secret))
    return Application([S], 'tns', name='App4', in_protocol=JsonDocument(validator='soft'), out_protocol=XmlDocument())


LX_REQS = {'vneg': '<tns:v><tns:a>-5</tns:a><tns:s>ab</tns:s></tns:v>', 'vlong': '<tns:v><tns:a>5</tns:a><tns:s>abcdef</tns:s></tns:v>',
           'vok': '<tns:v><tns:a>5</tns:a><tns:s>ab</tns:s></tns:v>', 'vabc': '<tns:v><tns:a>abc</tns:a><tns:s>ab</tns:s></tns:v>',
           'vwho': '<tns:greet><tns:w><w:name xmlns:w="ns.who">ann</w:name></tns:w></tns:greet>',
           'vwholong': '<tns:greet><tns:w><w:name xmlns:w="ns.who">annabelle</w:name></tns:w></tns:greet>',
           'lwsdl': None}     # (lwsdl: the ?wsdl request of THIS application)
WSDLS = ('wsdl', 'lwsdl')
JX_REQS = {
    'jreg': ('application/json', b'{"register": {"a": {"name": "ann", "secret": "opensesame"}}}'),
    'jchk1': ('application/json', b'{"check": {"a": {"name": "bob", "secret": "hunter2"}}}'),
    'jchk2': ('application/json', b'{"check": {"a": {"name": "eve", "secret": "12345"}}}'),
}
# name -> (content type, body bytes)
XML_REQS = {
    'lat': ('text/xml; charset=iso-8859-1', u'<tns:echo xmlns:tns="tns"><tns:s>caf\xe9 \xfcber</tns:s></tns:echo>'.encode('latin-1')),
    'latdecl': ('text/xml; charset=iso-8859-1', u'<?xml version="1.0" encoding="iso-8859-1"?><tns:echo xmlns:tns="tns"><tns:s>caf\xe9</tns:s></tns:echo>'.encode('latin-1')),
    'utf': ('text/xml', u'<tns:echo xmlns:tns="tns"><tns:s>caf\xe9 \xfcber \u017e</tns:s></tns:echo>'.encode('utf8')),
    'utf16': ('text/xml; charset=utf-16', u'<tns:echo xmlns:tns="tns"><tns:s>caf\xe9</tns:s></tns:echo>'.encode('utf-16')),
}
JSON_REQS = {'pt': ('/pt', 'n=3'), 'pt2': ('/pt', 'n=4'), 'seg': ('/seg', 'n=5'), 'pts': ('/pts', 'n=6'),
             'tag1': ('/tag', 'v=one'), 'tag2': ('/tag', 'v=two'),
             'reg': ('/reg', 'c.user=ann&c.secret=opensesame'), 'chk1': ('/chk', 'c.user=bob&c.secret=hunter2'),
             'chk2': ('/chk', 'c.user=eve&c.secret=12345')}


REQS = {
    'fp': '<tns:fp/>', 'fq': '<tns:fq/>', 'f': '<tns:f><tns:a>21</tns:a></tns:f>',
    'g': '<tns:g><tns:s>hey</tns:s></tns:g>', 'boom': '<tns:boom><tns:a>3</tns:a></tns:boom>',
    'invalid': '<tns:f><tns:a>-5</tns:a></tns:f>', 'wsdl': None,
}


def env_for(name):
    if name in XML_REQS or name in JX_REQS:
        ct, body = (XML_REQS if name in XML_REQS else JX_REQS)[name]
        return {'REQUEST_METHOD': 'POST', 'PATH_INFO': '/', 'QUERY_STRING': '', 'CONTENT_TYPE': ct,
                'wsgi.input': io.BytesIO(body), 'wsgi.url_scheme': 'http', 'SERVER_NAME': 'x', 'SERVER_PORT': '80',
                'CONTENT_LENGTH': str(len(body))}
    if name in JSON_REQS:
        path, qs = JSON_REQS[name]
        return {'REQUEST_METHOD': 'GET', 'PATH_INFO': path, 'QUERY_STRING': qs, 'wsgi.input': io.BytesIO(b''),
                'wsgi.url_scheme': 'http', 'SERVER_NAME': 'x', 'SERVER_PORT': '80'}
    if name in WSDLS:
        return {'REQUEST_METHOD': 'GET', 'PATH_INFO': '/', 'QUERY_STRING': 'wsdl', 'wsgi.input': io.BytesIO(b''),
                'wsgi.url_scheme': 'http', 'SERVER_NAME': 'x', 'SERVER_PORT': '80'}
    body = ('<e:Envelope xmlns:e="%s" xmlns:tns="tns"><e:Body>%s</e:Body></e:Envelope>' % (E, LX_REQS[name] if name in LX_REQS else REQS[name])).encode()
    return {'REQUEST_METHOD': 'POST', 'PATH_INFO': '/', 'QUERY_STRING': '', 'CONTENT_TYPE': 'text/xml',
            'wsgi.input': io.BytesIO(body), 'wsgi.url_scheme': 'http', 'SERVER_NAME': 'x', 'SERVER_PORT': '80',
            'CONTENT_LENGTH': str(len(body))}


def call(w, name):
    st = []
    body = b''.join(w(env_for(name), lambda s, h, e=None: st.append((s, h))))
    return st[0][0], body, tuple(sorted((str(k).lower(), str(v)) for k, v in st[0][1]))


def canon(body):
    """Response bytes -> a prefix-independent tree (QNames in xsi:type resolved in scope)."""
    from lxml import etree
    if body[:1] in (b'[', b'{'):
        return ('json', body)
    try:
        root = etree.fromstring(body)
    except Exception:
        return ('unparsable', body)

    def walk(e):
        attrs = []
        for k, v in sorted(e.attrib.items()):
            if k == '{%s}type' % XSI and ':' in v:
                # the prefix a lazily allocated namespace gets depends on the history of the
                # process, and whether it is bound in the document is C16's business
                v = v.split(':', 1)[1]
            attrs.append((k, v))
        return (e.tag, tuple(attrs), (e.text or '').strip(), tuple(walk(c) for c in e if isinstance(c.tag, str)))
    return walk(root)


def canon_doc(body):
    """WSDL/XSD bytes -> prefix-independent form: every attribute value that is a QName whose
    prefix is in scope is resolved; namespace declarations and prefixes are dropped; the
    children of an element are compared as a sorted multiset where the schema language does
    not give order a meaning (definitions, schema, the import list)."""
    from lxml import etree
    try:
        root = etree.fromstring(body)
    except Exception:
        return ('unparsable', body)
    UNORDERED = ('definitions', 'schema', 'types')

    def walk(e):
        attrs = []
        for k, v in sorted(e.attrib.items()):
            if ':' in v and not v.startswith(('http:', 'https:', 'urn:')):
                p, l = v.split(':', 1)
                if p in e.nsmap:
                    v = '{%s}%s' % (e.nsmap[p], l)
            attrs.append((k, v))
        kids = [walk(c) for c in e if isinstance(c.tag, str)]
        if etree.QName(e).localname in UNORDERED:
            kids.sort(key=repr)
        return (e.tag, tuple(attrs), (e.text or '').strip(), tuple(kids))
    return walk(root)


def instrument(w, sched):
    """Replace every lock reachable from the transport (by type) and the memoizers' locks."""
    from spyne.util.memo import memoize
    objs = [w, w.app, w.app.interface, w.app.in_protocol, w.app.out_protocol, w.doc]
    if getattr(w.doc, 'wsdl11', None) is not None:
        objs.append(w.doc.wsdl11)
    for o in objs:
        sc.replace_locks(o, sched)
    saved = []
    for m in memoize.registry:
        saved.append((m, m.lock))
        m.lock = sc.CoopRLock(sched, 'memo')
    return saved


def restore(saved):
    for m, l in saved:
        m.lock = l


def targets():
    import spyne.interface._base as IB, spyne.util.memo as M, spyne.util.cdict as CD
    import spyne.protocol._base as PB, spyne.model._base as MB, spyne.server.wsgi as W
    import spyne.interface.wsdl.wsdl11 as WS, spyne.context as CX
    import spyne.protocol.xml as PX
    import spyne.interface.xml_schema._base as XB
    return {PX.__file__: {'_XmlDocument__validate_lxml', '__validate_lxml', 'get_validation_schema', 'validate_body'},
            XB.__file__: {'build_validation_schema', 'build_interface_document', 'build_schema_nodes', 'get_interface_document'},
            IB.__file__: {'get_namespace_prefix'}, M.__file__: None, CD.__file__: None,
            PB.__file__: None, MB.__file__: {'get_namespace_prefix', 'get_type_name_ns'},
            W.__file__: {'handle_wsdl_request'}, WS.__file__: {'build_interface_document', 'get_interface_document'}}
