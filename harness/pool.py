"""Deterministic pools of concrete text for the identifiers the TLA+ modules use."""

MSG = {
    'plain': 'plain message',
    'uni': 'mésságe 日本語 \U0001d518 Ж',
    'markup': '<b>&amp; "q" \'a\' ]]> </b> & <',
    'spaces': 'two  spaces and a\ttab inside',
    'long': 'long-' + 'x' * 4000,
    # characters XML 1.0 cannot carry: the fault still arrives (XML family: with U+FFFD in their place)
    'ctl': 'form\x0cfeed, bell\x07 and \x01',
}
SEG = {'uu': 'ü', 'cc': 'c\x01c'}
import re as _re
_NOT_XML = _re.compile(u'[\x00-\x08\x0b\x0c\x0e-\x1f\ud800-\udfff\ufffe\uffff]')
LEAF = {'x': 'x', 'v': 'v', 'uni': MSG['uni'], 'zero': '0', 'false': 'False'}


def seg(s):
    return SEG.get(s, s)


def unseg(s):
    for k, v in SEG.items():
        if s == v or s == _NOT_XML.sub(u'\ufffd', v):          # (the XML family carries U+FFFD in place of what XML cannot carry)
            return k
    return s


def code_str(code):
    return '.'.join(seg(s) for s in code)


def code_ids(s):
    if not isinstance(s, str):
        return ['?']
    return [unseg(x) for x in s.split('.')]


def leaf_id(s):
    for k, v in LEAF.items():
        if s == v:
            return k
    return '?'


def detail_value(d):
    """detail id -> python dict (what user code passes as Fault(detail=...))"""
    return {'none': None,
            'flat': {'n': LEAF['x']},
            'nested': {'k': {'j': LEAF['v']}},
            'multi': {'k': {'j': LEAF['v']}, 'n': LEAF['x']},
            'unikey': {'n': LEAF['uni']},
            'falsy': {'k': {'j': False}, 'n': 0}}[d]


def detail_tree(v):
    """python dict / parsed tree -> the nested-tuple form of SpyneFault.DetailTree"""
    if v is None or v == {} or v == '':
        return ['none', []]
    if isinstance(v, dict):
        return ['map', [[str(k), detail_tree_inner(v[k])] for k in sorted(v, key=str)]]
    return ['s', [leaf_id(v if isinstance(v, str) else str(v))]]


def detail_tree_inner(v):
    if isinstance(v, dict):
        return ['map', [[str(k), detail_tree_inner(v[k])] for k in sorted(v, key=str)]]
    if isinstance(v, bytes):
        v = v.decode('utf8', 'replace')
    return ['s', [leaf_id(v if isinstance(v, str) else str(v))]]


def elt_to_dict(e):
    """lxml element children -> nested dict keyed by local name (text leaves)"""
    from lxml import etree
    out = {}
    for ch in e:
        if not isinstance(ch.tag, str):
            continue
        name = etree.QName(ch).localname
        if len(ch):
            out[name] = elt_to_dict(ch)
        else:
            out[name] = ch.text or ''
    return out
