"""Application generator: abstract type expressions -> fresh Spyne classes and services.

Type expressions (plain dicts, the shape the TLA+ modules export):
  {'k': 'prim', 'p': 'Integer', 'facets': {'ge': 5}, 'min': 0, 'max': 1, 'nillable': True}
  {'k': 'obj',  'name': 'C', 'ns': 'tns', 'base': <obj expr or None>, 'fields': [[name, texpr], ...]}
  {'k': 'arr',  'of': texpr}                      wrapped array
  {'k': 'attr', 'of': prim texpr}                 XmlAttribute
  {'k': 'enum', 'name': 'Color', 'values': ['red', 'green']}
'min' / 'max' ('inf') / 'nillable' may appear on any expression: occurrence of the member.

Fresh class objects are created for every application because namespace resolution and
customization mutate classes.
"""
import datetime, decimal
from .core import use_repo
use_repo()


def prim_class(name):
    import spyne
    from spyne.model import primitive
    return getattr(spyne, name, None) or getattr(primitive, name)


class Gen(object):
    def __init__(self, tns='tns'):
        self.tns = tns
        self.objs = {}

    def cls(self, t):
        """One class object per distinct type expression: the object that went into the service
        signature is the one consulted later (the interface names anonymous types in place)."""
        import json
        key = json.dumps(t, sort_keys=True, default=str)
        c = self.objs.get(key)
        if c is None:
            c = self.objs[key] = self._cls(t)
        return c

    def _cls(self, t):
        from spyne import ComplexModel, Array, XmlAttribute, Enum
        k = t['k']
        if k == 'prim':
            c = prim_class(t['p'])
            f = dict(t.get('facets') or {})
            for key in ('ge', 'gt', 'le', 'lt'):
                if key in f and isinstance(f[key], dict) and 'tm' in f[key]:       # {'tm': [h, m, s, us]} times of day
                    f[key] = datetime.time(*f[key]['tm'])
                elif key in f and isinstance(f[key], dict):          # {'dt': [...]} instants
                    f[key] = to_dt(f[key])
            if isinstance(f.get('as_timezone'), dict):          # {'fixed': minutes east of UTC}
                from pytz import FixedOffset
                f['as_timezone'] = FixedOffset(f['as_timezone']['fixed'])
            par = f.pop('__parent__', None)
            if par:                                   # a customization of a customization whose parent has validated a value already
                c = c(pattern=par['pattern'])
                assert c.validate_string(c, par['probe']) and c.validate_native(c, par['probe'])
            if f:
                c = c(**f)
        elif k == 'enum':
            key = ('enum', t['name'])
            if key not in self.objs:
                self.objs[key] = Enum(*t['values'], type_name=t['name'])
            c = self.objs[key]
        elif k == 'obj':
            key = ('obj', t['name'])
            if key not in self.objs:
                base = self.cls(t['base']) if t.get('base') else ComplexModel
                d = {'__namespace__': t.get('ns', self.tns),
                     '_type_info': [(n, self.cls(ft)) for n, ft in t['fields']]}
                if 'tname' in t:
                    d['__type_name__'] = t['tname']
                self.objs[key] = type(str(t['name']), (base,), d)
            c = self.objs[key]
        elif k == 'arr':
            c = Array(self.cls(t['of']))
        elif k == 'any':
            from spyne import AnyXml
            c = AnyXml
        elif k == 'attr':
            c = XmlAttribute(self.cls(t['of']), use=t['use']) if t.get('use') else XmlAttribute(self.cls(t['of']))
        else:
            raise ValueError(t)
        occ = {}
        if 'min' in t: occ['min_occurs'] = t['min']
        if 'max' in t: occ['max_occurs'] = decimal.Decimal('inf') if t['max'] == 'inf' else t['max']
        if 'nillable' in t: occ['nillable'] = t['nillable']
        if t.get('choice'): occ['xml_choice_group'] = t['choice']
        if 'default' in t: occ['default'] = t['default']
        if 'sub_name' in t: occ['sub_name'] = t['sub_name']
        if t.get('exc'): occ['exc'] = True
        if occ and k != 'attr':
            c = c.customize(**occ)
        return c


def to_dt(d):
    from pytz import FixedOffset
    y, mo, da, h, mi, s, us, off = d['dt']
    return datetime.datetime(y, mo, da, h, mi, s, us, None if off == 9999 else FixedOffset(off))


def make_service(gen, methods, seen):
    """methods: [{'name': 'f', 'args': [[name, texpr], ...], 'ret': texpr or None, 'returns': callable(args)->value}]
    Every invocation appends (name, args list) to `seen`."""
    from spyne import Service, srpc
    d = {}
    for m in methods:
        argt = [gen.cls(t) for _, t in m['args']]
        names = [n for n, _ in m['args']]
        kw = {}
        if m.get('ret') is not None:
            kw['_returns'] = gen.cls(m['ret']) if isinstance(m['ret'], dict) else tuple(gen.cls(r) for r in m['ret'])
        kw.update(m.get('kw', {}))
        ret = m.get('returns')
        if m.get('in_header') or m.get('out_header'):
            # a method with SOAP headers needs its context: @rpc, first parameter ctx
            from spyne import rpc
            if m.get('in_header'):
                kw['_in_header'] = tuple(gen.cls(t) for t in m['in_header'])
            if m.get('out_header'):
                kw['_out_header'] = tuple(gen.cls(t) for t in m['out_header'])

            def hbody(ctx, args, m=m, ret=ret):
                seen.append((m['name'], list(args), ctx.in_header))
                oh = m.get('out_header_values')
                if oh is not None:
                    ctx.out_header = oh()
                return ret(list(args)) if ret else None
            src = 'def %s(ctx, %s):\n    return body(ctx, [%s])\n' % (m['name'], ', '.join(names), ', '.join(names))
            ns = {'body': hbody}
            exec(src, ns)
            d[m['name']] = rpc(*argt, **kw)(ns[m['name']])
            continue

        def body(args, m=m, ret=ret):
            seen.append((m['name'], list(args)))
            return ret(list(args)) if ret else None
        src = 'def %s(%s):\n    return body([%s])\n' % (m['name'], ', '.join(names), ', '.join(names))
        ns = {'body': body}
        exec(src, ns)
        d[m['name']] = srpc(*argt, **kw)(ns[m['name']])
    return type('GenService', (Service,), d)
