"""Request encoders written against the PUBLISHED conventions (never with Spyne's own
serializers): a logical call (method, [(name, type expr, value)]) -> the request of each
protocol family, and `send()` to push it through a WsgiApplication.

Values: Python natives; list for arrays / repeated members; dict for objects (by field
name); None = member absent; NIL = explicit nil; Raw(text) = this exact leaf text (used for
lexically ill-formed leaves)."""
import base64, datetime, decimal, io, json, uuid
from urllib.parse import quote

E11 = 'http://schemas.xmlsoap.org/soap/envelope/'
E12 = 'http://www.w3.org/2003/05/soap-envelope'
XSI = 'http://www.w3.org/2001/XMLSchema-instance'
FAMILIES = ('xml', 'soap11', 'soap12', 'json', 'yaml', 'msgpack', 'http')


class _Nil(object):
    def __repr__(self): return 'NIL'


NIL = _Nil()


class Sparse(list):
    """A list whose items carry explicit wire indexes (HttpRpc a[i].x notation): [(index, value), ...];
    every other family sees the values in index order."""
    def values(self):
        return [v for _, v in sorted(self, key=lambda p: p[0])]


class Raw(object):
    def __init__(self, text): self.text = text
    def __repr__(self): return 'Raw(%r)' % self.text
    def __eq__(self, o): return isinstance(o, Raw) and o.text == self.text
    def __hash__(self): return hash(self.text)


class XmlTree(object):
    """the value of an AnyXml member: one of the named trees"""
    def __init__(self, name): self.name = name
    def __repr__(self): return 'XmlTree(%r)' % self.name


# (the prefix of the type markers - xs - is used by nothing else in any document: only its binding gives the markers a meaning)
TREES = {
    'plain': '<note>hi</note>',
    'typed_int': '<bag:v xmlns:bag="urn:bag" xmlns:xs="http://www.w3.org/2001/XMLSchema" xmlns:xsi="http://www.w3.org/2001/XMLSchema-instance" xsi:type="xs:int">5</bag:v>',
'typed_xsd': '<bag:v xmlns:bag="urn:bag" xmlns:xsd="http://www.w3.org/2001/XMLSchema" xmlns:xsi="http://www.w3.org/2001/XMLSchema-instance" xsi:type="xsd:decimal">5</bag:v>',
    'typed_bag': '<bag:props xmlns:bag="urn:bag" xmlns:xs="http://www.w3.org/2001/XMLSchema" xmlns:xsi="http://www.w3.org/2001/XMLSchema-instance">'
                 '<bag:v xsi:type="xs:string">a</bag:v><bag:v xsi:type="xs:int">5</bag:v></bag:props>',
}


def xml_escape(s):
    return s.replace('&', '&amp;').replace('<', '&lt;').replace('>', '&gt;')


def duration_text(v):
    neg = v < datetime.timedelta(0)
    a = -v if neg else v
    s = 'P%dDT%d' % (a.days, a.seconds)
    if a.microseconds:
        s += ('.%06d' % a.microseconds).rstrip('0')
    return ('-' if neg else '') + s + 'S'


def lex(v, binary='base64'):
    """canonical XSD literal of a native value"""
    if isinstance(v, Raw): return v.text
    if isinstance(v, bool): return 'true' if v else 'false'
    if isinstance(v, int): return str(v)
    if isinstance(v, decimal.Decimal): return format(v, 'f')
    if isinstance(v, float):
        if v != v: return 'NaN'
        if v in (float('inf'), float('-inf')): return 'INF' if v > 0 else '-INF'
        return repr(v)
    if isinstance(v, datetime.datetime): return v.isoformat()
    if isinstance(v, datetime.date): return v.isoformat()
    if isinstance(v, datetime.time): return v.isoformat()
    if isinstance(v, datetime.timedelta): return duration_text(v)
    if isinstance(v, uuid.UUID): return str(v)
    if isinstance(v, bytes):
        return base64.b64encode(v).decode() if binary == 'base64' else v.hex()
    if isinstance(v, str): return v
    raise TypeError(v)


def occurs_max(t):
    m = t.get('max', 1)
    return float('inf') if m == 'inf' else m


# ------------------------------------------------------------------------- XML
NOISE = [None]
NOBODY = [False]      # True: the dict documents spell 'no arguments' as {method: null}
HEADERS = [None]      # [(class name, type expr, value), ...] written into the SOAP Header


def _noisy_text(s):
    """the same character data, interrupted by a comment (XML comments do not change what a document denotes)"""
    if NOISE[0] == 'comments' and len(s) >= 2:
        return s[:1] + '<!-- c -->' + s[1:]
    return s


def _between():
    return '<!-- between -->\n  ' if NOISE[0] == 'comments' else ''


def xml_member(gen, name, t, v, ns, pref):
    """-> xml text of member `name` (possibly several elements) in namespace prefix pref[ns]"""
    if v is None:
        return ''
    q = '%s:%s' % (pref(ns), name)
    if t['k'] != 'arr' and isinstance(v, list):
        t1 = dict(t, max=1)
        return ''.join(xml_member(gen, name, t1, x, ns, pref) for x in v)
    if v is NIL:
        return '<%s xsi:nil="true"/>' % q
    k = t['k']
    if k == 'any':
        return '<%s>%s</%s>' % (q, TREES[v.name], q)
    if k in ('prim', 'enum'):
        # (xsi:nil="false" says what is the case anyway: the element is NOT nil)
        notnil = ' xsi:nil="false"' if NOISE[0] == 'nilfalse' else ''
        return '%s<%s%s>%s</%s>' % (_between(), q, notnil, _noisy_text(xml_escape(lex(v, binary=(t.get('facets') or {}).get('encoding', 'base64')))), q)
    if k == 'obj':
        xt = ''
        if isinstance(v, dict) and '__rt__' in v:
            # an instance of a subclass where its base is declared: the type marker, then the subclass' fields
            t = v['__rt__']
            # (the marker's prefix is bound on the element itself, always with the same literal: what it denotes is decided by
            #  the binding in scope at that element, never by the text of the attribute)
            pref(t.get('ns', gen.tns))
            # (the literal is one a server is likely to use for a namespace of its OWN choosing: the document's binding decides)
            xt = ' xmlns:s0="%s" xsi:type="s0:%s"' % (t.get('ns', gen.tns), t.get('tname', t['name']))
        return '%s<%s%s%s>%s</%s>' % (_between(), q, xt, xml_attrs(t, v), xml_fields(gen, t, v, pref), q)
    if k == 'arr':
        it = t['of']
        # items are named after the member type; the name Spyne chose is read off the array class
        (iname, _icls), = gen.cls(t)._type_info.items()
        ins = it.get('ns', gen.tns) if it['k'] == 'obj' else ns
        if it['k'] == 'prim' and it['p'] == 'Uuid':
            ins = 'http://spyne.io/schema'          # a leaf type with a namespace of its own
        # (an item that is None keeps its place: it is written as a nil item)
        inner = ''.join(xml_member(gen, iname, dict(it, max=1), NIL if x is None else x, ins, pref) for x in (v.values() if isinstance(v, Sparse) else v))
        return '<%s>%s</%s>' % (q, inner, q)
    raise ValueError(t)


def all_fields(t):
    return (all_fields(t['base']) if t.get('base') else []) + list(t['fields'])


def xml_attrs(t, v):
    out = ''
    for n, ft in all_fields(t):
        if ft['k'] == 'attr' and v.get(n) is not None:
            out += ' %s="%s"' % (n, xml_escape(lex(v[n])).replace('"', '&quot;'))
    return out


def xml_fields(gen, t, v, pref):
    out = ''
    for n, ft in all_fields(t):
        if ft['k'] != 'attr':
            # a field lives in the namespace of the class that declares it
            # (a member travels under its sub_name when it declares one)
            out += xml_member(gen, ft.get('sub_name', n), ft, v.get(n), owner_ns(t, n, gen), pref)
    return out


def owner_ns(t, n, gen):
    if t.get('base') and any(n == fn for fn, _ in all_fields(t['base'])):
        return owner_ns(t['base'], n, gen)
    return t.get('ns', gen.tns)


def xml_body(gen, method, args, method_ns=None, style='wrapped'):
    nsmap = {}

    def pref(ns):
        if ns not in nsmap:
            nsmap[ns] = 'tns' if ns == gen.tns else 'n%d' % len(nsmap)
        return nsmap[ns]
    pref(gen.tns)
    if style == 'bare':
        # the single argument IS the message: its content sits directly under the method element
        (n, t, v), = args
        one = xml_member(gen, method, dict(t, max=1), v if v is not None else NIL, gen.tns, pref)
        decl = ''.join(' xmlns:%s="%s"' % (p, ns) for ns, p in nsmap.items()) + ' xmlns:xsi="%s"' % XSI
        return one.replace('<tns:%s' % method, '<tns:%s%s' % (method, decl), 1)
    inner = ''.join(xml_member(gen, n, t, v, gen.tns, pref) for n, t, v in args)
    decl = ''.join(' xmlns:%s="%s"' % (p, ns) for ns, p in nsmap.items()) + ' xmlns:xsi="%s"' % XSI
    return '<tns:%s%s>%s</tns:%s>' % (method, decl, inner, method)


# ------------------------------------------------------------- dict documents
def dict_value(t, v, fam):
    if v is None or v is NIL:
        return None
    if t['k'] != 'arr' and isinstance(v, list):
        if occurs_max(t) <= 1 and len(v) == 1:
            return dict_value(t, v[0], fam)      # a single occurrence of a non-repeated member is a scalar
        return [dict_value(dict(t, max=1), x, fam) for x in v]
    k = t['k']
    if k == 'attr':
        return dict_value(t['of'], v, fam)
    if k in ('prim', 'enum'):
        if isinstance(v, Raw): return v.text
        if fam == 'msgpack' and isinstance(v, int) and not isinstance(v, bool) and not (-(1 << 63) <= v < (1 << 64)):
            return str(v)          # outside msgpack's integer range: travels as text
        if isinstance(v, (bool, int, float, str)): return v
        if isinstance(v, bytes):
            return v if fam == 'msgpack' else base64.b64encode(v).decode()
        return lex(v)          # decimals, dates, uuids, durations travel as strings
    if k == 'obj':
        out = {}
        for n, ft in all_fields(t):
            x = v.get(n)
            if x is NIL:
                out[ft.get('sub_name', n)] = None
            elif x is not None:
                out[ft.get('sub_name', n)] = dict_value(ft, x, fam)
        return out
    if k == 'arr':
        return [dict_value(dict(t['of'], max=1), x, fam) for x in (v.values() if isinstance(v, Sparse) else v)]
    raise ValueError(t)


def dict_body(method, args, fam):
    d = {}
    for n, t, v in args:
        if v is NIL:
            d[n] = None
        elif v is not None:
            d[n] = dict_value(t, v, fam)
    if NOBODY[0] and not d:
        return {method: None}
    return {method: d}


# ------------------------------------------------------------------ flat keys
def flat_pairs(prefix, t, v, out):
    if v is None or v is NIL:
        return
    if t['k'] != 'arr' and isinstance(v, list):
        for i, x in enumerate(v):
            if t['k'] == 'obj':
                flat_pairs('%s[%d]' % (prefix, i), dict(t, max=1), x, out)
            else:
                flat_pairs(prefix, dict(t, max=1), x, out)
        return
    k = t['k']
    if k == 'attr':
        return flat_pairs(prefix, t['of'], v, out)
    if k in ('prim', 'enum'):
        out.append((prefix, lex(v)))
    elif k == 'obj':
        for n, ft in all_fields(t):
            flat_pairs('%s.%s' % (prefix, ft.get('sub_name', n)), ft, v.get(n), out)
    elif k == 'arr':
        it = t['of']
        for i, x in (list(v) if isinstance(v, Sparse) else enumerate(v)):
            if it['k'] == 'obj':
                flat_pairs('%s[%d]' % (prefix, i), it, x, out)
            else:
                flat_pairs(prefix, dict(it, max=1), x, out)


def flat_query(args):
    out = []
    for n, t, v in args:
        flat_pairs(n, t, v, out)
    return '&'.join('%s=%s' % (quote(k, safe='[].'), quote(x, safe='')) for k, x in out)


# --------------------------------------------------------------------- request
def request(gen, fam, method, args, style='wrapped', noise=None, headers=None):
    """-> (environ additions, body bytes).  noise='comments': the same document with XML comments inside
    leaf values, between members and in front of the message element."""
    NOISE[0] = noise
    HEADERS[0] = headers
    try:
        return _request(gen, fam, method, args, style)
    finally:
        NOISE[0] = None


def _request(gen, fam, method, args, style='wrapped'):
    env = {'REQUEST_METHOD': 'POST', 'PATH_INFO': '/', 'QUERY_STRING': ''}
    if fam == 'xml':
        body = xml_body(gen, method, args, style=style).encode('utf8'); env['CONTENT_TYPE'] = 'text/xml; charset=utf-8'
    elif fam in ('soap11', 'soap12'):
        e = E11 if fam == 'soap11' else E12
        hdr = ''
        if HEADERS[0]:
            hm = {}

            def hpref(ns):
                if ns not in hm:
                    hm[ns] = 'h%d' % len(hm)
                return hm[ns]
            inner = ''.join(xml_member(gen, n, t, v, t.get('ns', gen.tns), hpref) for n, t, v in HEADERS[0] if v is not None)
            if inner:
                hdr = '<e:Header%s xmlns:xsi="%s">%s</e:Header>' % (''.join(' xmlns:%s="%s"' % (p, ns) for ns, p in hm.items()), XSI, inner)
        body = ('<e:Envelope xmlns:e="%s">%s<e:Body>%s%s</e:Body></e:Envelope>' % (
            e, hdr, '<!-- first child of Body -->' if NOISE[0] == 'comments' else '', xml_body(gen, method, args, style=style))).encode('utf8')
        env['CONTENT_TYPE'] = 'text/xml; charset=utf-8' if fam == 'soap11' else 'application/soap+xml; charset=utf-8'
    elif fam == 'jsonrpc':
        body = json.dumps({'ver': 1, 'body': dict_body(method, args, 'json')}).encode('utf8'); env['CONTENT_TYPE'] = 'application/json'
    elif fam == 'json':
        body = json.dumps(dict_body(method, args, fam)).encode('utf8'); env['CONTENT_TYPE'] = 'application/json'
    elif fam == 'yaml':
        import yaml
        body = yaml.safe_dump(dict_body(method, args, fam), allow_unicode=True).encode('utf8'); env['CONTENT_TYPE'] = 'text/yaml'
    elif fam in ('msgpack', 'msgpack_bin'):
        import msgpack
        d = dict_body(method, args, 'msgpack')
        if fam == 'msgpack_bin':
            def as_bin(x):          # every text LEAF as bin (keys stay text)
                if isinstance(x, str): return x.encode('utf8')
                if isinstance(x, dict): return {k: as_bin(v) for k, v in x.items()}
                if isinstance(x, list): return [as_bin(v) for v in x]
                return x
            d = as_bin(d)
        body = msgpack.packb({method.encode('utf8'): d[method]}, use_bin_type=True); env['CONTENT_TYPE'] = 'application/x-msgpack'
    elif fam == 'http':
        body = b''
        env.update(REQUEST_METHOD='GET', PATH_INFO='/' + method, QUERY_STRING=flat_query(args))
    else:
        raise ValueError(fam)
    if NOISE[0] == 'straddle' and fam in ('xml', 'soap11', 'soap12'):
        # a comment in front of the document whose last character is a two-byte one lying ACROSS the transport's
        # first block boundary (8192): how the body is cut into blocks is no property of the document
        body = ('<!--' + 'x' * (8191 - 4) + u'\u00e9' + '-->').encode('utf8') + body
        assert body[8191] >= 0xc0 and 0x80 <= body[8192] < 0xc0
    return env, body


def protocols(fam, validator='soft', **kw):
    from spyne.protocol.xml import XmlDocument
    from spyne.protocol.soap import Soap11, Soap12
    from spyne.protocol.json import JsonDocument
    from spyne.protocol.yaml import YamlDocument
    from spyne.protocol.msgpack import MessagePackDocument
    from spyne.protocol.http import HttpRpc
    if fam == 'jsonrpc':
        from spyne.protocol.json import JsonRpc
        return JsonRpc('spyne', validator=validator, **kw), JsonDocument()
    P = {'xml': XmlDocument, 'soap11': Soap11, 'soap12': Soap12, 'json': JsonDocument, 'yaml': YamlDocument,
         'msgpack': MessagePackDocument, 'msgpack_bin': MessagePackDocument, 'http': HttpRpc}[fam]
    out = JsonDocument if fam == 'http' else P
    return P(validator=validator, **kw), out()


def send(wsgi, env, body):
    e = {'wsgi.url_scheme': 'http', 'SERVER_NAME': 'x', 'SERVER_PORT': '80', 'wsgi.input': io.BytesIO(body),
         'CONTENT_LENGTH': str(len(body))}
    e.update(env)
    st = []
    try:
        out = b''.join(wsgi(e, lambda s, h, x=None: st.append((s, h))))
    except Exception as ex:
        return {'status': -1, 'body': b'', 'escape': '%s: %s' % (type(ex).__name__, ex), 'headers': []}
    return {'status': int(st[0][0].split()[0]), 'body': out, 'escape': None, 'headers': st[0][1]}


def fault_code(fam, res):
    """-> faultcode string of a fault response, or None"""
    body = res['body']
    try:
        if fam in ('xml', 'soap11', 'soap12'):
            from lxml import etree
            root = etree.fromstring(body)
            fe = [e for e in root.iter() if isinstance(e.tag, str) and etree.QName(e).localname == 'Fault']
            if not fe:
                return None
            kids = {etree.QName(c).localname: c for c in fe[0] if isinstance(c.tag, str)}
            if 'faultcode' in kids:
                c = kids['faultcode'].text
                return c.split(':', 1)[1] if ':' in c else c
            vals = [e.text for e in kids['Code'].iter() if etree.QName(e).localname == 'Value']
            head = {'Sender': 'Client', 'Receiver': 'Server'}.get(vals[0].split(':')[-1], vals[0])
            return '.'.join([head] + vals[1:])
        if fam in ('json', 'http', 'jsonrpc'):
            d = json.loads(body.decode('utf8'))
        elif fam == 'yaml':
            import yaml
            d = yaml.safe_load(body.decode('utf8'))
        else:
            import msgpack
            d = msgpack.unpackb(body, raw=False, strict_map_key=False)
        if isinstance(d, dict) and 'faultcode' in d:
            return d['faultcode']
    except Exception:
        return None
    return None
