"""zeep (the independent, schema-driven SOAP toolkit available offline) over an in-memory transport."""
import io
from .core import use_repo
use_repo()


def make_client(wsgi, url='http://x/'):
    import zeep
    from zeep.transports import Transport

    class Resp(object):
        def __init__(self, status, body, headers):
            self.status_code, self.content, self.headers = status, body, headers
            self.encoding = 'utf-8'

    class Mem(Transport):
        def __init__(self):
            super(Mem, self).__init__()
            self.last = None

        def _call(self, method, path, qs, body, ctype):
            env = {'REQUEST_METHOD': method, 'PATH_INFO': path, 'QUERY_STRING': qs, 'wsgi.input': io.BytesIO(body),
                   'CONTENT_LENGTH': str(len(body)), 'CONTENT_TYPE': ctype, 'wsgi.url_scheme': 'http',
                   'SERVER_NAME': 'x', 'SERVER_PORT': '80'}
            st = []
            out = b''.join(wsgi(env, lambda s, h, e=None: st.append((s, h))))
            return int(st[0][0].split()[0]), out, dict(st[0][1])

        def load(self, url):
            if url.startswith('http://x/'):
                return self._call('GET', '/', 'wsdl', b'', 'text/xml')[1]
            raise IOError('offline: %s' % url)

        def post(self, address, message, headers):
            st, out, h = self._call('POST', '/', '', message, headers.get('Content-Type', 'text/xml'))
            self.last = (message, out)
            return Resp(st, out, h)

        def get(self, address, params, headers):
            st, out, h = self._call('GET', '/', 'wsdl', b'', 'text/xml')
            return Resp(st, out, h)
    t = Mem()
    c = zeep.Client('http://x/?wsdl', transport=t)
    return c, t


def to_plain(x):
    """zeep value -> plain python (dicts / lists / natives)"""
    import zeep.helpers
    return zeep.helpers.serialize_object(x, dict)
