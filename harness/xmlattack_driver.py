"""C17 driver: runs INSIDE a child process traced by strace.  Reads the exported attacks and scripts, sends each to a real
server, prints one observation per line.  Before every item it stats the nonexistent path /C17MARK/<n> so that the parent can
attribute file opens and connects in the syscall trace to the item."""
import io, json, os, resource, socket, sys, threading, time
from .core import use_repo
use_repo()

E11 = 'http://schemas.xmlsoap.org/soap/envelope/'
E12 = 'http://www.w3.org/2003/05/soap-envelope'
REPL = 'EXPANDED-INTERNAL-ENTITY-9c1e'


def mark(n):
    try:
        os.stat('/C17MARK/%d' % n)
    except OSError:
        pass


class Listener(threading.Thread):
    daemon = True

    def __init__(self):
        threading.Thread.__init__(self)
        self.sock = socket.socket()
        self.sock.bind(('127.0.0.1', 0))
        self.sock.listen(16)
        self.port = self.sock.getsockname()[1]
        self.hits = 0

    def run(self):
        while True:
            c, _ = self.sock.accept()
            self.hits += 1
            try:
                c.sendall(b'HTTP/1.0 200 OK\r\nContent-Type: text/plain\r\n\r\nNETCANARY-5b2d')
            finally:
                c.close()


OPTS = {'none': {}, 'blank': dict(remove_blank_text=True), 'blank_nodtd': dict(remove_blank_text=True, load_dtd=False),
        'nsclean': dict(ns_clean=True, compact=False), 'keep_pis_cdata': dict(remove_pis=False, strip_cdata=False),
        'poly_nocleanup': dict(polymorphic=True, cleanup_namespaces=False, pretty_print=True)}


def build_app(prot, relaxed=False, validator=None, opts='none'):
    from spyne import Application, Service, srpc, ComplexModel, Unicode, Integer, Array, XmlAttribute, AnyXml, AnyDict
    from lxml import etree as _et
    from spyne.protocol.xml import XmlDocument
    from spyne.protocol.soap import Soap11, Soap12
    from spyne.server.wsgi import WsgiApplication
    seen = []
    nodes = [0]

    class C(ComplexModel):
        __namespace__ = 'tns'
        _type_info = [('t', Unicode), ('a', XmlAttribute(Unicode))]

    class Svc(Service):
        @srpc(Unicode, Integer, C, Array(Unicode), AnyXml, AnyDict, _returns=Unicode)
        def f(s, n, c, xs, ax, ad):
            axs = None if ax is None else (_et.tostring(ax).decode('utf8', 'replace') if hasattr(ax, 'tag') else repr(ax))
            seen.append([s, n, getattr(c, 't', None) if c is not None else None, getattr(c, 'a', None) if c is not None else None, list(xs or []), axs, None if ad is None else repr(ad)])
            return u'|'.join(str(x) for x in seen[-1])
    P = {'xml': XmlDocument, 'soap11': Soap11, 'soap12': Soap12}[prot]
    kw = dict(resolve_entities=True, load_dtd=True, attribute_defaults=True, no_network=False, huge_tree=True) if relaxed else {}
    if validator:
        kw['validator'] = validator
    kw.update(OPTS[opts])
    app = Application([Svc], 'tns', in_protocol=P(**kw), out_protocol=P())

    def count_nodes(ctx):
        # the request document as deserialization gets it (SOAP: after the references were resolved)
        try:
            nodes[0] = sum(1 for _ in ctx.in_body_doc.iter())
        except Exception:
            nodes[0] = -1
    app.event_manager.add_listener('method_call', count_nodes)
    seen_nodes = nodes
    w = WsgiApplication(app)
    w.c17_nodes = nodes
    return app, w, seen


def document(a, canary, dtd, port):
    """-> the request body of attack a (a valid request of f with the payload at a['pos'])"""
    k, pos = a['kind'], a['pos']
    prolog, payload, attr_payload, deep = '', 'x', 'v', ''
    ent = '&x;'
    if k == 'ext_general_file':
        prolog = '<!DOCTYPE f [<!ENTITY x SYSTEM "file://%s">]>' % canary
    elif k == 'ext_general_http':
        prolog = '<!DOCTYPE f [<!ENTITY x SYSTEM "http://127.0.0.1:%d/x">]>' % port
    elif k == 'ext_general_ftp':
        prolog = '<!DOCTYPE f [<!ENTITY x SYSTEM "ftp://127.0.0.1:%d/x">]>' % port
    elif k == 'ext_param_file':
        prolog = '<!DOCTYPE f [<!ENTITY %% p SYSTEM "file://%s"> %%p;]>' % dtd
        ent = '&leak;'
    elif k == 'ext_param_http':
        prolog = '<!DOCTYPE f [<!ENTITY %% p SYSTEM "http://127.0.0.1:%d/p.dtd"> %%p;]>' % port
        ent = 'x'
    elif k == 'ext_dtd_file':
        prolog = '<!DOCTYPE f SYSTEM "file://%s">' % dtd
        ent = '&leak;'
    elif k == 'ext_dtd_http':
        prolog = '<!DOCTYPE f SYSTEM "http://127.0.0.1:%d/x.dtd">' % port
        ent = 'x'
    elif k == 'xinclude_file':
        ent = '<xi:include xmlns:xi="http://www.w3.org/2001/XInclude" href="file://%s" parse="text"/>' % canary
    elif k == 'internal_entity':
        prolog = '<!DOCTYPE f [<!ENTITY x "%s">]>' % REPL
    elif k.startswith('laughs_'):
        fan, depth = [int(x) for x in k[7:].split('x')]
        decl = ['<!ENTITY e0 "%s">' % REPL]
        for d in range(1, depth + 1):
            decl.append('<!ENTITY e%d "%s">' % (d, ('&e%d;' % (d - 1)) * fan))
        prolog = '<!DOCTYPE f [%s]>' % ''.join(decl)
        ent = '&e%d;' % depth
    elif k.startswith('entity_depth_'):
        n = int(k[13:])
        decl = ['<!ENTITY e0 "%s">' % REPL] + ['<!ENTITY e%d "&e%d;">' % (d, d - 1) for d in range(1, n + 1)]
        prolog = '<!DOCTYPE f [%s]>' % ''.join(decl)
        ent = '&e%d;' % n
    elif k.startswith('quadratic_'):
        n = int(k[10:-1]) * 1000
        prolog = '<!DOCTYPE f [<!ENTITY x "%s">]>' % (REPL + 'A' * 5000)
        ent = '&x;' * (n // 5)
    elif k.startswith('nest_'):
        n = int(k[5:])
        ent = '<d>' * n + 'deep' + '</d>' * n
    elif k.startswith('href_fanout_'):
        fan, depth = [int(x) for x in k[12:].split('x')]
        ent = ''
    elif k.startswith('attrs_'):
        ent = 'v'
    extra_attrs = ''.join(' a%d="1"' % i for i in range(int(k[6:]))) if k.startswith('attrs_') else ''
    in_attr = k not in ('xinclude_file',) and not k.startswith('nest_')
    ctrl = '\x0b' if a.get('framing') == 'ctrl_char' else ''
    s = ctrl + 'a' + (ent if pos == 'text_unicode' else '') + 'b'
    n = ('5' + (ent if pos == 'text_integer' and not k.startswith('nest_') and k != 'xinclude_file' else '')) if pos == 'text_integer' else '5'
    if pos == 'text_integer' and (k.startswith('nest_') or k == 'xinclude_file'):
        n = '5' + ent
    t = 'c' + (ent if pos == 'text_nested' else '') + 'd'
    av = 'e' + ((ent if in_attr else 'x') if pos == 'attr_value' else '') + 'f'
    item = 'g' + (ent if pos == 'text_item' else '') + 'h'
    body = ('<tns:f xmlns:tns="tns"><tns:s>%s</tns:s><tns:n>%s</tns:n><tns:c a="%s"%s><tns:t>%s</tns:t></tns:c>'
            '<tns:xs><tns:string>%s</tns:string></tns:xs></tns:f>' % (s, n, av, extra_attrs, t, item))
    if pos == 'anyxml_text':
        # a whole document (its own DOCTYPE included) travels as the escaped TEXT of the AnyXml argument
        inner = prolog.replace('DOCTYPE f', 'DOCTYPE d') + '<d>' + ent + '</d>'
        esc = inner.replace('&', '&amp;').replace('<', '&lt;').replace('>', '&gt;')
        body = ('<tns:f xmlns:tns="tns"><tns:s>ab</tns:s><tns:n>5</tns:n><tns:c a="ef"><tns:t>cd</tns:t></tns:c>'
                '<tns:xs><tns:string>gh</tns:string></tns:xs><tns:ax>%s</tns:ax></tns:f>' % esc)
        prolog = ''
    if pos == 'anydict_leaf':
        body = ('<tns:f xmlns:tns="tns"><tns:s>ab</tns:s><tns:n>5</tns:n><tns:c a="ef"><tns:t>cd</tns:t></tns:c>'
                '<tns:xs><tns:string>gh</tns:string></tns:xs><tns:ad><name>Mr. %s jr.</name><title>Dr. %s</title></tns:ad></tns:f>' % (ent, ent))
    if k.startswith('href_fanout_'):
        # the member c is a reference to r0; r_i holds `fan` references to r_(i+1); the last one holds the text
        body = ('<tns:f xmlns:tns="tns"><tns:s>ab</tns:s><tns:n>5</tns:n><tns:c href="#r0"/>'
                '<tns:xs><tns:string>gh</tns:string></tns:xs></tns:f>')
        for i in range(depth):
            body += '<r%d id="r%d">%s</r%d>' % (i, i, ('<tns:t xmlns:tns="tns" href="#r%d"/>' % (i + 1)) * fan, i)
        body += '<r%d id="r%d">leaf</r%d>' % (depth, depth, depth)
    return prolog, body


def frame(a, prolog, body):
    prot = a['prot']
    if prot != 'xml':
        env = E11 if prot == 'soap11' else E12
        body = '<e:Envelope xmlns:e="%s"><e:Body>%s</e:Body></e:Envelope>' % (env, body)
    decl = "<?xml version='1.0' encoding='utf-8'?>" if a['framing'] == 'charset_decl' else ''
    doc = (decl + prolog + body).encode('utf8')
    ct = 'application/soap+xml' if prot == 'soap12' else 'text/xml'
    if a['framing'] == 'charset_decl':
        ct += '; charset=utf-8'
    if a['framing'] in ('multipart', 'multipart_att'):
        b = 'MIMEBOUNDARY42'
        att = b''
        if a['framing'] == 'multipart_att':
            att = ('\r\n--%s\r\nContent-Type: application/octet-stream\r\nContent-Transfer-Encoding: base64\r\nContent-ID: <att1>\r\n\r\nAAEC' % b).encode()
        doc = (('--%s\r\nContent-Type: %s; charset=utf-8\r\nContent-Transfer-Encoding: 8bit\r\nContent-ID: <root>\r\n\r\n' % (b, ct)).encode() + doc
               + att + ('\r\n--%s--\r\n' % b).encode())
        ct = 'multipart/related; boundary="%s"; type="%s"; start="<root>"' % (b, ct)
    return doc, ct


def send(a, app, wsgi, seen, doc, ct):
    del seen[:]
    out = {'called': False, 'fault': False, 'client': False, 'escape': False, 'text': '', 'err': ''}
    t0 = time.time()
    r0 = resource.getrusage(resource.RUSAGE_SELF).ru_maxrss
    try:
        if a['transport'] == 'wsgi':
            st = []
            env = {'REQUEST_METHOD': 'POST', 'PATH_INFO': '/', 'QUERY_STRING': '', 'CONTENT_TYPE': ct, 'CONTENT_LENGTH': str(len(doc)),
                   'wsgi.input': io.BytesIO(doc), 'wsgi.url_scheme': 'http', 'SERVER_NAME': 'x', 'SERVER_PORT': '80'}
            body = b''.join(wsgi(env, lambda s, h, e=None: st.append(s)))
            out['text'] = body.decode('utf8', 'replace')
            out['fault'] = not st[0].startswith('200')
        else:
            from spyne.server import ServerBase
            from spyne import MethodContext
            server = ServerBase(app)
            ctx = MethodContext(server, MethodContext.SERVER)
            ctx.in_string = [doc]
            ctxs = server.generate_contexts(ctx, 'utf-8' if a['framing'] == 'charset_decl' else None)
            ctx = ctxs[0]
            if ctx.in_error is None:
                server.get_in_object(ctx)
            if ctx.in_error is None:
                server.get_out_object(ctx)
            server.get_out_string(ctx)
            out['text'] = b''.join(ctx.out_string).decode('utf8', 'replace')
            err = ctx.in_error or ctx.out_error
            out['fault'] = err is not None
    except BaseException as e:
        out['escape'] = True
        out['err'] = '%s: %s' % (type(e).__name__, str(e)[:200])
    out['seconds10'] = int((time.time() - t0) * 10)
    out['mb'] = max(0, (resource.getrusage(resource.RUSAGE_SELF).ru_maxrss - r0) // 1024)
    out['called'] = len(seen) > 0
    out['nodes'] = wsgi.c17_nodes[0] if out['called'] else 0
    out['reqnodes'] = doc.count(b'</') + doc.count(b'/>')
    out['client'] = 'Client' in out['text'] or 'Sender' in out['text']
    delivered = json.dumps(seen[0]) if seen else ''
    out['delivered'] = delivered[:300]
    return out, delivered


def main():
    work, cases = sys.argv[1], sys.argv[2]
    d = json.load(open(cases))
    canary = os.path.join(work, 'canary_secret.txt')
    dtd = os.path.join(work, 'canary.dtd')
    open(canary, 'w').write('FILECANARY-7f3a')
    open(dtd, 'w').write('<!ENTITY leak "DTDCANARY-2e8c">')
    lst = Listener()
    lst.start()
    apps = {}
    n = 0
    res = []
    for a in d['attacks']:
        n += 1
        if a['prot'] == 'schema':
            prolog, _ = document(a, canary, dtd, lst.port)
            ent = '&leak;' if 'dtd' in a['kind'] or 'param' in a['kind'] else '&x;'
            doc = (prolog.replace('DOCTYPE f', 'DOCTYPE xs:schema') + '<xs:schema xmlns:xs="http://www.w3.org/2001/XMLSchema" targetNamespace="urn:s">'
                   '<xs:simpleType name="T"><xs:restriction base="xs:string"><xs:enumeration value="a%sb"/></xs:restriction></xs:simpleType></xs:schema>' % ent)
            hits = lst.hits
            out = {'called': False, 'fault': False, 'client': True, 'escape': False, 'text': '', 'err': '', 'nodes': 0, 'reqnodes': 1, 'delivered': ''}
            t0 = time.time()
            mark(n)
            try:
                from spyne.util.xml import parse_schema_string
                res_ = parse_schema_string(doc.encode('utf8'))
                out['text'] = repr(res_)[:2000]
                for ns_, cd in (res_ or {}).items():
                    for nm, cl in cd.items():
                        out['text'] += ' %s=%r' % (nm, getattr(getattr(cl, 'Attributes', None), 'values', None))
            except BaseException as e:
                out['fault'] = True
                out['err'] = '%s: %s' % (type(e).__name__, str(e)[:200])
            out['seconds10'] = int((time.time() - t0) * 10)
            out['mb'] = 0
            blob = out['text']
            out['canary'] = any(x in blob for x in ('FILECANARY-7f3a', 'DTDCANARY-2e8c', 'NETCANARY-5b2d'))
            out['expanded'] = False
            out['net_hits'] = lst.hits - hits
            out['text'] = out['text'][:300]
            res.append({'what': 'attack', 'n': n, 'a': a, 'out': out, 'request': doc[:400]})
            continue
        key = (a['prot'], a.get('validator', 'none'), a.get('opts', 'none'))
        if key not in apps:
            apps[key] = build_app(a['prot'], validator='lxml' if a.get('validator') == 'lxml' else None, opts=a.get('opts', 'none'))
        app, wsgi, seen = apps[key]
        prolog, body = document(a, canary, dtd, lst.port)
        doc, ct = frame(a, prolog, body)
        hits = lst.hits
        mark(n)
        out, delivered = send(a, app, wsgi, seen, doc, ct)
        time.sleep(0)
        blob = delivered + out['text']
        out['canary'] = any(x in blob for x in ('FILECANARY-7f3a', 'DTDCANARY-2e8c', 'NETCANARY-5b2d'))
        out['expanded'] = REPL in blob
        out['net_hits'] = lst.hits - hits
        out['text'] = out['text'][:300]
        res.append({'what': 'attack', 'n': n, 'a': a, 'out': out, 'request': doc[:400].decode('utf8', 'replace')})
    # part 1: construction orders, then one request to one instance
    for sc in d['scripts']:
        n += 1
        s = sc['s']
        insts = [build_app('xml', relaxed=r) for r in s['creates']]
        app, wsgi, seen = insts[s['serve']['inst'] - 1]
        a = {'kind': s['serve']['kind'], 'pos': 'text_unicode', 'prot': 'xml', 'transport': 'wsgi', 'framing': 'plain'}
        prolog, body = document(a, canary, dtd, lst.port)
        doc, ct = frame(a, prolog, body)
        mark(n)
        out, delivered = send(a, app, wsgi, seen, doc, ct)
        blob = delivered + out['text']
        out['canary'] = any(x in blob for x in ('FILECANARY-7f3a', 'DTDCANARY-2e8c'))
        out['text'] = out['text'][:300]
        res.append({'what': 'script', 'n': n, 's': s, 'out': out})
    mark(n + 1)
    with open(os.path.join(work, 'attack_obs.json'), 'w') as f:
        json.dump({'port': lst.port, 'canary': canary, 'dtd': dtd, 'results': res}, f)


if __name__ == '__main__':
    main()
