import logging; logging.disable(logging.CRITICAL)
import warnings; warnings.simplefilter('ignore')
import json, msgpack, itertools
from io import BytesIO
from spyne import Application, Service, srpc, rpc, Integer
from spyne.protocol.soap import Soap11
from spyne.protocol.xml import XmlDocument
from spyne.protocol.json import JsonDocument
from spyne.protocol.msgpack import MessagePackRpc
from spyne.protocol.http import HttpRpc, HttpPattern
from spyne.server.wsgi import WsgiApplication
HITS=[]
def mk_services():
    class S1(Service):
        @srpc(Integer, _returns=Integer)
        def f(a): HITS.append('S1.f'); return 1
        @srpc(Integer, _returns=Integer)
        def ff(a): HITS.append('S1.ff'); return 1
    class S2(Service):
        @srpc(Integer, _returns=Integer)
        def F(a): HITS.append('S2.F'); return 1
        @srpc(Integer, _returns=Integer, _in_message_name='g_custom')
        def g(a): HITS.append('S2.g'); return 1
        @srpc(Integer, _returns=Integer, _operation_name='op')
        def h(a): HITS.append('S2.h'); return 1
    class S3(Service):
        @srpc(Integer, _returns=Integer, _patterns=[HttpPattern('/pat/<a>', verb='GET')])
        def p(a): HITS.append('S3.p'); return 1
    return [S1, S2, S3]
def call(w, env_extra, body):
    del HITS[:]
    env = {'REQUEST_METHOD': 'POST', 'PATH_INFO': '/', 'QUERY_STRING': '', 'CONTENT_TYPE': 'text/xml',
           'wsgi.input': BytesIO(body), 'wsgi.url_scheme':'http','SERVER_NAME':'x','SERVER_PORT':'80', 'CONTENT_LENGTH': str(len(body))}
    env.update(env_extra); st=[]
    try: out=b''.join(w(env, lambda s,h,e=None: st.append(s)))
    except Exception as e: return 'ESC %s' % type(e).__name__
    return '%s %s' % (st[0][:3], HITS)
names = ['f','F','ff','fx','xf','f ',' f','g','g_custom','h','op','p','','fResponse','S1.f']
for perm in list(itertools.permutations(range(3)))[:2]:
    svcs = mk_services(); svcs=[svcs[i] for i in perm]
    print('order', [s.__name__ for s in svcs])
    wx = WsgiApplication(Application(svcs, 'tns', in_protocol=XmlDocument(), out_protocol=JsonDocument()))
    print('  smap keys', sorted(wx.app.interface.service_method_map))
    svcs = mk_services(); svcs=[svcs[i] for i in perm]
    wj = WsgiApplication(Application(svcs, 'tns', in_protocol=JsonDocument(), out_protocol=JsonDocument()))
    svcs = mk_services(); svcs=[svcs[i] for i in perm]
    wh = WsgiApplication(Application(svcs, 'tns', in_protocol=HttpRpc(), out_protocol=JsonDocument()))
    svcs = mk_services(); svcs=[svcs[i] for i in perm]
    wm = WsgiApplication(Application(svcs, 'tns', in_protocol=MessagePackRpc(), out_protocol=JsonDocument()))
    for n in names:
        r = {}
        try: r['xml'] = call(wx, {}, ('<tns:%s xmlns:tns="tns"><tns:a>1</tns:a></tns:%s>' % (n.strip() or 'EMPTY', n.strip() or 'EMPTY')).encode()) if n.strip()==n and n else 'n/a'
        except Exception as e: r['xml']='gen-fail'
        r['xml-otherns'] = call(wx, {}, ('<o:%s xmlns:o="other"><o:a>1</o:a></o:%s>' % (n, n)).encode()) if n.strip()==n and n and '.' not in n else 'n/a'
        r['xml-nons'] = call(wx, {}, ('<%s><a>1</a></%s>' % (n, n)).encode()) if n.strip()==n and n else 'n/a'
        r['json'] = call(wj, {'CONTENT_TYPE':'application/json'}, json.dumps({n: {'a': 1}}).encode())
        r['http'] = call(wh, {'REQUEST_METHOD':'GET','PATH_INFO':'/'+n,'QUERY_STRING':'a=1'}, b'')
        r['mprpc'] = call(wm, {'CONTENT_TYPE':'application/x-msgpack'}, msgpack.packb([0,1,n,[1]]))
        print('  %-10r %s' % (n, r))
    print('  http /pat/5', call(wh, {'REQUEST_METHOD':'GET','PATH_INFO':'/pat/5','QUERY_STRING':''}, b''))
    print('  http /x/y/f', call(wh, {'REQUEST_METHOD':'GET','PATH_INFO':'/x/y/f','QUERY_STRING':'a=1'}, b''))
    print('  http /f/', call(wh, {'REQUEST_METHOD':'GET','PATH_INFO':'/f/','QUERY_STRING':'a=1'}, b''))
# duplicates
class D1(Service):
    @srpc(Integer, _returns=Integer)
    def f(a): return 1
class D2(Service):
    @srpc(Integer, _returns=Integer)
    def f(a): return 2
try: Application([D1, D2], 'tns', in_protocol=XmlDocument(), out_protocol=XmlDocument()); print('dup accepted!')
except Exception as e: print('dup ->', type(e).__name__, str(e)[:80])
try: Application([D1, D1], 'tns', in_protocol=XmlDocument(), out_protocol=XmlDocument()); print('same service twice accepted!')
except Exception as e: print('same twice ->', type(e).__name__, str(e)[:80])
class D3(Service):
    @srpc(Integer, _returns=Integer, _in_message_name='f')
    def zzz(a): return 3
try: Application([D1, D3], 'tns', in_protocol=XmlDocument(), out_protocol=XmlDocument()); print('custom-name collision accepted!')
except Exception as e: print('custom collision ->', type(e).__name__, str(e)[:80])
