"""Impose a TLC behaviour of SpyneWsdlCache on the real WsgiApplication at shared-access granularity."""
import logging; logging.disable(logging.CRITICAL)
import warnings; warnings.simplefilter('ignore')
import threading, sys, json
from io import BytesIO
from spyne import Application, Service, srpc, Integer
from spyne.protocol.soap import Soap11
from spyne.server.wsgi import WsgiApplication

KIND = {'peek':'R','read1':'R','read2':'R','store1':'W','store2':'W','getdoc1':'G','getdoc2':'G',
        'build':'B','acquire':'A','release':'L','respond':'S'}

class Ctl:
    def __init__(self):
        self.cv = threading.Condition()
        self.announced = {}      # tid -> kind waiting
        self.grant = None
        self.done = set()
        self.log = []
    def access(self, kind):
        tid = getattr(threading.current_thread(), 'tid', None)
        if tid is None: return
        with self.cv:
            self.announced[tid] = kind
            self.cv.notify_all()
            while self.grant != tid:
                self.cv.wait()
            self.grant = None
            del self.announced[tid]
            self.log.append((tid, kind))
            self.cv.notify_all()
    def step(self, tid, kind, timeout=5):
        with self.cv:
            ok = self.cv.wait_for(lambda: tid in self.announced or tid in self.done, timeout)
            if not ok: return 'timeout waiting for thread %d' % tid
            if tid in self.done: return 'thread %d already finished, expected %s' % (tid, kind)
            if self.announced[tid] != kind:
                return 'thread %d announces %s, spec expects %s' % (tid, self.announced[tid], kind)
            self.grant = tid
            self.cv.notify_all()
            self.cv.wait_for(lambda: self.grant is None, timeout)
        return None

def run(behaviour):
    class S(Service):
        @srpc(Integer, _returns=Integer)
        def f(a): return a
        @srpc(Integer, _returns=Integer)
        def g(a): return a
    app = Application([S], 'tns', in_protocol=Soap11(), out_protocol=Soap11())
    w = WsgiApplication(app)
    ctl = Ctl()
    builds = []
    base = w.__class__
    class Traced(base):
        def __getattribute__(self, k):
            if k == '_wsdl': ctl.access('R')
            return base.__getattribute__(self, k)
        def __setattr__(self, k, v):
            if k == '_wsdl': ctl.access('W')
            base.__setattr__(self, k, v)
    w11 = w.doc.wsdl11
    og, ob = w11.get_interface_document, w11.build_interface_document
    def get(): ctl.access('G'); return og()
    def build(url): ctl.access('B'); builds.append(1); return ob(url)
    w11.get_interface_document = get; w11.build_interface_document = build
    class Lock:
        def __init__(s): s.l = threading.Lock()
        def acquire(s): ctl.access('A'); s.l.acquire()
        def release(s): ctl.access('L'); s.l.release()
    w._mtx_build_interface_document = Lock()
    w.__class__ = Traced
    res = {}
    def worker(tid):
        threading.current_thread().tid = tid
        env = {'REQUEST_METHOD': 'GET', 'PATH_INFO': '/', 'QUERY_STRING': 'wsdl', 'wsgi.input': BytesIO(b''),
               'wsgi.url_scheme':'http','SERVER_NAME':'x','SERVER_PORT':'80'}
        def sr(s, h, e=None): ctl.access('S'); res.setdefault(tid, {})['status'] = s
        try:
            res.setdefault(tid, {})['body'] = b''.join(w(env, sr))
        except Exception as e:
            res.setdefault(tid, {})['exc'] = repr(e)
        with ctl.cv:
            ctl.done.add(tid); ctl.cv.notify_all()
    ths = {t: threading.Thread(target=worker, args=(t,), daemon=True) for t in sorted({t for t,_ in behaviour})}
    for t in ths.values(): t.start()
    for i, (tid, a) in enumerate(behaviour):
        err = ctl.step(tid, KIND[a])
        if err: return {'diverged_at': i, 'why': err, 'log': ctl.log}
    for t in ths.values(): t.join(5)
    # sequential oracle
    app2 = Application([S], 'tns', in_protocol=Soap11(), out_protocol=Soap11()); w2 = WsgiApplication(app2)
    env = {'REQUEST_METHOD': 'GET', 'PATH_INFO': '/', 'QUERY_STRING': 'wsdl', 'wsgi.input': BytesIO(b''),'wsgi.url_scheme':'http','SERVER_NAME':'x','SERVER_PORT':'80'}
    solo = b''.join(w2(env, lambda s,h,e=None: None))
    return {'builds': len(builds), 'same_as_solo': {t: r.get('body') == solo for t, r in res.items()},
            'lens': {t: len(r.get('body', b'')) for t, r in res.items()}, 'solo_len': len(solo),
            'exc': {t: r.get('exc') for t, r in res.items() if 'exc' in r}}

if __name__ == '__main__':
    cex = [(1,'peek'),(1,'getdoc1'),(1,'store1'),(1,'read1'),(1,'acquire'),(1,'read2'),(2,'peek'),(2,'getdoc1'),
           (1,'build'),(1,'getdoc2'),(1,'store2'),(1,'release'),(2,'store1'),(2,'read1'),(2,'acquire'),(2,'read2'),
           (2,'build'),(2,'getdoc2'),(2,'store2'),(2,'release'),(1,'respond'),(2,'respond')]
    print(run(cex))
    good = [(1,a) for a in ['peek','getdoc1','store1','read1','acquire','read2','build','getdoc2','store2','release','respond']] + [(2,'peek'),(2,'read1'),(2,'respond')]
    print(run(good))
