"""Prototype: deterministic line-level scheduler for Python threads via sys.settrace."""
import sys, threading, logging, itertools, time
logging.disable(logging.CRITICAL)
import warnings; warnings.simplefilter('ignore')
from io import BytesIO
from spyne import Application, Service, srpc, Integer
from spyne.protocol.soap import Soap11
from spyne.server.wsgi import WsgiApplication
import spyne.server.wsgi as W, spyne.interface.wsdl.wsdl11 as WS

TARGET = {W.__file__: {'handle_wsdl_request'}, WS.__file__: {'build_interface_document','get_interface_document'}}

class Sched:
    def __init__(self, schedule):
        self.schedule = list(schedule)   # list of thread indices, consumed at each yield point
        self.cv = threading.Condition()
        self.turn = None
        self.alive = set(); self.blocked=set()
        self.steps = 0
        self.log = []
    def pick(self):
        # called with cv held
        runnable = sorted(self.alive - self.blocked) or sorted(self.alive)
        if not runnable: self.turn = None; return
        while self.schedule:
            c = self.schedule.pop(0)
            if c in runnable: self.turn = c; return
        self.turn = runnable[0]
    def yield_point(self, tid, what):
        with self.cv:
            self.log.append((tid, what))
            self.steps += 1
            self.pick()
            self.cv.notify_all()
            while self.turn != tid:
                self.cv.wait()
    def block_until(self, tid, pred, what):
        # cooperative blocking: thread is not runnable until pred() holds
        with self.cv:
            self.log.append((tid, what))
            while True:
                if pred():
                    return
                self.blocked.add(tid)
                self.pick()
                self.cv.notify_all()
                while self.turn != tid:
                    self.cv.wait()
                self.blocked.discard(tid)
    def start(self, tid):
        with self.cv:
            self.alive.add(tid)
    def begin(self, tid):
        with self.cv:
            while self.turn != tid:
                self.cv.wait()
    def finish(self, tid):
        with self.cv:
            self.alive.discard(tid)
            self.pick()
            self.cv.notify_all()

def make_tracer(s, tid):
    def local(frame, event, arg):
        if event == 'line':
            s.yield_point(tid, (frame.f_code.co_name, frame.f_lineno))
        return local
    def glob(frame, event, arg):
        if event == 'call':
            fns = TARGET.get(frame.f_code.co_filename)
            if fns and frame.f_code.co_name in fns:
                return local
        return None
    return glob

def run(schedule, n=2):
    class S(Service):
        @srpc(Integer, _returns=Integer)
        def f(a): return a
    app = Application([S], 'tns', in_protocol=Soap11(), out_protocol=Soap11())
    w = WsgiApplication(app)
    builds = []
    class CoopLock:
        def __init__(self): self.owner=None
        def acquire(self):
            tid = threading.current_thread().tid
            s.block_until(tid, lambda: self.owner is None, 'acquire')
            self.owner = tid
            s.log.append((tid,'acquired'))
        def release(self):
            tid = threading.current_thread().tid
            assert self.owner == tid
            self.owner=None
            s.log.append((tid,'released'))
    w._mtx_build_interface_document = CoopLock()
    orig_build = w.doc.wsdl11.build_interface_document
    def counted(url):
        builds.append(threading.current_thread().tid); return orig_build(url)
    w.doc.wsdl11.build_interface_document = counted
    orig = w.doc.wsdl11.build_interface_document
    s = Sched(schedule)
    res = {}
    def worker(tid):
        threading.current_thread().tid = tid
        sys.settrace(make_tracer(s, tid))
        s.begin(tid)
        try:
            env = {'REQUEST_METHOD': 'GET', 'PATH_INFO': '/', 'QUERY_STRING': 'wsdl', 'wsgi.input': BytesIO(b''), 'wsgi.url_scheme':'http','SERVER_NAME':'x','SERVER_PORT':'80'}
            st=[]
            out = b''.join(w(env, lambda status, h, e=None: st.append(status)))
            res[tid] = (st, out)
        finally:
            sys.settrace(None)
            s.finish(tid)
    ths = [threading.Thread(target=worker, args=(i,)) for i in range(n)]
    for i in range(n): s.start(i)
    for t in ths: t.start()
    with s.cv:
        s.pick(); s.cv.notify_all()
    for t in ths: t.join(10)
    assert not any(t.is_alive() for t in ths), "deadlock"
    return res, s, builds

t0=time.time()
cnt=0
import random
random.seed(1)
for k in range(200):
    sch = [random.randrange(2) for _ in range(200)]
    res, s, builds = run(sch)
    assert len(builds)==1, builds
    docs = set(r[1] for r in res.values())
    assert len(docs)==1, "different docs"
    cnt+=1
print("ok", cnt, "schedules", time.time()-t0, "s; steps in last:", s.steps)
print(s.log[:12])
