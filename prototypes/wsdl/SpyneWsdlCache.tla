-------------------------- MODULE SpyneWsdlCache --------------------------
(* WsgiApplication.handle_wsdl_request: lazily built WSDL behind a
   double-checked lock.  One action per shared access, in program order:

   336  if self._wsdl is None:                         Peek
   337      self._wsdl = wsdl11.get_interface_document()   GetDoc1 ; Store1
   339  ctx.transport.wsdl = self._wsdl                 Read1
   341  if ctx.transport.wsdl is None:
   343      mtx.acquire()                               Acquire
   345      ctx.transport.wsdl = self._wsdl             Read2
   347      if ctx.transport.wsdl is None:
   348          wsdl11.build_interface_document(url)    Build (publishes doc at its end)
   349          ... = self._wsdl = wsdl11.get_interface_document()   GetDoc2 ; Store2
   364      mtx.release()                               Release
   370  start_response(...); return [wsdl]             Respond                  *)
EXTENDS Naturals, FiniteSets, TLC
CONSTANTS Threads, NoLock, NoSecondCheck     \* seeded design faults for sanity runs
VARIABLES pc, loc, cached, doc, lock, builds, resp, act
vars == <<pc, loc, cached, doc, lock, builds, resp, act>>
None == "none"   Whole == "doc"   Free == 0
Init == /\ pc = [t \in Threads |-> "peek"] /\ loc = [t \in Threads |-> None]
        /\ cached = None /\ doc = None /\ lock = Free /\ builds = 0
        /\ resp = [t \in Threads |-> None] /\ act = <<"init", "init">>
Go(t, a, to) == pc[t] = a /\ pc' = [pc EXCEPT ![t] = to] /\ act' = <<t, a>>
Peek(t)    == /\ Go(t, "peek", IF cached = None THEN "getdoc1" ELSE "read1")
              /\ UNCHANGED <<loc, cached, doc, lock, builds, resp>>
GetDoc1(t) == /\ Go(t, "getdoc1", "store1") /\ loc' = [loc EXCEPT ![t] = doc]
              /\ UNCHANGED <<cached, doc, lock, builds, resp>>
Store1(t)  == /\ Go(t, "store1", "read1") /\ cached' = loc[t]
              /\ UNCHANGED <<loc, doc, lock, builds, resp>>
Read1(t)   == /\ Go(t, "read1", IF cached = None THEN "acquire" ELSE "respond")
              /\ loc' = [loc EXCEPT ![t] = cached]
              /\ UNCHANGED <<cached, doc, lock, builds, resp>>
Acquire(t) == /\ (NoLock \/ lock = Free) /\ Go(t, "acquire", "read2")
              /\ lock' = (IF NoLock THEN lock ELSE t)
              /\ UNCHANGED <<loc, cached, doc, builds, resp>>
Read2(t)   == /\ Go(t, "read2", IF cached = None \/ NoSecondCheck THEN "build" ELSE "release")
              /\ loc' = [loc EXCEPT ![t] = cached]
              /\ UNCHANGED <<cached, doc, lock, builds, resp>>
Build(t)   == /\ Go(t, "build", "getdoc2") /\ doc' = Whole /\ builds' = builds + 1
              /\ UNCHANGED <<loc, cached, lock, resp>>
GetDoc2(t) == /\ Go(t, "getdoc2", "store2") /\ loc' = [loc EXCEPT ![t] = doc]
              /\ UNCHANGED <<cached, doc, lock, builds, resp>>
Store2(t)  == /\ Go(t, "store2", "release") /\ cached' = loc[t]
              /\ UNCHANGED <<loc, doc, lock, builds, resp>>
Release(t) == /\ Go(t, "release", "respond") /\ lock' = (IF NoLock THEN lock ELSE Free)
              /\ UNCHANGED <<loc, cached, doc, builds, resp>>
Respond(t) == /\ Go(t, "respond", "done") /\ resp' = [resp EXCEPT ![t] = loc[t]]
              /\ UNCHANGED <<loc, cached, doc, lock, builds>>
Next == \E t \in Threads : Peek(t) \/ GetDoc1(t) \/ Store1(t) \/ Read1(t) \/ Acquire(t)
          \/ Read2(t) \/ Build(t) \/ GetDoc2(t) \/ Store2(t) \/ Release(t) \/ Respond(t)
Spec == Init /\ [][Next]_vars /\ \A t \in Threads : WF_vars(Next)
BuiltOnce   == builds <= 1
WholeDoc    == \A t \in Threads : pc[t] = "done" => resp[t] = Whole
LockHolder  == lock # Free => pc[lock] \in {"read2", "build", "getdoc2", "store2", "release"}
AllRespond  == <>(\A t \in Threads : pc[t] = "done")
=============================================================================
