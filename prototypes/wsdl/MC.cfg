SPECIFICATION Spec
CONSTANTS Threads = {1, 2}
  NoLock = FALSE
  NoSecondCheck = FALSE
INVARIANT BuiltOnce
INVARIANT WholeDoc
INVARIANT LockHolder
PROPERTY AllRespond
CHECK_DEADLOCK FALSE
