"""Try to reproduce the lazy prefix allocation race in Interface.get_namespace_prefix."""
import logging; logging.disable(logging.CRITICAL)
import warnings; warnings.simplefilter('ignore')
import sys, threading
from io import BytesIO
from lxml import etree
from spyne import Application, Service, srpc, Integer, Unicode, ComplexModel
from spyne.protocol.soap import Soap11
from spyne.server.wsgi import WsgiApplication
import spyne.interface._base as IB

def mkapp():
    class Base(ComplexModel):
        __namespace__ = 'tns'
        b = Integer
    class P(ComplexModel):
        __namespace__ = 'ns.p'
        x = Integer
    class P1(P):
        __namespace__ = 'ns.p'
        p = Unicode
    class Q(ComplexModel):
        __namespace__ = 'ns.q'
        y = Integer
    class Q1(Q):
        __namespace__ = 'ns.q'
        q = Unicode
    class S(Service):
        @srpc(_returns=P)
        def fp(): return P1(x=1, p='pp')
        @srpc(_returns=Q)
        def fq(): return Q1(y=2, q='qq')
    app = Application([S], 'tns', in_protocol=Soap11(), out_protocol=Soap11(polymorphic=True))
    return WsgiApplication(app)

E = 'http://schemas.xmlsoap.org/soap/envelope/'
def req(name):
    body = ('<e:Envelope xmlns:e="%s" xmlns:tns="tns"><e:Body><tns:%s/></e:Body></e:Envelope>' % (E, name)).encode()
    return {'REQUEST_METHOD': 'POST', 'PATH_INFO': '/', 'QUERY_STRING': '', 'CONTENT_TYPE': 'text/xml',
            'wsgi.input': BytesIO(body), 'wsgi.url_scheme':'http','SERVER_NAME':'x','SERVER_PORT':'80', 'CONTENT_LENGTH': str(len(body))}
def call(w, name):
    return b''.join(w(req(name), lambda s,h,e=None: None))
def resolves(doc):
    t = etree.fromstring(doc)
    out = []
    for e in t.iter():
        v = e.get('{http://www.w3.org/2001/XMLSchema-instance}type')
        if v:
            pref, local = v.split(':')
            out.append((v, e.nsmap.get(pref), etree.QName(e[0]).namespace if len(e) else None))
    return out

# solo
w = mkapp(); print('solo fp', resolves(call(w, 'fp'))); w = mkapp(); print('solo fq', resolves(call(w, 'fq')))
w = mkapp(); print('seq  fp,fq', resolves(call(w, 'fp')), resolves(call(w, 'fq')))

# raced: pause each thread inside get_namespace_prefix right before the first map write
import inspect
src, start = inspect.getsourcelines(IB.Interface.get_namespace_prefix)
write_line = start + [i for i, l in enumerate(src) if 'self.prefmap[ns] = pref' in l][0]
barrier = threading.Barrier(2, timeout=5)
def tracer_factory():
    state = {'hit': False}
    def local(frame, event, arg):
        if event == 'line' and frame.f_lineno == write_line and not state['hit']:
            state['hit'] = True
            try: barrier.wait()
            except threading.BrokenBarrierError: pass
        return local
    def glob(frame, event, arg):
        if event == 'call' and frame.f_code is IB.Interface.get_namespace_prefix.__code__:
            return local
    return glob
w = mkapp()
res = {}
def worker(name):
    sys.settrace(tracer_factory())
    try: res[name] = call(w, name)
    finally: sys.settrace(None)
ts = [threading.Thread(target=worker, args=(n,)) for n in ('fp', 'fq')]
for t in ts: t.start()
for t in ts: t.join()
print('raced fp', resolves(res['fp']))
print('raced fq', resolves(res['fq']))
print('prefmap', {k: v for k, v in w.app.interface.prefmap.items() if k.startswith('ns.')}, 'nsmap s*', {k: v for k, v in w.app.interface.nsmap.items() if k.startswith('s')})
