import logging; logging.disable(logging.CRITICAL)
import warnings; warnings.simplefilter('ignore')
import time, tempfile, os, socket, threading, resource
from io import BytesIO
from spyne import Application, Service, srpc, Unicode, Integer, ComplexModel
from spyne.protocol.soap import Soap11, Soap12
from spyne.protocol.xml import XmlDocument
from spyne.protocol.json import JsonDocument
from spyne.server.wsgi import WsgiApplication
GOT=[]
class S(Service):
    @srpc(Unicode, _returns=Unicode)
    def echo(s): GOT.append(s); return s
can = tempfile.NamedTemporaryFile('w', suffix='.txt', delete=False); can.write('CANARY-SECRET-77'); can.close()
hits=[]
srv = socket.socket(); srv.bind(('127.0.0.1', 0)); srv.listen(5); port = srv.getsockname()[1]; srv.settimeout(0.2)
def acc():
    while True:
        try: c,_ = srv.accept(); hits.append(1); c.close()
        except socket.timeout:
            if stop[0]: return
        except OSError: return
stop=[False]; t=threading.Thread(target=acc, daemon=True); t.start()
def call(w, body, ctype='text/xml'):
    del GOT[:]
    env = {'REQUEST_METHOD': 'POST', 'PATH_INFO': '/', 'QUERY_STRING': '', 'CONTENT_TYPE': ctype,
           'wsgi.input': BytesIO(body), 'wsgi.url_scheme':'http','SERVER_NAME':'x','SERVER_PORT':'80', 'CONTENT_LENGTH': str(len(body))}
    st=[]; t0=time.time()
    try: out=b''.join(w(env, lambda s,h,e=None: st.append(s)))
    except Exception as e: return 'ESC %s' % type(e).__name__, b'', time.time()-t0
    return st[0], out, time.time()-t0
body = lambda inner, dtd='': ('%s<tns:echo xmlns:tns="tns" xmlns:xi="http://www.w3.org/2001/XInclude"><tns:s>%s</tns:s></tns:echo>' % (dtd, inner)).encode()
attacks = {
 'ext-general file': body('a&x;b', '<!DOCTYPE r [<!ENTITY x SYSTEM "file://%s">]>' % can.name),
 'ext-general http': body('a&x;b', '<!DOCTYPE r [<!ENTITY x SYSTEM "http://127.0.0.1:%d/x">]>' % port),
 'ext-param file': body('ab', '<!DOCTYPE r [<!ENTITY %% p SYSTEM "file://%s"> %%p;]>' % can.name),
 'ext-param http': body('ab', '<!DOCTYPE r [<!ENTITY %% p SYSTEM "http://127.0.0.1:%d/p"> %%p;]>' % port),
 'ext-dtd http': body('ab', '<!DOCTYPE r SYSTEM "http://127.0.0.1:%d/d.dtd">' % port),
 'ext-dtd file': body('ab', '<!DOCTYPE r SYSTEM "file://%s">' % can.name),
 'xinclude file': body('<xi:include href="file://%s" parse="text"/>' % can.name),
 'internal entity': body('a&x;b', '<!DOCTYPE r [<!ENTITY x "INTERNAL">]>'),
 'bomb 10^9': body('&e9;', '<!DOCTYPE r [<!ENTITY e0 "AAAAAAAAAA">' + ''.join('<!ENTITY e%d "%s">' % (i, ('&e%d;' % (i-1))*10) for i in range(1,10)) + ']>'),
 'quadratic': body('&big;'*20000, '<!DOCTYPE r [<!ENTITY big "%s">]>' % ('B'*50000)),
 'deep nesting 100k': ('<tns:echo xmlns:tns="tns"><tns:s>' + '<a>'*100000 + '</a>'*100000 + '</tns:s></tns:echo>').encode(),
 'many attrs 100k': ('<tns:echo xmlns:tns="tns" ' + ' '.join('a%d="1"' % i for i in range(100000)) + '><tns:s>x</tns:s></tns:echo>').encode(),
 'attr entity': ('<!DOCTYPE r [<!ENTITY x SYSTEM "file://%s">]><tns:echo xmlns:tns="tns" q="&x;"><tns:s>x</tns:s></tns:echo>' % can.name).encode(),
}
E11='http://schemas.xmlsoap.org/soap/envelope/'
for pname, P, wrap in [('xml', XmlDocument, lambda b: b), ('soap11', Soap11, None)]:
    w = WsgiApplication(Application([S], 'tns', in_protocol=P(), out_protocol=P()))
    print('==', pname)
    for name, b in attacks.items():
        if pname == 'soap11':
            s = b.decode()
            i = s.find('<tns:echo'); dtd, doc = s[:i], s[i:]
            b = (dtd + '<e:Envelope xmlns:e="%s"><e:Body>%s</e:Body></e:Envelope>' % (E11, doc)).encode()
        n0 = len(hits)
        st, out, dt = call(w, b)
        time.sleep(0.05)
        leak = b'CANARY' in out or any('CANARY' in (g or '') for g in GOT)
        print('  %-20s %-26s %.2fs leak=%s net=%d got=%s out=%s' % (name, st[:26], dt, leak, len(hits)-n0, [ (g or '')[:20] for g in GOT], out[-90:] if not st.startswith('200') else out[-60:]))
stop[0]=True; os.unlink(can.name)
print('maxrss MB', resource.getrusage(resource.RUSAGE_SELF).ru_maxrss/1024)
