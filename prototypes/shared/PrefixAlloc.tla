---------------------------- MODULE PrefixAlloc ----------------------------
(* Interface.get_namespace_prefix as the code writes it, one action per shared
   access, called lazily from request threads (polymorphic xsi:type emission).

   412  if not (ns in self.prefmap):             Test
   413      pref = "s%d" % self.__ns_counter      ReadCtr
   414      while pref in self.nsmap: ...         Probe  (bump counter while taken)
   418      self.prefmap[ns] = pref               SetPref
   419      self.nsmap[pref] = ns                 SetNs
   421      self.__ns_counter += 1                Bump
   423  else: pref = self.prefmap[ns]             Hit                           *)
EXTENDS Naturals, FiniteSets, TLC
CONSTANTS Threads, NsOf, Locked     \* NsOf: thread -> namespace it needs; Locked: allocator under a mutex?
VARIABLES pc, loc, prefmap, nsmap, ctr, lock
vars == <<pc, loc, prefmap, nsmap, ctr, lock>>
NoPref == 99
Namespaces == {NsOf[t] : t \in Threads}
Init == /\ pc = [t \in Threads |-> "test"] /\ loc = [t \in Threads |-> NoPref]
        /\ prefmap = [n \in Namespaces |-> NoPref] /\ nsmap = [p \in 0..3 |-> "free"]
        /\ ctr = 0 /\ lock = 0
Go(t, a, b) == pc[t] = a /\ pc' = [pc EXCEPT ![t] = b]
Test(t)    == /\ (~Locked \/ lock = 0) /\ lock' = (IF Locked THEN t ELSE lock)
              /\ Go(t, "test", IF prefmap[NsOf[t]] = NoPref THEN "readctr" ELSE "hit")
              /\ UNCHANGED <<loc, prefmap, nsmap, ctr>>
ReadCtr(t) == /\ Go(t, "readctr", "probe") /\ loc' = [loc EXCEPT ![t] = ctr]
              /\ UNCHANGED <<prefmap, nsmap, ctr, lock>>
Probe(t)   == /\ pc[t] = "probe"
              /\ IF nsmap[loc[t]] # "free"
                   THEN /\ ctr' = ctr + 1 /\ loc' = [loc EXCEPT ![t] = ctr + 1] /\ UNCHANGED pc
                   ELSE /\ pc' = [pc EXCEPT ![t] = "setpref"] /\ UNCHANGED <<ctr, loc>>
              /\ UNCHANGED <<prefmap, nsmap, lock>>
SetPref(t) == /\ Go(t, "setpref", "setns") /\ prefmap' = [prefmap EXCEPT ![NsOf[t]] = loc[t]]
              /\ UNCHANGED <<loc, nsmap, ctr, lock>>
SetNs(t)   == /\ Go(t, "setns", "bump") /\ nsmap' = [nsmap EXCEPT ![loc[t]] = NsOf[t]]
              /\ UNCHANGED <<loc, prefmap, ctr, lock>>
Bump(t)    == /\ Go(t, "bump", "done") /\ ctr' = ctr + 1 /\ lock' = (IF Locked THEN 0 ELSE lock)
              /\ UNCHANGED <<loc, prefmap, nsmap>>
Hit(t)     == /\ Go(t, "hit", "done") /\ loc' = [loc EXCEPT ![t] = prefmap[NsOf[t]]]
              /\ lock' = (IF Locked THEN 0 ELSE lock)
              /\ UNCHANGED <<prefmap, nsmap, ctr>>
Next == \E t \in Threads : Test(t) \/ ReadCtr(t) \/ Probe(t) \/ SetPref(t) \/ SetNs(t) \/ Bump(t) \/ Hit(t)
Spec == Init /\ [][Next]_vars
AllDone == \A t \in Threads : pc[t] = "done"
\* distinct namespaces never share a prefix, and the two maps are mutually inverse
Injective == \A a, b \in Namespaces : (a # b /\ prefmap[a] # NoPref) => prefmap[a] # prefmap[b]
Inverse   == AllDone => \A n \in Namespaces : prefmap[n] # NoPref => nsmap[prefmap[n]] = n
=============================================================================
