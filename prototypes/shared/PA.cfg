SPECIFICATION Spec
CONSTANTS Threads = {1, 2}
  NsOf <- NsOfDef
  Locked = FALSE
INVARIANT Injective
INVARIANT Inverse
CHECK_DEADLOCK FALSE
