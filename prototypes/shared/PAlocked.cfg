SPECIFICATION Spec
CONSTANTS Threads = {1, 2}
  NsOf <- NsOfDef
  Locked = TRUE
INVARIANT Injective
INVARIANT Inverse
CHECK_DEADLOCK FALSE
