---- MODULE MCPrefix ----
EXTENDS PrefixAlloc
NsOfDef == [t \in {1, 2} |-> IF t = 1 THEN "ns.p" ELSE "ns.q"]
====
