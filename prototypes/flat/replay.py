import logging; logging.disable(logging.CRITICAL)
import warnings; warnings.simplefilter('ignore')
import re, itertools
from io import BytesIO
from tlaval import read_dot
from spyne.protocol.dictdoc.simple import _s2cmi
from spyne import Application, Service, srpc, Integer, ComplexModel, Array
from spyne.protocol.http import HttpRpc
from spyne.protocol.json import JsonDocument
from spyne.server.wsgi import WsgiApplication
nodes, edges, init = read_dot('g.dot')
print(len(nodes), 'states', len(edges), 'edges; init', nodes[init])
# (1) transition coverage on _s2cmi: every edge New(i) from state s must produce state s'
bad = 0; n = 0
for a, b, lab in edges:
    m = re.match(r'New\((\d+)\)', lab)
    if not m: continue
    i = int(m.group(1)); s, t = nodes[a], nodes[b]
    fn = lambda x: dict(x) if isinstance(x, dict) else {k + 1: v for k, v in enumerate(x)}   # TLC prints a function on 1..n as a tuple
    real = fn(s['m'])
    pos = _s2cmi(real, i); n += 1
    exp = fn(t['m'])
    if real != exp or pos != t['act'][2]:
        bad += 1; print('MISMATCH', s, lab, real, exp)
print('_s2cmi edges replayed:', n, 'mismatches:', bad)
# (2) all maximal paths of New-only insert orders as real HttpRpc requests (any pair order in the query string)
class E(ComplexModel):
    __namespace__ = 'tns'
    v = Integer
GOT = []
class S(Service):
    @srpc(Array(E), _returns=Integer)
    def f(es):
        GOT.append([e.v for e in es]); return 1
w = WsgiApplication(Application([S], 'tns', in_protocol=HttpRpc(), out_protocol=JsonDocument()))
succ = {}
for a, b, lab in edges:
    if lab.startswith('New'): succ.setdefault(a, []).append((b, int(re.match(r'New\((\d+)\)', lab).group(1))))
def paths(s, acc):
    if s not in succ: yield acc; return
    yield acc
    for b, i in succ[s]: yield from paths(b, acc + [i])
cnt = bad = 0
for p in paths(init, []):
    if not p: continue
    qs = '&'.join('es[%d].v=%d' % (i, 100 + i) for i in p)     # pair order = insertion order of this behaviour
    del GOT[:]
    env = {'REQUEST_METHOD': 'GET', 'PATH_INFO': '/f', 'QUERY_STRING': qs, 'wsgi.input': BytesIO(b''), 'wsgi.url_scheme': 'http', 'SERVER_NAME': 'x', 'SERVER_PORT': '80'}
    b''.join(w(env, lambda s, h, e=None: None)); cnt += 1
    exp = [100 + i for i in sorted(p)]
    if GOT != [exp]: bad += 1; print('REQ MISMATCH', qs, GOT, exp)
print('requests replayed:', cnt, 'mismatches:', bad)
