------------------------------ MODULE FlatIdx ------------------------------
(* SimpleDictDocument.simple_dict_to_object's sparse -> contiguous index
   bookkeeping for one array of objects (`_s2cmi`): wire indices arrive in any
   order; each new index is inserted so that the built list is ordered by wire
   index.  m: wire index -> position; lst: wire indices in list order.        *)
EXTENDS Naturals, Sequences, FiniteSets, TLC
CONSTANT Idx                     \* wire indices that may be used, e.g. {0,1,2,10}
VARIABLES m, lst, act
vars == <<m, lst, act>>
Seen == DOMAIN m
Rank(i, S) == Cardinality({j \in S : j < i})
InsertAt(s, k, x) == SubSeq(s, 1, k) \o <<x>> \o SubSeq(s, k + 1, Len(s))
Init == m = <<>> /\ lst = <<>> /\ act = <<"init", 0, 0>>
\* first sight of wire index i: its position is its rank among the indices seen so far
New(i) == /\ i \notin Seen
          /\ LET k == Rank(i, Seen) IN
               /\ m' = [j \in Seen \cup {i} |-> IF j = i THEN k ELSE IF j > i THEN m[j] + 1 ELSE m[j]]
               /\ lst' = InsertAt(lst, k, i)
               /\ act' = <<"new", i, k>>
\* later sight: same element
Again(i) == i \in Seen /\ act' = <<"again", i, m[i]>> /\ UNCHANGED <<m, lst>>
Next == \E i \in Idx : New(i) \/ Again(i)
Spec == Init /\ [][Next]_vars
RankInv  == \A i \in Seen : m[i] = Rank(i, Seen)
OrderInv == \A a, b \in 1..Len(lst) : a < b => lst[a] < lst[b]
MapInv   == \A i \in Seen : lst[m[i] + 1] = i
=============================================================================
