---- MODULE XmlEnc ----
EXTENDS Naturals, Sequences, TLC, Json, IOUtils, SequencesExt
Cases == ndJsonDeserialize(IOEnv.TRACE_FILE)
VARIABLES i
Nil == <<"nil">>
S(ns, n) == <<"S", ns, n>>
E == <<"E">>
ArrNs(t)    == IF t.of.k = "obj" THEN t.of.ns ELSE "tns"      \* an array lives in its member's namespace
ItemName(t) == CASE t.of.k = "obj" -> t.of.name [] t.of.k = "int" -> "integer" [] t.of.k = "str" -> "string"
RECURSIVE EncElem(_, _, _, _), EncFields(_, _, _, _), EncItems(_, _, _, _, _)
EncItems(t, items, ns, name, k) ==
  IF k > Len(items) THEN <<>> ELSE EncElem(t, items[k], ns, name) \o EncItems(t, items, ns, name, k + 1)
EncFields(fields, vals, ns, k) ==
  IF k > Len(fields) THEN <<>>
  ELSE LET f == fields[k]  x == vals[k]
           here == IF f.max > 1 /\ x # Nil THEN EncItems(f.t, x[2], ns, f.n, 1)
                   ELSE IF x # Nil \/ f.min > 0 THEN EncElem(f.t, x, ns, f.n)
                   ELSE <<>>
       IN here \o EncFields(fields, vals, ns, k + 1)
EncElem(t, v, ns, name) ==
  IF v = Nil THEN << S(ns, name), <<"NIL">>, E >>
  ELSE IF t.k \in {"int", "str"} THEN << S(ns, name), <<"T", v[2]>>, E >>
  ELSE IF t.k = "obj" THEN << S(ns, name) >> \o EncFields(t.fields, v[2], t.ns, 1) \o << E >>
  ELSE \* wrapped array: container named after the member, items named after the item type
       << S(ns, name) >> \o EncItems(t.of, v[2], ArrNs(t), ItemName(t), 1) \o << E >>
LCP(a, b) == LET n == IF Len(a) < Len(b) THEN Len(a) ELSE Len(b)
                 bad == {k \in 1..n : a[k] # b[k]}
             IN IF bad = {} THEN n ELSE (CHOOSE k \in bad : \A j \in bad : k <= j) - 1
Init == i = 1
Step == /\ i <= Len(Cases)
        /\ LET c == Cases[i]
               exp == EncElem(c.type, c.value, c.ns, c.name)
           IN IF exp = c.tokens THEN TRUE
              ELSE PrintT(<<"REJECT", c.id, "at", LCP(exp, c.tokens) + 1, "expected",
                           IF LCP(exp, c.tokens) < Len(exp) THEN exp[LCP(exp, c.tokens) + 1] ELSE <<"END">>>>)
        /\ i' = i + 1
Spec == Init /\ [][Step]_i
====
