import logging; logging.disable(logging.CRITICAL)
import warnings; warnings.simplefilter('ignore')
import json, random, sys
from lxml import etree
from spyne import ComplexModel, Integer, Unicode, Array
from spyne.model.complex import TypeInfo, ComplexModelMeta
from spyne.util.odict import odict
from spyne.util.xml import get_object_as_xml
from spyne.protocol.xml import XmlDocument
XSI='{http://www.w3.org/2001/XMLSchema-instance}'
rnd = random.Random(int(sys.argv[1]) if len(sys.argv)>1 else 0)
cnt=[0]
def gen_type(depth):
    k = rnd.choice(['int','str','obj','arr'] if depth>0 else ['int','str'])
    if k in ('int','str'): return {'k':k}
    if k == 'arr':
        of = gen_type(depth-1)
        while of['k']=='arr': of = gen_type(depth-1)
        return {'k':'arr','of':of}
    fields=[]
    for j in range(rnd.randint(1,3)):
        t = gen_type(depth-1)
        mx = rnd.choice([1,1,2,99]) if t['k']!='arr' else 1
        fields.append({'n':'f%d'%j,'t':t,'min':rnd.choice([0,0,1]),'max':mx})
    cnt[0]+=1
    return {'k':'obj','name':'C%d'%cnt[0],'ns':rnd.choice(['tns','ns.b']),'fields':fields}
def to_spyne(t):
    if t['k']=='int': return Integer
    if t['k']=='str': return Unicode
    if t['k']=='arr':
        inner = to_spyne(t['of'])
        a = Array(inner)
        t['item'] = inner.get_type_name(); 
        return a
    members=[]
    for f in t['fields']:
        st = to_spyne(f['t'])
        kw = {'min_occurs': f['min']}
        if f['max']>1: kw['max_occurs'] = f['max'] if f['max']<99 else 'unbounded'
        members.append((f['n'], st.customize(**kw)))
    return ComplexModelMeta(t['name'], (ComplexModel,), odict({'__namespace__': t['ns'], '__type_name__': t['name'], '_type_info': TypeInfo(members)}))
def gen_val(t, cls, allow_nil=True):
    if allow_nil and rnd.random()<0.25: return ['nil'], None
    if t['k']=='int':
        v = rnd.choice([0,-1,7,2**70]); return ['int', str(v)], v
    if t['k']=='str':
        v = rnd.choice(['a','bc','']); 
        return ['str', v], v
    if t['k']=='arr':
        icls = list(cls._type_info.values())[0]
        items=[gen_val(t['of'], icls) for _ in range(rnd.randint(0,2))]
        return ['arr',[a for a,_ in items]], [b for _,b in items]
    vals=[]; inst = cls()
    for f,(fn,fc) in zip(t['fields'], cls._type_info.items()):
        if f['max']>1:
            if rnd.random()<0.3: a,b=['nil'],None
            else:
                items=[gen_val(f['t'], fc) for _ in range(rnd.randint(0,2))]
                a,b=['arr',[x for x,_ in items]],[y for _,y in items]
        else:
            a,b = gen_val(f['t'], fc)
        vals.append(a); setattr(inst, fn, b)
    return ['obj', vals], inst
def tokens(elt):
    out=[]
    def walk(e):
        q = etree.QName(e)
        out.append(['S', q.namespace or '', q.localname])
        if e.get(XSI+'nil') == 'true': out.append(['NIL'])
        elif len(e)==0 and e.text is not None: out.append(['T', e.text])
        for c in e: walk(c)
        out.append(['E'])
    walk(elt); return out
def fix_leaves(a, t):
    # leaf text as the token carries it: ["T", <value tuple>] -> compare text only in this prototype
    return a
n=int(sys.argv[2]) if len(sys.argv)>2 else 300
with open('cases.ndjson','w') as f:
    for i in range(n):
        t = gen_type(2)
        while t['k']!='obj': t = gen_type(2)
        cls = to_spyne(t)
        cls.resolve_namespace(cls, 'tns')
        a, inst = gen_val(t, cls, allow_nil=False)
        elt = get_object_as_xml(inst, cls, root_tag_name='root', no_namespace=False)
        toks = tokens(elt)
        f.write(json.dumps({'id': i, 'type': t, 'value': a, 'ns': t['ns'], 'name': 'root', 'tokens': toks}) + '\n')
