---------------------------- MODULE LexDateTime ----------------------------
(* xs:dateTime literals: generator classes, rendering to code points, denotation *)
EXTENDS Naturals, Integers, Sequences, TLC, Json, SequencesExt
D2(n) == << 48 + (n \div 10), 48 + (n % 10) >>
D4(n) == << 48 + (n \div 1000), 48 + ((n \div 100) % 10), 48 + ((n \div 10) % 10), 48 + (n % 10) >>
Pow10(k) == CASE k = 0 -> 1 [] k = 1 -> 10 [] k = 2 -> 100 [] k = 3 -> 1000 [] k = 4 -> 10000 [] k = 5 -> 100000 [] k = 6 -> 1000000
\* fraction given as a digit sequence (values 0..9), at most 6 digits here
RECURSIVE Num(_)
Num(ds) == IF ds = <<>> THEN 0 ELSE 10 * Num(SubSeq(ds, 1, Len(ds) - 1)) + ds[Len(ds)]
Micro(ds) == Num(ds) * Pow10(6 - Len(ds))
Zones == {[k |-> "none", sg |-> 1, hh |-> 0, mm |-> 0], [k |-> "Z", sg |-> 1, hh |-> 0, mm |-> 0]}
         \cup {[k |-> "off", sg |-> sg, hh |-> hh, mm |-> mm] :
                 sg \in {1, -1}, hh \in 0..14, mm \in 0..59}
Fracs == { <<>>, <<5>>, <<0, 0, 0, 0, 0, 5>>, <<1, 2, 3>>, <<9, 9, 9, 9, 9, 9>>, <<0, 5, 0>> }
Cases == { [y |-> 2020, mo |-> 2, d |-> 29, h |-> 23, mi |-> 59, s |-> 58, fr |-> fr, z |-> z] :
             fr \in Fracs, z \in {zz \in Zones : zz.k # "off" \/ zz.hh < 14 \/ zz.mm = 0} }
Lit(c) == D4(c.y) \o <<45>> \o D2(c.mo) \o <<45>> \o D2(c.d) \o <<84>> \o D2(c.h) \o <<58>> \o D2(c.mi) \o <<58>> \o D2(c.s)
          \o (IF c.fr = <<>> THEN <<>> ELSE <<46>> \o [i \in 1..Len(c.fr) |-> 48 + c.fr[i]])
          \o (CASE c.z.k = "none" -> <<>> [] c.z.k = "Z" -> <<90>>
                [] c.z.k = "off" -> << IF c.z.sg = 1 THEN 43 ELSE 45 >> \o D2(c.z.hh) \o <<58>> \o D2(c.z.mm))
Denote(c) == [y |-> c.y, mo |-> c.mo, d |-> c.d, h |-> c.h, mi |-> c.mi, s |-> c.s, us |-> Micro(c.fr),
              off |-> IF c.z.k = "none" THEN 9999 ELSE c.z.sg * (60 * c.z.hh + c.z.mm)]
Row(c) == [lit |-> Lit(c), val |-> Denote(c), zone |-> c.z.k]
ASSUME JsonSerialize("cases.json", SetToSeq({Row(c) : c \in Cases}))
VARIABLE x
Spec == x = 0 /\ [][UNCHANGED x]_x
=============================================================================
