SPECIFICATION Spec
