import logging; logging.disable(logging.CRITICAL)
import warnings; warnings.simplefilter('ignore')
import json, collections
from spyne.protocol.xml import XmlDocument
from spyne.protocol.soap import Soap11
from spyne.model import DateTime
rows = json.load(open('cases.json'))
print(len(rows), 'cases')
for P in (XmlDocument, Soap11):
    p = P()
    bad = collections.Counter(); ex = {}
    for r in rows:
        lit = ''.join(map(chr, r['lit'])); e = r['val']
        try:
            v = p.from_unicode(DateTime, lit)
            off = 9999 if v.utcoffset() is None else int(v.utcoffset().total_seconds() // 60)
            got = dict(y=v.year, mo=v.month, d=v.day, h=v.hour, mi=v.minute, s=v.second, us=v.microsecond, off=off)
        except Exception as x:
            got = 'EXC ' + type(x).__name__
        if got != e:
            sg = '-' if (e['off'] < 0 or (r['zone']=='off' and lit[-6]=='-')) else '+'
            key = ('in', r['zone'], sg, 'mm=0' if lit.endswith(':00') else 'mm!=0', 'us' if isinstance(got, dict) and got['us'] != e['us'] else 'off' if isinstance(got, dict) else got)
            bad[key] += 1; ex.setdefault(key, (lit, e, got))
        # out: print the denoted value and read back
    print(P.__name__, 'from_unicode mismatches:', sum(bad.values()))
    for k, n in sorted(bad.items()): print('   ', n, k, ex[k][0], 'expected off', ex[k][1]['off'], 'got', ex[k][2]['off'] if isinstance(ex[k][2], dict) else ex[k][2])
