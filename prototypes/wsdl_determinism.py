import logging; logging.disable(logging.CRITICAL)
import warnings; warnings.simplefilter('ignore')
import hashlib, sys
from io import BytesIO
from spyne import Application, Service, srpc, Integer, Unicode, ComplexModel, Array, Fault
from spyne.protocol.soap import Soap11
from spyne.server.wsgi import WsgiApplication
class A(ComplexModel):
    __namespace__='ns.alpha'; a = Integer
class B(ComplexModel):
    __namespace__='ns.beta'; b = Integer
class G(ComplexModel):
    __namespace__='ns.gamma'; g = Integer
class D(ComplexModel):
    __namespace__='ns.delta'; d = Integer
class Top(ComplexModel):
    __namespace__='ns.top'
    a = A; b = B; g = G; d = D
class MyFault(Fault):
    __namespace__='tns'
class S(Service):
    @srpc(Top, A, B, G, D, _returns=Top, _throws=[MyFault])
    def f(t, a, b, g, d): return t
class S2(Service):
    @srpc(Integer, _returns=Array(D))
    def h(i): return []
app = Application([S, S2], 'tns', in_protocol=Soap11(), out_protocol=Soap11())
w = WsgiApplication(app)
env = {'REQUEST_METHOD': 'GET', 'PATH_INFO': '/', 'QUERY_STRING': 'wsdl', 'wsgi.input': BytesIO(b''),'wsgi.url_scheme':'http','SERVER_NAME':'x','SERVER_PORT':'80'}
doc = b''.join(w(env, lambda s,h,e=None: None))
print(hashlib.sha1(doc).hexdigest(), len(doc))
if len(sys.argv)>1: open(sys.argv[1],'wb').write(doc)
