"""Deterministic structure-aware mutation sweep: count distinct escape / Server-fault sites."""
import logging; logging.disable(logging.CRITICAL)
import warnings; warnings.simplefilter('ignore')
import json, yaml, msgpack, collections, traceback, random, copy, datetime, decimal, sys
from io import BytesIO
from spyne import Application, Service, srpc, Integer, Unicode, ComplexModel, Array, Boolean, Date, DateTime, Time, Duration, Decimal, Double, ByteArray, Uuid
from spyne.protocol.soap import Soap11, Soap12
from spyne.protocol.xml import XmlDocument
from spyne.protocol.json import JsonDocument
from spyne.protocol.yaml import YamlDocument
from spyne.protocol.msgpack import MessagePackDocument, MessagePackRpc
from spyne.protocol.http import HttpRpc
from spyne.server.wsgi import WsgiApplication
from lxml import etree

RAN=[]
def mkapp(inp):
    class C(ComplexModel):
        __namespace__='tns'
        i = Integer; s = Unicode; d = Decimal; f = Double; b = Boolean
        dt = DateTime; da = Date; t = Time; du = Duration; by = ByteArray; u = Uuid
        arr = Array(Integer); m = Integer(max_occurs='unbounded')
    class S(Service):
        @srpc(C, Integer, Array(C), _returns=Integer)
        def f(c, n, cs):
            RAN.append(1); return 1
    return WsgiApplication(Application([S], 'tns', in_protocol=inp, out_protocol=JsonDocument()))
VAL = {'i':'5','s':'x','d':'1.5','f':'2.5','b':'true','dt':'2020-01-02T03:04:05Z','da':'2020-01-02','t':'03:04:05','du':'P1DT2S','by':'AAEC','u':'12345678-1234-1234-1234-123456789abc'}
HOSTILE = ['', ' ', 'abc', '-', '1e999', '9'*400, '2020-13-45', '2020-01-01T25:61:61', '24:00:00', 'P', 'PT', 'P1Y2M3DT4H5M6.7S', '-P1D', '!!!!', 'A', 'AAE', 'zz', 'true', 'null', '\u0000', '\ud800'.encode('utf-8','surrogatepass').decode('utf-8','replace'), '1_0', '٣', 'NaN', 'INF', '0x10', '1.5.5', '--1', '+', '12345678-1234-1234-1234-123456789abcX', '2020-01-01T00:00:00+99:99', '2020-01-01T00:00:00-00:60', '0000-00-00', '10000-01-01']
E11='http://schemas.xmlsoap.org/soap/envelope/'
def xml_c(vals, tag='c'):
    inner=''.join('<tns:%s>%s</tns:%s>'%(k,v,k) for k,v in vals.items())
    inner+='<tns:arr><tns:integer>1</tns:integer></tns:arr><tns:m>1</tns:m><tns:m>2</tns:m>'
    return '<tns:%s>%s</tns:%s>'%(tag,inner,tag)
def xml_req(vals): return '<tns:f xmlns:tns="tns">%s<tns:n>5</tns:n><tns:cs>%s</tns:cs></tns:f>'%(xml_c(vals), xml_c(vals,'C'))
def site(tb):
    fr=[f for f in traceback.extract_tb(tb) if '/repo/spyne/' in f.filename]
    f=fr[-1] if fr else traceback.extract_tb(tb)[-1]
    return '%s:%s'%(f.filename.split('/repo/')[-1], f.name)
def call(w, env_extra, body):
    del RAN[:]
    env = {'REQUEST_METHOD': 'POST', 'PATH_INFO': '/', 'QUERY_STRING': '', 'CONTENT_TYPE': 'text/xml',
           'wsgi.input': BytesIO(body), 'wsgi.url_scheme':'http','SERVER_NAME':'x','SERVER_PORT':'80', 'CONTENT_LENGTH': str(len(body))}
    env.update(env_extra); st=[]
    try: out=b''.join(w(env, lambda s,h,e=None: st.append(s)))
    except Exception as e:
        return ('ESC', type(e).__name__, site(sys.exc_info()[2]))
    if st and st[0].startswith('5'):
        return ('5xx', st[0][:3], out[:60])
    return None
found=collections.defaultdict(list); n=0
def record(fam, r, what):
    if r: found[(fam,)+r[:3]].append(what)
def mutations_xml(doc_bytes):
    yield 'orig', doc_bytes
    for k in range(0, len(doc_bytes), 7): yield 'trunc%d'%k, doc_bytes[:k]
    t = etree.fromstring(doc_bytes)
    elems = list(t.iter())
    for idx in range(len(elems)):
        for op in ('delete','dup','rename','text2elt','empty','nil','attr','move_up'):
            t2 = etree.fromstring(doc_bytes); e = list(t2.iter())[idx]; p = e.getparent()
            try:
                if op=='delete' and p is not None: p.remove(e)
                elif op=='dup' and p is not None: p.append(copy.deepcopy(e))
                elif op=='rename': e.tag = '{tns}zz'
                elif op=='text2elt': e.text=None; etree.SubElement(e,'{tns}q').text='1'
                elif op=='empty':
                    for c in list(e): e.remove(c)
                    e.text=None
                elif op=='nil': e.set('{http://www.w3.org/2001/XMLSchema-instance}nil','true')
                elif op=='attr': e.set('{http://www.w3.org/2001/XMLSchema-instance}type','xs:string'); 
                elif op=='move_up' and p is not None and p.getparent() is not None: p.getparent().append(e)
                else: continue
            except Exception: continue
            yield '%s@%d'%(op,idx), etree.tostring(t2)
def sweep_xml(fam, mk, wrap):
    global n
    w = mkapp(mk())
    for k in VAL:
        for h in HOSTILE:
            v=dict(VAL); v[k]=h.replace('&','&amp;').replace('<','&lt;')
            try: body = wrap(xml_req(v)).encode()
            except Exception: continue
            n+=1; record(fam, call(w, {}, body), 'leaf %s=%r'%(k,h))
    for name, b in mutations_xml(wrap(xml_req(VAL)).encode()):
        n+=1; record(fam, call(w, {}, b), name)
def jreq(vals): 
    c=dict(vals); c['i']=5; c['f']=2.5; c['b']=True; c['arr']=[1]; c['m']=[1,2]
    return {'f': {'c': c, 'n': 5, 'cs': [c]}}
def mutate_tree(d):
    # yield mutated deep copies: replace each node by each alien kind; delete; 
    paths=[]
    def walk(x,p):
        paths.append(p)
        if isinstance(x,dict):
            for k in x: walk(x[k], p+[k])
        elif isinstance(x,list):
            for i,_ in enumerate(x): walk(x[i], p+[i])
    walk(d,[])
    for p in paths:
        if not p: 
            for alien in ([], 5, 'x', None, {}, {'a':1,'b':2}): yield 'root=%r'%(alien,), alien
            continue
        for alien in ([], {}, 5, -1, 1.5, 'x', '', None, True, [1,[2]], {'q':1}, [None], 2**70, 'é'*3):
            d2=copy.deepcopy(d); x=d2
            for k in p[:-1]: x=x[k]
            x[p[-1]]=alien
            yield '%s=%r'%(p,alien), d2
        d2=copy.deepcopy(d); x=d2
        for k in p[:-1]: x=x[k]
        del x[p[-1]]
        yield 'del %s'%p, d2
def sweep_dict(fam, mk, dump, ctype):
    global n
    w = mkapp(mk())
    for k in VAL:
        for h in HOSTILE:
            v=dict(VAL); v[k]=h
            try: body=dump(jreq(v))
            except Exception: continue
            n+=1; record(fam, call(w, {'CONTENT_TYPE':ctype}, body), 'leaf %s=%r'%(k,h))
    for name, d in mutate_tree(jreq(VAL)):
        try: body=dump(d)
        except Exception: continue
        n+=1; record(fam, call(w, {'CONTENT_TYPE':ctype}, body), name)
    good=dump(jreq(VAL))
    for k in range(0,len(good),5):
        n+=1; record(fam, call(w, {'CONTENT_TYPE':ctype}, good[:k]), 'trunc%d'%k)
def sweep_http():
    global n
    w = mkapp(HttpRpc(validator='soft'))
    from urllib.parse import quote
    base = [('c.'+k, v) for k,v in VAL.items()] + [('n','5'),('c.arr','1'),('c.m','1'),('cs[0].i','1')]
    for k in VAL:
        for h in HOSTILE:
            q='&'.join('%s=%s'%(a, quote(h if a=='c.'+k else b)) for a,b in base)
            n+=1; record('http', call(w, {'REQUEST_METHOD':'GET','PATH_INFO':'/f','QUERY_STRING':q}, b''), 'leaf %s=%r'%(k,h))
    for q in ['c=1','c.i.x=1','cs[x].i=1','cs[-1].i=1','cs[99999999999999999999].i=1','cs[0]=1','c.arr[0]=1','c.m[1]=1','n=1&n=2','=1','&&&','c.i','cs[0].i[0]=1','cs[1].i=1&cs[0].i=2','%ff=1','n=%ff','c.s=%ud800']:
        n+=1; record('http', call(w, {'REQUEST_METHOD':'GET','PATH_INFO':'/f','QUERY_STRING':q}, b''), q)
for val in ('soft', None):
    sweep_xml('xml/%s'%val, lambda: XmlDocument(validator=val), lambda b: b)
    sweep_xml('soap11/%s'%val, lambda: Soap11(validator=val), lambda b: '<e:Envelope xmlns:e="%s" xmlns:tns="tns"><e:Body>%s</e:Body></e:Envelope>'%(E11,b.replace(' xmlns:tns="tns"','')))
    sweep_dict('json/%s'%val, lambda: JsonDocument(validator=val), lambda d: json.dumps(d).encode(), 'application/json')
    sweep_dict('yaml/%s'%val, lambda: YamlDocument(validator=val), lambda d: yaml.safe_dump(d).encode(), 'text/yaml')
    sweep_dict('msgpack/%s'%val, lambda: MessagePackDocument(validator=val), lambda d: msgpack.packb({k.encode(): v for k,v in d.items()} if isinstance(d,dict) else d), 'application/x-msgpack')
sweep_http()
print(n, 'requests;', len(found), 'distinct (family, kind, type, site) classes')
agg=collections.defaultdict(set)
for (fam,kind,typ,st),ex in found.items(): agg[(kind,typ,str(st))].add(fam.split('/')[0])
for k,v in sorted(agg.items(), key=lambda kv: str(kv)): print('  ', k, sorted(v))
print(len(agg), 'distinct sites across families')
