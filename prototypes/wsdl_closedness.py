import logging; logging.disable(logging.CRITICAL)
import warnings; warnings.simplefilter('ignore')
from io import BytesIO
from lxml import etree
from spyne import Application, Service, srpc, rpc, Integer, Unicode, ComplexModel, Array, Fault, Decimal, DateTime, ByteArray, Uuid, XmlAttribute
from spyne.model.enum import Enum
from spyne.protocol.soap import Soap11, Soap12
from spyne.server.wsgi import WsgiApplication
XS='http://www.w3.org/2001/XMLSchema'; WSDL='http://schemas.xmlsoap.org/wsdl/'
def q(e, v):
    if ':' in v: p, l = v.split(':', 1)
    else: p, l = None, v
    return (e.nsmap.get(p), l)
def check(doc):
    t = etree.fromstring(doc); problems=[]
    tns = t.get('targetNamespace')
    defs = {'type': set(), 'element': set(), 'message': set(), 'portType': set(), 'binding': set()}
    for sch in t.iter('{%s}schema' % XS):
        sns = sch.get('targetNamespace')
        for c in sch:
            tag = etree.QName(c).localname
            if tag in ('complexType', 'simpleType'): defs['type'].add((sns, c.get('name')))
            if tag == 'element': defs['element'].add((sns, c.get('name')))
    for k in ('message', 'portType', 'binding'):
        for m in t.findall('{%s}%s' % (WSDL, k)): 
            key=(tns, m.get('name'))
            if key in defs[k]: problems.append(('duplicate '+k, key))
            defs[k].add(key)
    def ref(kind, e, attr):
        v = e.get(attr)
        if v is None: return
        ns, l = q(e, v)
        if kind == 'type' and ns == XS: return
        if ns is None: problems.append(('unbound prefix', kind, v)); return
        if (ns, l) not in defs[kind]: problems.append(('unresolved', kind, v, ns))
    for e in t.iter():
        tag = etree.QName(e).localname; ens = etree.QName(e).namespace
        if ens == XS:
            if tag in ('element', 'attribute'): ref('type', e, 'type'); ref('element', e, 'ref')
            if tag in ('extension', 'restriction'): ref('type', e, 'base')
        if ens == WSDL:
            if tag == 'part': ref('element', e, 'element')
            if tag in ('input', 'output', 'fault') and etree.QName(e.getparent()).localname == 'operation' and etree.QName(e.getparent().getparent()).localname == 'portType': ref('message', e, 'message')
            if tag == 'binding' and e.get('type'): ref('portType', e, 'type')
            if tag == 'port': ref('binding', e, 'binding')
        if tag == 'header' and e.get('message'): ref('message', e, 'message')
    # imports vs used namespaces per schema
    for sch in t.iter('{%s}schema' % XS):
        sns = sch.get('targetNamespace'); imps = {i.get('namespace') for i in sch.findall('{%s}import' % XS)}
        used=set()
        for e in sch.iter():
            for a in ('type','base','ref'):
                v=e.get(a)
                if v: 
                    ns,l=q(e,v)
                    if ns not in (XS, sns, None): used.add(ns)
        if used - imps: problems.append(('missing import', sns, sorted(used-imps)))
    ops = [(o.get('name')) for pt in t.findall('{%s}portType' % WSDL) for o in pt.findall('{%s}operation' % WSDL)]
    bops = [(o.get('name')) for b in t.findall('{%s}binding' % WSDL) for o in b.findall('{%s}operation' % WSDL)]
    return problems, sorted(ops), sorted(bops)
def wsdl_of(app):
    w = WsgiApplication(app)
    env = {'REQUEST_METHOD': 'GET', 'PATH_INFO': '/', 'QUERY_STRING': 'wsdl', 'wsgi.input': BytesIO(b''),'wsgi.url_scheme':'http','SERVER_NAME':'x','SERVER_PORT':'80'}
    return b''.join(w(env, lambda s,h,e=None: None))
def app1():
    class H1(ComplexModel): __namespace__='ns.h'; tok=Unicode
    class H2(ComplexModel): __namespace__='tns'; sid=Integer
    class A(ComplexModel): __namespace__='ns.a'; a=Integer; at=XmlAttribute(Unicode)
    class B(A): __namespace__='ns.b'; b=Decimal(5,2)
    class C(ComplexModel): __namespace__='tns'; bs=Array(B); e=Enum('x','y',type_name='E'); u=Uuid; s=Unicode(max_len=5, pattern='a+'); i=Integer(ge=1, le=9)
    class F1(Fault): __namespace__='tns'
    class F2(Fault): __namespace__='ns.f'
    class S1(Service):
        __in_header__=(H1,H2)
        @rpc(C, A, _returns=[B, Integer], _throws=[F1, F2], _out_header=H2)
        def f(ctx, c, a): pass
        @rpc(B, _returns=B, _body_style='bare')
        def g(ctx, b): pass
        @rpc(_returns=Array(C), _operation_name='op2')
        def h(ctx): pass
    class S2(Service):
        @srpc(Integer(max_occurs='unbounded'), _returns=Integer, _in_message_name='custom_in', _out_message_name='custom_out')
        def k(i): pass
    return Application([S1, S2], 'tns', name='App', in_protocol=Soap11(), out_protocol=Soap11())
def app2():
    class S(Service):
        __port_types__=('P1','P2')
        @srpc(Integer, _returns=Integer, _port_type='P1')
        def a(i): pass
        @srpc(Integer, _returns=Integer, _port_type='P2')
        def b(i): pass
    return Application([S], 'tns', in_protocol=Soap12(), out_protocol=Soap12())
for mk in (app1, app2):
    doc = wsdl_of(mk())
    pr, ops, bops = check(doc)
    print(mk.__name__, len(doc), 'bytes; portType ops', ops, 'binding ops', bops)
    for p in pr: print('    PROBLEM', p)
