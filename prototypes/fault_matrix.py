import logging; logging.disable(logging.CRITICAL)
import warnings; warnings.simplefilter('ignore')
import json, yaml, msgpack
from io import BytesIO
from lxml import etree
from spyne import Application, Service, srpc, Integer, Unicode, Fault
from spyne.error import ResourceNotFoundError, InvalidCredentialsError, RequestNotAllowed, RequestTooLongError, ArgumentError, ValidationError, InternalError, ResourceAlreadyExistsError
from spyne.protocol.soap import Soap11, Soap12
from spyne.protocol.xml import XmlDocument
from spyne.protocol.json import JsonDocument
from spyne.protocol.yaml import YamlDocument
from spyne.protocol.msgpack import MessagePackDocument, MessagePackRpc
from spyne.protocol.http import HttpRpc
from spyne.server.wsgi import WsgiApplication
SECRET='S3CR3T-TOKEN-9f2'
class MyFault(Fault):
    __namespace__='tns'
    extra = Unicode
class Hostile(RuntimeError):
    def __str__(self): return 'str-'+SECRET
    def __repr__(self): return 'repr-'+SECRET
def raiser(k):
    if k==0: raise Fault('Client.A.B', 'mésságe <&>', detail={'k': {'j': 'v'}, 'n': 'x'})
    if k==1: raise Fault('Server.Q', 'srv')
    if k==2: raise ResourceNotFoundError('thing')
    if k==3: raise InvalidCredentialsError()
    if k==4: raise RequestNotAllowed('no')
    if k==5: raise RequestTooLongError()
    if k==6: raise Hostile(SECRET)
    if k==7: raise KeyError(SECRET)
    if k==8: f = MyFault('Client.Mine', 'mine'); f.extra = 'ex'; raise f
    if k==9: raise Fault('Client', 'plain', faultactor='actor-uri')
    if k==10:
        try: raise ValueError(SECRET)
        except ValueError as e: raise RuntimeError('outer') from e
def mk(outp):
    class S(Service):
        @srpc(Integer, _returns=Integer, _throws=[MyFault])
        def f(a): raiser(a); return 1
    return WsgiApplication(Application([S], 'tns', in_protocol=HttpRpc(), out_protocol=outp))
def call(w, a):
    env = {'REQUEST_METHOD': 'GET', 'PATH_INFO': '/f', 'QUERY_STRING': 'a=%d'%a, 'wsgi.input': BytesIO(b''), 'wsgi.url_scheme':'http','SERVER_NAME':'x','SERVER_PORT':'80'}
    st=[]
    try: out=b''.join(w(env, lambda s,h,e=None: st.append((s,h))))
    except Exception as e: return 'ESC %s: %s' % (type(e).__name__, e), b'', []
    return st[0][0], out, st[0][1]
for name, outp in [('xml', XmlDocument), ('soap11', Soap11), ('soap12', Soap12), ('json', JsonDocument), ('yaml', YamlDocument), ('msgpack', MessagePackDocument), ('mprpc', MessagePackRpc), ('http', HttpRpc)]:
    print('==', name)
    for k in range(11):
        w = mk(outp())
        st, out, hdrs = call(w, k)
        leak = SECRET.encode() in out or any(SECRET in str(h) for h in hdrs)
        show = out
        if name in ('msgpack','mprpc') and out:
            try: show = msgpack.unpackb(out, raw=False, strict_map_key=False)
            except Exception as e: show = out
        print('  %2d %-28s leak=%s %s' % (k, st[:28], leak, str(show)[:230].replace('\n',' ')))
