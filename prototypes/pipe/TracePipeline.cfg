SPECIFICATION TSpec
CONSTANT Deviations = {}
CONSTRAINT Report
CHECK_DEADLOCK FALSE
