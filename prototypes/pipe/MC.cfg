SPECIFICATION Spec
CONSTANT Deviations = {}
INVARIANT CreatedFirst
INVARIANT CreatedOnce
INVARIANT ClosedOnce
INVARIANT ClosedLast
INVARIANT FnAtMostOnce
INVARIANT FnAfterCall
INVARIANT RetObjIffRet
INVARIANT ExcObjIffFault
INVARIANT DocStrMatch
INVARIANT SrOnce
INVARIANT CloseAfterBody
INVARIANT NoFnOnInFault
INVARIANT StatusOk
PROPERTY Terminates
CHECK_DEADLOCK FALSE
