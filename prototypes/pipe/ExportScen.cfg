SPECIFICATION Spec
CONSTANT Deviations = {}
CHECK_DEADLOCK FALSE
