---------------------------- MODULE SpynePipeline ----------------------------
(* One request through WsgiApplication.handle_rpc / handle_error / __finalize,
   ServerBase.generate_contexts / get_in_object / get_out_object /
   get_out_string_pull / finalize_context, Application.process_request and
   MethodContext.__init__ / close.  One action per block of the code.        *)
EXTENDS Naturals, Sequences, FiniteSets, TLC

CONSTANTS Deviations      \* set of named deviations of the code from the design

\* ------------------------------------------------------------------ scenario
NoAbort == 99
Families  == {"xml", "soap11", "json", "http"}
ReqClass  == {"valid", "badsyntax", "badenvelope", "unknown", "badargs", "toolong"}
Outcome   == {"ok", "fault_client", "fault_server", "exc"}
SerOut    == {"ok", "exc"}

VARIABLES
  cfg,     \* [family, chunked]
  req,     \* request class
  inj,     \* [call, fn, ret, ser] outcomes of listener/function/listener/serialise
  pc, ev, fnRuns, inErr, outErr, bound,   \* bound: descriptor bound to ctx?
  sr, status, handed, chunks, closed, wclosed, abort

vars == <<cfg, req, inj, pc, ev, fnRuns, inErr, outErr, bound,
          sr, status, handed, chunks, closed, wclosed, abort>>
scen == <<cfg, req, inj, abort>>

Scenarios ==
  { s \in [cfg : [family : Families, chunked : BOOLEAN],
           req : ReqClass,
           inj : [call : Outcome, fn : Outcome, ret : Outcome, ser : SerOut],
           abort : {NoAbort, 0, 1}] :
      \* injections only matter on the path that reaches them; prune the rest
      /\ (s.req # "valid" => s.inj = [call |-> "ok", fn |-> "ok", ret |-> "ok", ser |-> "ok"])
      /\ (s.inj.call # "ok" => s.inj.fn = "ok" /\ s.inj.ret = "ok" /\ s.inj.ser = "ok")
      /\ (s.inj.fn # "ok" => s.inj.ret = "ok" /\ s.inj.ser = "ok")
      /\ (s.inj.ret # "ok" => s.inj.ser = "ok")
      /\ (s.inj.ser # "ok" => s.cfg.family \in {"xml", "soap11"})   \* eager serialisers only
      /\ (s.req = "badenvelope" => s.cfg.family = "soap11")
      /\ (s.req = "toolong" => s.cfg.family # "http") }

Init ==
  /\ \E s \in Scenarios : cfg = s.cfg /\ req = s.req /\ inj = s.inj /\ abort = s.abort
  /\ pc = "new" /\ ev = <<>> /\ fnRuns = 0 /\ inErr = "none" /\ outErr = "none"
  /\ bound = FALSE /\ sr = 0 /\ status = 0 /\ handed = FALSE /\ chunks = 0
  /\ closed = 0 /\ wclosed = 0

\* ------------------------------------------------------------------- helpers
Emit(m, n) == ev' = Append(ev, <<m, n>>)
\* ctx.fire_event: application manager, then the descriptor's managers (if bound)
Fire(n) == ev' = ev \o (IF bound THEN << <<"app", n>>, <<"svc", n>> >> ELSE << <<"app", n>> >>)
\* a raising listener on the application manager stops the remaining managers
FireBroken(n) == ev' = Append(ev, <<"app", n>>)

FaultOf(o) == CASE o = "fault_client" -> "Client.Custom"
                [] o = "fault_server" -> "Server.Custom"
                [] o = "exc"          -> "Server"        \* generic Internal Error
Status(f) ==
  IF cfg.family = "soap11" THEN 500
  ELSE CASE f = "Client.RequestTooLong"   -> 413
         [] f = "Client.ResourceNotFound" -> 404
         [] f \in {"Client.Custom", "Client.Syntax", "Client.Envelope",
                   "Client.ValidationError"} -> 400
         [] OTHER -> 500
UNCH(v) == UNCHANGED v

\* -------------------------------------------------------------------- actions
CtxCreate ==
  /\ pc = "new" /\ Emit("app", "method_context_created") /\ pc' = "created"
  /\ UNCH(<<scen, fnRuns, inErr, outErr, bound, sr, status, handed, chunks, closed, wclosed>>)

WsgiCall ==
  /\ pc = "created" /\ Emit("wsgi", "wsgi_call") /\ pc' = "parse"
  /\ UNCH(<<scen, fnRuns, inErr, outErr, bound, sr, status, handed, chunks, closed, wclosed>>)

\* generate_contexts: create_in_document, decompose_incoming_envelope,
\* generate_method_contexts; any Fault ends in the `except Fault` arm.
GenContextsOk ==
  /\ pc = "parse" /\ req \in {"valid", "badargs"}
  /\ bound' = TRUE /\ pc' = "deser"
  /\ UNCH(<<scen, ev, fnRuns, inErr, outErr, sr, status, handed, chunks, closed, wclosed>>)

GenContextsFail ==
  /\ pc = "parse" /\ req \in {"badsyntax", "badenvelope", "unknown", "toolong"}
  /\ inErr' = CASE req = "badsyntax"   -> "Client.Syntax"
                [] req = "badenvelope" -> "Client.Envelope"
                [] req = "unknown"     -> "Client.ResourceNotFound"
                [] req = "toolong"     -> "Client.RequestTooLong"
  /\ outErr' = inErr'
  /\ Fire("method_exception_object")          \* descriptor not bound: app only
  /\ pc' = "error"
  /\ UNCH(<<scen, fnRuns, bound, sr, status, handed, chunks, closed, wclosed>>)

DeserOk ==
  /\ pc = "deser" /\ req = "valid" /\ pc' = "call"
  /\ UNCH(<<scen, ev, fnRuns, inErr, outErr, bound, sr, status, handed, chunks, closed, wclosed>>)

DeserFail ==
  /\ pc = "deser" /\ req = "badargs"
  /\ inErr' = "Client.ValidationError" /\ outErr' = inErr'
  /\ Fire("method_exception_object") /\ pc' = "error"
  /\ UNCH(<<scen, fnRuns, bound, sr, status, handed, chunks, closed, wclosed>>)

\* process_request: everything below runs inside its try block
EvMethodCall ==
  /\ pc = "call"
  /\ IF inj.call = "ok"
       THEN /\ Fire("method_call") /\ pc' = "fn" /\ UNCH(outErr)
       ELSE /\ FireBroken("method_call") /\ outErr' = FaultOf(inj.call) /\ pc' = "excobj"
  /\ UNCH(<<scen, fnRuns, inErr, bound, sr, status, handed, chunks, closed, wclosed>>)

CallFn ==
  /\ pc = "fn" /\ fnRuns' = fnRuns + 1 /\ Emit("fn", "call")
  /\ IF inj.fn = "ok" THEN pc' = "retobj" /\ UNCH(outErr)
                      ELSE pc' = "excobj" /\ outErr' = FaultOf(inj.fn)
  /\ UNCH(<<scen, inErr, bound, sr, status, handed, chunks, closed, wclosed>>)

EvReturnObject ==
  /\ pc = "retobj"
  /\ IF inj.ret = "ok"
       THEN /\ Fire("method_return_object") /\ pc' = "serialize" /\ UNCH(outErr)
       ELSE /\ FireBroken("method_return_object") /\ outErr' = FaultOf(inj.ret) /\ pc' = "excobj"
  /\ UNCH(<<scen, fnRuns, inErr, bound, sr, status, handed, chunks, closed, wclosed>>)

EvExceptionObject ==
  /\ pc = "excobj" /\ Fire("method_exception_object") /\ pc' = "error"
  /\ UNCH(<<scen, fnRuns, inErr, outErr, bound, sr, status, handed, chunks, closed, wclosed>>)

\* handle_rpc success arm: get_out_string inside try/except Exception
SerializeOk ==
  /\ pc = "serialize" /\ inj.ser = "ok" /\ status' = 200 /\ pc' = "retdoc"
  /\ UNCH(<<scen, ev, fnRuns, inErr, outErr, bound, sr, handed, chunks, closed, wclosed>>)

SerializeFail ==
  /\ pc = "serialize" /\ inj.ser = "exc" /\ outErr' = "Server" /\ status' = 200
  /\ IF "NoExcObjOnSerFail" \in Deviations
       THEN pc' = "error" /\ UNCH(ev)                    \* what wsgi.py:459-463 does
       ELSE pc' = "error" /\ Fire("method_exception_object")   \* what C14 demands
  /\ UNCH(<<scen, fnRuns, inErr, bound, sr, handed, chunks, closed, wclosed>>)

EvReturnDocString ==     \* finalize_context on the success arm
  /\ pc = "retdoc"
  /\ ev' = ev \o << <<"app", "method_return_document">>, <<"svc", "method_return_document">>,
                    <<"app", "method_return_string">>,   <<"svc", "method_return_string">>,
                    <<"wsgi", "wsgi_return">> >>
  /\ pc' = "respond"
  /\ UNCH(<<scen, fnRuns, inErr, outErr, bound, sr, status, handed, chunks, closed, wclosed>>)

\* handle_error: resp_code, get_out_string (fault), wsgi_exception
HandleError ==
  /\ pc = "error"
  /\ status' = (IF status = 0 THEN Status(outErr) ELSE status)   \* resp_code kept if already set
  /\ ev' = ev \o (IF bound
        THEN << <<"app", "method_exception_document">>, <<"svc", "method_exception_document">>,
                <<"app", "method_exception_string">>,   <<"svc", "method_exception_string">> >>
        ELSE << <<"app", "method_exception_document">>, <<"app", "method_exception_string">> >>)
         \o << <<"wsgi", "wsgi_exception">> >>
  /\ pc' = "respond"
  /\ UNCH(<<scen, fnRuns, inErr, outErr, bound, sr, handed, chunks, closed, wclosed>>)

NonChunkedJoinCrash ==      \* wsgi.py: p_ctx.out_string = [''.join(p_ctx.out_string)]
  /\ "NonChunkedStrJoin" \in Deviations
  /\ pc = "respond" /\ ~cfg.chunked /\ outErr = "none"
  /\ Emit("escape", "TypeError") /\ pc' = "crashed"
  /\ UNCH(<<scen, fnRuns, inErr, outErr, bound, sr, status, handed, chunks, closed, wclosed>>)

StartResponse ==
  /\ ~("NonChunkedStrJoin" \in Deviations /\ ~cfg.chunked /\ outErr = "none")
  /\ pc = "respond" /\ sr' = sr + 1 /\ Emit("sr", status)
  /\ pc' = IF "CloseBeforeBody" \in Deviations THEN "finalize_early" ELSE "handover"
  /\ UNCH(<<scen, fnRuns, inErr, outErr, bound, status, handed, chunks, closed, wclosed>>)

\* deviation: chain(out_string, self.__finalize(p_ctx)) evaluates __finalize eagerly
FinalizeEarly ==
  /\ pc = "finalize_early"
  /\ ev' = ev \o << <<"app", "method_context_closed">>, <<"wsgi", "wsgi_close">> >>
  /\ closed' = closed + 1 /\ wclosed' = wclosed + 1 /\ pc' = "handover"
  /\ UNCH(<<scen, fnRuns, inErr, outErr, bound, sr, status, handed, chunks>>)

HandOver ==
  /\ pc = "handover" /\ handed' = TRUE /\ pc' = "body" /\ Emit("io", "handover")
  /\ UNCH(<<scen, fnRuns, inErr, outErr, bound, sr, status, chunks, closed, wclosed>>)

Chunk ==        \* one body chunk is enough for the abstraction
  /\ pc = "body" /\ chunks = 0 /\ abort # 0
  /\ chunks' = 1 /\ Emit("io", "chunk")
  /\ UNCH(<<scen, pc, fnRuns, inErr, outErr, bound, sr, status, handed, closed, wclosed>>)

BodyEnd ==      \* iterator exhausted, or the server calls close() after `abort` chunks
  /\ pc = "body" /\ (chunks = 1 \/ abort = 0)
  /\ pc' = (IF closed = 0 THEN "finalize" ELSE "done") /\ Emit("io", "iterclose")
  /\ UNCH(<<scen, fnRuns, inErr, outErr, bound, sr, status, handed, chunks, closed, wclosed>>)

Finalize ==
  /\ pc = "finalize"
  /\ ev' = ev \o << <<"app", "method_context_closed">>, <<"wsgi", "wsgi_close">> >>
  /\ closed' = closed + 1 /\ wclosed' = wclosed + 1 /\ pc' = "done"
  /\ UNCH(<<scen, fnRuns, inErr, outErr, bound, sr, status, handed, chunks>>)

Next == \/ CtxCreate \/ WsgiCall \/ GenContextsOk \/ GenContextsFail \/ DeserOk \/ DeserFail
        \/ EvMethodCall \/ CallFn \/ EvReturnObject \/ EvExceptionObject
        \/ SerializeOk \/ SerializeFail \/ EvReturnDocString \/ HandleError
        \/ NonChunkedJoinCrash \/ StartResponse \/ FinalizeEarly \/ HandOver \/ Chunk \/ BodyEnd \/ Finalize

Spec == Init /\ [][Next]_vars /\ WF_vars(Next)

\* ----------------------------------------------------------------- properties
Names(m)   == SelectSeq(ev, LAMBDA e : e[1] = m)
Count(m,n) == Len(SelectSeq(ev, LAMBDA e : e = <<m, n>>))
Pos(m, n)  == CHOOSE i \in 1..Len(ev) : ev[i] = <<m, n>>
Has(m, n)  == \E i \in 1..Len(ev) : ev[i] = <<m, n>>
Done       == pc = "done"

\* C14
CreatedFirst   == Len(ev) > 0 => ev[1] = <<"app", "method_context_created">>
CreatedOnce    == Count("app", "method_context_created") <= 1
ClosedOnce     == Count("app", "method_context_closed") <= 1 /\ (Done => Count("app", "method_context_closed") = 1)
ClosedLast     == Done => \A i \in 1..Len(ev) :
                     (ev[i][1] \in {"app", "svc"} /\ ev[i][2] # "method_context_closed")
                        => i < Pos("app", "method_context_closed")
FnAtMostOnce   == fnRuns <= 1
FnAfterCall    == fnRuns = 1 => Has("app", "method_call")
RetObjIffRet   == Done => (Has("app", "method_return_object") <=> (fnRuns = 1 /\ inj.fn = "ok"))
ExcObjIffFault == Done => (Has("app", "method_exception_object") <=> outErr # "none")
DocStrMatch    == Done => IF outErr = "none"
                     THEN Has("app", "method_return_document") /\ Has("app", "method_return_string")
                          /\ ~Has("app", "method_exception_document")
                     ELSE Has("app", "method_exception_document") /\ Has("app", "method_exception_string")
                          /\ ~Has("app", "method_return_document") /\ ~Has("app", "method_return_string")
\* C13
SrOnce         == sr <= 1 /\ (chunks > 0 => sr = 1)
CloseAfterBody == closed = 1 => handed
\* C10 / C09
NoFnOnInFault  == inErr # "none" => fnRuns = 0
StatusOk       == (Done /\ inj.ser = "ok") => status = (IF outErr = "none" THEN 200 ELSE Status(outErr))
Terminates     == <>Done
=============================================================================
