---- MODULE ExportScen ----
EXTENDS SpynePipeline, Json, SequencesExt
ASSUME JsonSerialize("scen.json", SetToSeq(Scenarios))
====
