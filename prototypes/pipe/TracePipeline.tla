---- MODULE TracePipeline ----
EXTENDS SpynePipeline, Json, IOUtils, SequencesExt
Traces == ndJsonDeserialize(IOEnv.TRACE_FILE)
VARIABLE tid
\* observation entries arrive as JSON arrays: ["ev","app","method_call"], ["fn","call"], ["sr",400], ["io","chunk"]
Obs(t) == [i \in 1..Len(Traces[t].obs) |->
             LET o == Traces[t].obs[i] IN
               IF o[1] = "ev" THEN <<o[2], o[3]>> ELSE <<o[1], o[2]>>]
TInit ==
  /\ \E t \in 1..Len(Traces) :
       /\ tid = t
       /\ LET s == Traces[t].scen IN
            /\ cfg = s.cfg /\ req = s.req /\ inj = s.inj /\ abort = s.abort
  /\ pc = "new" /\ ev = <<>> /\ fnRuns = 0 /\ inErr = "none" /\ outErr = "none"
  /\ bound = FALSE /\ sr = 0 /\ status = 0 /\ handed = FALSE /\ chunks = 0
  /\ closed = 0 /\ wclosed = 0
TNext == Next /\ UNCHANGED tid /\ IsPrefix(ev', Obs(tid))
TSpec == TInit /\ [][TNext]_<<vars, tid>>
\* report, as a state constraint so that it is evaluated on every reachable state
Report == (pc \in {"done", "crashed"} /\ ev = Obs(tid)) => PrintT(<<"ACCEPT", Traces[tid].tid>>)
====
