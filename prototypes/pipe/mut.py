import sys, json
import drive
from spyne.server import _base
from spyne.model import Fault
# seeded fault: get_in_object no longer fires method_exception_object
def get_in_object(self, ctx):
    try:
        self.app.in_protocol.deserialize(ctx, message=self.app.in_protocol.REQUEST)
    except Fault as e:
        ctx.in_object = None; ctx.in_error = e; ctx.out_error = e
_base.ServerBase.get_in_object = get_in_object
scen = json.load(open('scen.json'))
with open('traces_mut.ndjson','w') as f:
    for i, s in enumerate(scen):
        if s['cfg']['family'] == 'http' and s['req'] == 'badsyntax': continue
        f.write(json.dumps({'tid': i, 'scen': s, 'obs': drive.run(s)}) + '\n')
