"""Prototype driver: run every scenario of SpynePipeline against real spyne, log merged traces."""
import logging; logging.disable(logging.CRITICAL)
import warnings; warnings.simplefilter('ignore')
import json, sys, itertools
from io import BytesIO
from spyne import Application, Service, srpc, rpc, Integer, Fault
from spyne.protocol.soap import Soap11
from spyne.protocol.xml import XmlDocument
from spyne.protocol.json import JsonDocument
from spyne.protocol.http import HttpRpc
from spyne.server.wsgi import WsgiApplication

EVENTS = ['method_context_created', 'method_context_closed', 'method_call',
          'method_return_object', 'method_exception_object',
          'method_return_document', 'method_exception_document',
          'method_return_string', 'method_exception_string']
WSGI_EVENTS = ['wsgi_call', 'wsgi_return', 'wsgi_exception', 'wsgi_close']


class Boom(Exception):
    pass


def outcome_raise(o):
    if o == 'fault_client': raise Fault('Client.Custom', 'c')
    if o == 'fault_server': raise Fault('Server.Custom', 's')
    if o == 'exc': raise Boom('secret')


def build(s, log):
    fam = s['cfg']['family']
    inj = s['inj']

    class S(Service):
        @srpc(Integer, _returns=Integer)
        def f(a):
            log.append(['fn', 'call'])
            outcome_raise(inj['fn'])
            if inj['ser'] == 'exc':
                return 'not-an-int'   # unserialisable for eager XML serialisers
            return a + 1

    mk = {'xml': (XmlDocument, XmlDocument), 'soap11': (Soap11, Soap11),
          'json': (JsonDocument, JsonDocument), 'http': (HttpRpc, JsonDocument)}[fam]
    inp = mk[0](validator='soft'); outp = mk[1]()
    app = Application([S], 'tns', in_protocol=inp, out_protocol=outp)

    def L(mgr, e):
        def h(ctx):
            log.append(['ev', mgr, e])
            if mgr == 'app' and e == 'method_call': outcome_raise(inj['call'])
            if mgr == 'app' and e == 'method_return_object': outcome_raise(inj['ret'])
        return h
    for e in EVENTS:
        app.event_manager.add_listener(e, L('app', e))
        S.event_manager.add_listener(e, L('svc', e))
    w = WsgiApplication(app, chunked=s['cfg']['chunked'], max_content_length=200)
    for e in WSGI_EVENTS:
        w.event_manager.add_listener(e, (lambda e: lambda ctx: log.append(['ev', 'wsgi', e]))(e))
    return w


def request(s):
    fam, req = s['cfg']['family'], s['req']
    env = {'REQUEST_METHOD': 'POST', 'PATH_INFO': '/', 'QUERY_STRING': '', 'CONTENT_TYPE': 'text/xml',
           'wsgi.url_scheme': 'http', 'SERVER_NAME': 'x', 'SERVER_PORT': '80'}
    meth = 'zzz' if req == 'unknown' else 'f'
    arg = 'notint' if req == 'badargs' else '5'
    if fam == 'xml':
        body = '<tns:%s xmlns:tns="tns"><tns:a>%s</tns:a></tns:%s>' % (meth, arg, meth)
    elif fam == 'soap11':
        E = 'http://schemas.xmlsoap.org/soap/envelope/'
        if req == 'badenvelope':
            body = '<tns:f xmlns:tns="tns"><tns:a>5</tns:a></tns:f>'
        else:
            body = '<e:Envelope xmlns:e="%s" xmlns:tns="tns"><e:Body><tns:%s><tns:a>%s</tns:a></tns:%s></e:Body></e:Envelope>' % (E, meth, arg, meth)
    elif fam == 'json':
        body = '{"%s": {"a": %s}}' % (meth, '"notint"' if req == 'badargs' else arg)
        env['CONTENT_TYPE'] = 'application/json'
    elif fam == 'http':
        body = ''
        env['REQUEST_METHOD'] = 'GET'; env['PATH_INFO'] = '/' + meth; env['QUERY_STRING'] = 'a=' + arg
    if req == 'badsyntax':
        body = body[:len(body) // 2] if fam != 'http' else body
    if req == 'toolong':
        body = body + ' ' * 300
    body = body.encode()
    env['wsgi.input'] = BytesIO(body)
    env['CONTENT_LENGTH'] = str(len(body))
    return env


def run(s):
    log = []
    w = build(s, log)
    env = request(s)

    def sr(status, headers, exc_info=None):
        log.append(['sr', int(status.split()[0])])
    try:
        it = w(env, sr)
        log.append(['io', 'handover'])
        n = 0
        if s['abort'] != 0:
            for c in it:
                n += 1
                if n == 1: log.append(['io', 'chunk'])     # abstraction: first chunk only
                if s['abort'] == n: break
        log.append(['io', 'iterclose'])
        if hasattr(it, 'close'): it.close()
    except Exception as e:
        log.append(['escape', type(e).__name__])
    return log


if __name__ == '__main__':
    scen = json.load(open(sys.argv[1]))
    with open(sys.argv[2], 'w') as f:
        for i, s in enumerate(scen):
            if s['cfg']['family'] == 'http' and s['req'] == 'badsyntax':
                continue
            f.write(json.dumps({'tid': i, 'scen': s, 'obs': run(s)}) + '\n')
