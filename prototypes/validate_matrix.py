"""Soft-validation verdict matrix across protocol families, vs an ideal verdict."""
import logging; logging.disable(logging.CRITICAL)
import warnings; warnings.simplefilter('ignore')
import json, yaml, msgpack, collections
from io import BytesIO
from urllib.parse import quote
from spyne import Application, Service, srpc, Integer, Unicode, ComplexModel, Array, Boolean, Date, Decimal
from spyne.model.primitive import UnsignedByte, Byte, Int, UnsignedInt, Short
from spyne.protocol.soap import Soap11
from spyne.protocol.xml import XmlDocument
from spyne.protocol.json import JsonDocument
from spyne.protocol.yaml import YamlDocument
from spyne.protocol.msgpack import MessagePackDocument
from spyne.protocol.http import HttpRpc
from spyne.server.wsgi import WsgiApplication

RAN=[]
def mkapp(T, inp):
    class S(Service):
        @srpc(T, _returns=Integer)
        def f(a):
            RAN.append(a); return 1
    return WsgiApplication(Application([S], 'tns', in_protocol=inp, out_protocol=JsonDocument()))
def call(w, env_extra, body):
    del RAN[:]
    env = {'REQUEST_METHOD': 'POST', 'PATH_INFO': '/', 'QUERY_STRING': '', 'CONTENT_TYPE': 'text/xml',
           'wsgi.input': BytesIO(body), 'wsgi.url_scheme':'http','SERVER_NAME':'x','SERVER_PORT':'80', 'CONTENT_LENGTH': str(len(body))}
    env.update(env_extra)
    st=[]
    try:
        out=b''.join(w(env, lambda s,h,e=None: st.append(s)))
    except Exception as e:
        return 'ESC:'+type(e).__name__
    if RAN: return 'ACCEPT'
    try: code = json.loads(out).get('faultcode','?')
    except Exception: code='?'
    return 'REJECT' if code.startswith('Client') else 'SERVER:'+code
E='http://schemas.xmlsoap.org/soap/envelope/'
def req(fam, items, numeric):
    # items: list of literal strings (one per occurrence); numeric: send as number in dict docs
    def jv(x):
        if numeric:
            try: return int(x)
            except ValueError: return x
        return x
    if fam=='xml': return {}, ('<tns:f xmlns:tns="tns">%s</tns:f>' % ''.join('<tns:a>%s</tns:a>'%i for i in items)).encode()
    if fam=='soap': return {}, ('<e:Envelope xmlns:e="%s" xmlns:tns="tns"><e:Body><tns:f>%s</tns:f></e:Body></e:Envelope>' % (E, ''.join('<tns:a>%s</tns:a>'%i for i in items))).encode()
    if fam in ('json','yaml','msgpack'):
        if len(items)==0: d={'f':{}}
        elif len(items)==1 and not MULTI[0]: d={'f':{'a': jv(items[0])}}
        else: d={'f':{'a':[jv(i) for i in items]}}
        if fam=='json': return {'CONTENT_TYPE':'application/json'}, json.dumps(d).encode()
        if fam=='yaml': return {'CONTENT_TYPE':'text/yaml'}, yaml.safe_dump(d).encode()
        return {'CONTENT_TYPE':'application/x-msgpack'}, msgpack.packb({b'f': {b'a': d['f']['a']} if 'a' in d['f'] else {}})
    if fam=='http': return {'REQUEST_METHOD':'GET','PATH_INFO':'/f','QUERY_STRING':'&'.join('a=%s'%quote(i) for i in items)}, b''
PROT={'xml':lambda: XmlDocument(validator='soft'),'soap':lambda: Soap11(validator='soft'),'json':lambda: JsonDocument(validator='soft'),
      'yaml':lambda: YamlDocument(validator='soft'),'msgpack':lambda: MessagePackDocument(validator='soft'),'http':lambda: HttpRpc(validator='soft')}
MULTI=[False]
cases=[]
def add(name, T, items, ideal, numeric=True, multi=False): cases.append((name,T,items,ideal,numeric,multi))
for v,ok in [(-1,False),(0,True),(254,True),(255,True),(256,False)]: add('UnsignedByte %d'%v, UnsignedByte, [str(v)], ok)
for v,ok in [(-129,False),(-128,True),(127,True),(128,False)]: add('Byte %d'%v, Byte, [str(v)], ok)
for v,ok in [(-2147483649,False),(-2147483648,True),(2147483647,True),(2147483648,False)]: add('Int %d'%v, Int, [str(v)], ok)
for v,ok in [(4,False),(5,True),(9,True),(10,False)]: add('Integer(ge=5,lt=10) %d'%v, Integer(ge=5,lt=10), [str(v)], ok)
for v,ok in [('',False),('a',True),('abc',True),('abcd',False)]: add('Unicode(min_len=1,max_len=3) %r'%v, Unicode(min_len=1,max_len=3), [v], ok, numeric=False)
for v,ok in [('ab',True),('abx',False),('xab',False),('',False)]: add('Unicode(pattern=[ab]+) %r'%v, Unicode(pattern='[ab]+'), [v], ok, numeric=False)
for v,ok in [('x',True),('y',True),('z',False)]: add('Unicode(values=x,y) %r'%v, Unicode(values=['x','y']), [v], ok, numeric=False)
for n,ok in [(0,False),(1,True),(2,True),(3,False)]: add('Integer(min_occurs=1,max_occurs=2) x%d'%n, Integer(min_occurs=1,max_occurs=2), ['7']*n, ok, multi=True)
for n,ok in [(0,False),(1,True)]: add('Integer(min_occurs=1) x%d'%n, Integer(min_occurs=1), ['7']*n, ok)
for v,ok in [('12a',False),('1_000',False),(' 5 ',True),('+5',True),('٣',False)]: add('Integer lexical %r'%v, Integer, [v], ok, numeric=False)
for v,ok in [('true',True),('1',True),('maybe',False)]: add('Boolean lexical %r'%v, Boolean, [v], ok, numeric=False)
for v,ok in [('2020-02-30',False),('2020-02-29',True),('2020-13-01',False)]: add('Date lexical %r'%v, Date, [v], ok, numeric=False)
for v,ok in [('2019-12-31',False),('2020-01-01',True)]:
    import datetime; add('Date(ge=2020-01-01) %r'%v, Date(ge=datetime.date(2020,1,1)), [v], ok, numeric=False)
rows=[]
for name,T,items,ideal,numeric,multi in cases:
    MULTI[0]=multi
    row={}
    for fam,mk in PROT.items():
        w = mkapp(T, mk())
        ex, body = req(fam, items, numeric)
        row[fam]=call(w, ex, body)
    want='ACCEPT' if ideal else 'REJECT'
    bad={k:v for k,v in row.items() if v!=want}
    print('%-44s want %-6s %s' % (name, want, 'OK' if not bad else bad))
